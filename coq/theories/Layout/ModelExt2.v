(* C14 — second extension of the layout model.  Definitions only.

   (User-defined `external` types are part of Model.v itself: tref RExt, m_externals.)

   1. constraints._check_constancy_of_constant_references: every static reference `Type.field` /
      `Enum.VALUE` that reaches check_constraints (references to physical fields and to parameters
      are rejected by type_check.py before) must refer to a constant;
   2. attribute_checker._valid_back_ends / _gather_expected_back_ends / _verify_back_end_attributes:
      the [expected_back_ends] string is a comma-separated list of back-end names
      (a lower-case letter, then lower-case letters, digits, underscores) padded by whitespace, with an optional trailing comma, or blank; the
      qualifiers then accepted on attributes are exactly the listed names.

   [realisable_y] states the same from doc/language-reference.md ("When a virtual field has a constant
   value, you may refer to it using its type"); [expected_back_ends] is not described in the language
   reference: [back_ends_ok] follows the compiler's diagnostic (must be a comma-delimited list of back
   end specifiers, like cpp, proto). *)
From Coq Require Import ZArith NArith List Bool String Ascii.
Import ListNotations.
Require Import EmbossV.Bounds.Model EmbossV.Layout.Model EmbossV.Layout.ModelExt.
Open Scope Z_scope.

(* ====================================================================== *)
(* 1. static references                                                   *)
(* ====================================================================== *)
(* what a constant_reference resolves to (ir_util.find_object), and whether THAT object is constant:
   an enum value (ir_util.is_constant of its value expression) or a virtual field, `let` or
   synthesized $size_in_bytes etc. (ir_util.is_constant_type of its read_transform; computed by
   expression_bounds, property C05) *)
Inductive sref_target := TgEnumValue (const : bool) | TgVirtual (const : bool).

Definition target_const (t : sref_target) : bool :=
  match t with TgEnumValue c => c | TgVirtual c => c end.

(* _check_constancy_of_constant_references reports nothing *)
Definition check_srefs (l : list sref_target) : bool := forallb target_const l.

(* "Static references must refer to constants" *)
Definition real_sref (t : sref_target) : Prop := t = TgEnumValue true \/ t = TgVirtual true.

(* ====================================================================== *)
(* 2. [expected_back_ends]                                                *)
(* ====================================================================== *)
Definition be_start (c : ascii) : bool := in_range 97 122 c.
Definition be_char (c : ascii) : bool := in_range 97 122 c || in_range 48 57 c || N.eqb (code c) 95.

Definition be_identb (l : chars) : bool :=
  match l with
  | c :: r => be_start c && forallb be_char r
  | [] => false
  end.

(* the re.fullmatch of _valid_back_ends (the harness compares the regular expression in the source with the
   one this scanner was written against, and both on generated strings) *)
Definition back_ends_okb (s : string) : bool :=
  let l := list_ascii_of_string s in
  forallb is_space l || forallb be_identb (case_pieces l).

(* _gather_expected_back_ends: the stripped pieces of value.split on commas (the empty qualifier of
   unqualified attributes is always expected and never occurs in m_used_back_ends) *)
Definition back_ends_of (s : string) : list string :=
  map (fun p => string_of_list_ascii (trim p)) (split_comma (list_ascii_of_string s)).

(* --- declarative --- *)
Definition be_ident (l : chars) : Prop :=
  exists c r, l = c :: r /\ be_start c = true /\ Forall (fun c => be_char c = true) r.

(* blank, or a comma-separated list of back-end names, each padded with whitespace, with an optional
   trailing comma (followed by whitespace only) *)
Definition back_ends_ok (s : string) : Prop :=
  let l := list_ascii_of_string s in
  all_ws l \/ exists names, case_shape l names /\ Forall be_ident names.

(* the declaration of one module: None = no [expected_back_ends] attribute (default "cpp") *)
Definition default_back_ends : string := "cpp"%string.
Definition declared_string (o : option string) : string := match o with Some s => s | None => default_back_ends end.

Record be_decl := mk_be_decl {
  bd_string : option string;       (* the string value of [expected_back_ends] *)
  bd_used : list string            (* qualifiers occurring on attributes anywhere in that module *)
}.

Definition check_be_decl (d : be_decl) : bool :=
  back_ends_okb (declared_string (bd_string d))
  && forallb (fun b => str_in (back_ends_of (declared_string (bd_string d))) b) (bd_used d).

Definition real_be_decl (d : be_decl) : Prop :=
  back_ends_ok (declared_string (bd_string d))
  /\ forall b, In b (bd_used d) -> In b (back_ends_of (declared_string (bd_string d))).

(* ====================================================================== *)
(* 3. the extended checker                                                *)
(* ====================================================================== *)
Record ext_info2 := mk_ext2 {
  y_srefs : list sref_target;      (* one entry per constant_reference expression of the IR *)
  y_decls : list be_decl           (* one entry per module of the IR, the main module first *)
}.

Definition check_front_y (T : tables) (X : ext_info) (Y : ext_info2) (M : module) : bool :=
  check_front_x T X M && check_srefs (y_srefs Y) && forallb check_be_decl (y_decls Y).

Definition check_layout_y (T : tables) (C : cpp_tables) (X : ext_info) (Y : ext_info2) (M : module) : bool :=
  check_front_y T X Y M && check_cpp C (x_cpp X).

Definition realisable_front_y (T : tables) (X : ext_info) (Y : ext_info2) (M : module) : Prop :=
  realisable_front_x T X M
  /\ (forall t, In t (y_srefs Y) -> real_sref t)
  /\ (forall d, In d (y_decls Y) -> real_be_decl d).

Definition realisable_y (T : tables) (C : cpp_tables) (X : ext_info) (Y : ext_info2) (M : module) : Prop :=
  realisable_front_y T X Y M /\ real_cpp C (x_cpp X).
