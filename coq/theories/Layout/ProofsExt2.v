(* C14 — proofs for the second extension. *)
From Coq Require Import ZArith NArith List Bool String Ascii Lia ZifyBool.
Import ListNotations.
Require Import EmbossV.Bounds.Model EmbossV.Layout.Model EmbossV.Layout.Proofs EmbossV.Layout.ProofsMain.
Require Import EmbossV.Layout.ModelExt EmbossV.Layout.ProofsExt EmbossV.Layout.ModelExt2.
Open Scope Z_scope.

(* ---------- static references ---------- *)
Lemma target_const_iff t : target_const t = true <-> real_sref t.
Proof.
  unfold real_sref. destruct t as [[|]|[|]]; simpl; split; auto; try discriminate;
    intros [H|H]; discriminate.
Qed.

Lemma check_srefs_iff l : check_srefs l = true <-> forall t, In t l -> real_sref t.
Proof. unfold check_srefs. apply forallb_iff. intros t _. apply target_const_iff. Qed.

(* ---------- [expected_back_ends] ---------- *)
Lemma be_identb_iff l : be_identb l = true <-> be_ident l.
Proof.
  unfold be_identb, be_ident. destruct l as [|c r].
  - split; [discriminate|]. intros (c & r & H & _). discriminate.
  - rewrite andb_true_iff, forallb_forall, <- Forall_forall. split.
    + intros [A B]. exists c, r. auto.
    + intros (c' & r' & [= <- <-] & A & B). auto.
Qed.

Lemma all_ws_iff l : forallb is_space l = true <-> all_ws l.
Proof. unfold all_ws. rewrite forallb_forall, Forall_forall. tauto. Qed.

Lemma back_ends_okb_iff s : back_ends_okb s = true <-> back_ends_ok s.
Proof.
  unfold back_ends_okb, back_ends_ok. set (l := list_ascii_of_string s).
  rewrite orb_true_iff, all_ws_iff. split.
  - intros [H|H]; [left; assumption|]. right. exists (case_pieces l).
    rewrite forallb_forall in H. split.
    + apply case_pieces_sound. apply Forall_forall. intros t Ht. specialize (H t Ht).
      destruct t; [discriminate|discriminate].
    + apply Forall_forall. intros t Ht. apply be_identb_iff. apply H. assumption.
  - intros [H|(cs & HS & HF)]; [left; assumption|]. right.
    rewrite (case_pieces_complete l cs HS). apply forallb_forall. intros t Ht.
    apply be_identb_iff. rewrite Forall_forall in HF. apply HF. assumption.
Qed.

Lemma str_in_iff' l s : str_in l s = true <-> In s l.
Proof.
  unfold str_in. rewrite existsb_exists. split.
  - intros (x & Hx & E). apply String.eqb_eq in E. subst. assumption.
  - intros H. exists s. split; [assumption|apply String.eqb_refl].
Qed.

Lemma check_be_decl_iff d : check_be_decl d = true <-> real_be_decl d.
Proof.
  unfold check_be_decl, real_be_decl. rewrite andb_true_iff, back_ends_okb_iff.
  rewrite (forallb_iff _ (fun b => In b (back_ends_of (declared_string (bd_string d))))); [tauto|].
  intros b _. apply str_in_iff'.
Qed.

(* the qualifiers accepted on attributes are exactly the trimmed comma-separated pieces of the string *)
Lemma back_ends_members_lem s b :
  In b (back_ends_of s) <->
  exists piece, In piece (split_comma (list_ascii_of_string s)) /\ b = string_of_list_ascii (trim piece).
Proof.
  unfold back_ends_of. rewrite in_map_iff. split; intros (p & A & B); exists p; auto.
Qed.

(* ---------- the extended checker ---------- *)
Lemma check_front_y_iff T X Y M :
  t_req T = prelude_req -> units_ok M -> (check_front_y T X Y M = true <-> realisable_front_y T X Y M).
Proof.
  intros HT UM. unfold check_front_y, realisable_front_y.
  rewrite !andb_true_iff, (check_front_x_iff T X M HT UM), check_srefs_iff.
  rewrite (forallb_iff check_be_decl real_be_decl) by (intros d _; apply check_be_decl_iff).
  tauto.
Qed.

Lemma check_layout_y_iff T C X Y M :
  t_req T = prelude_req -> units_ok M -> (check_layout_y T C X Y M = true <-> realisable_y T C X Y M).
Proof.
  intros HT UM. unfold check_layout_y, realisable_y.
  rewrite andb_true_iff, (check_front_y_iff T X Y M HT UM), check_cpp_iff. tauto.
Qed.

(* ---------- examples ---------- *)
Require Import EmbossV.Layout.Exec EmbossV.Layout.ExecExt EmbossV.Layout.ExecExt2.
Open Scope string_scope.

Lemma example_realisable_y_lem :
  units_ok ex_M /\ check_layout_y ex_T ex_C ex_X ex_Y ex_M = true /\ realisable_y ex_T ex_C ex_X ex_Y ex_M
  /\ Forall (fun Y => check_layout_y ex_T ex_C ex_X Y ex_M = false /\ ~ realisable_y ex_T ex_C ex_X Y ex_M) ex_Y_bad.
Proof.
  assert (U : units_ok ex_M) by (apply units_okb_ok; vm_compute; reflexivity).
  assert (K : check_layout_y ex_T ex_C ex_X ex_Y ex_M = true) by (vm_compute; reflexivity).
  split; [exact U|]. split; [exact K|]. split; [apply (check_layout_y_iff ex_T ex_C ex_X ex_Y ex_M eq_refl U); exact K|].
  assert (B : forall Y, check_layout_y ex_T ex_C ex_X Y ex_M = false ->
              check_layout_y ex_T ex_C ex_X Y ex_M = false /\ ~ realisable_y ex_T ex_C ex_X Y ex_M).
  { intros Y HC. split; [exact HC|]. intros R. apply (check_layout_y_iff ex_T ex_C ex_X Y ex_M eq_refl U) in R. congruence. }
  unfold ex_Y_bad. repeat (apply Forall_cons; [apply B; vm_compute; reflexivity|]). apply Forall_nil.
Qed.

Lemma back_ends_examples_lem :
  back_ends_ok "cpp" /\ back_ends_ok " cpp , proto_2 ," /\ back_ends_ok "" /\ back_ends_ok "  "
  /\ ~ back_ends_ok "cpp,,proto" /\ ~ back_ends_ok "Cpp" /\ ~ back_ends_ok "cpp proto" /\ ~ back_ends_ok ",cpp"
  /\ ~ back_ends_ok "2cpp" /\ ~ back_ends_ok "cpp, ,"
  /\ back_ends_of " cpp , proto_2 ," = ["cpp"; "proto_2"; ""].
Proof.
  repeat split; try (apply back_ends_okb_iff; vm_compute; reflexivity);
    intros H; apply back_ends_okb_iff in H; vm_compute in H; discriminate.
Qed.
