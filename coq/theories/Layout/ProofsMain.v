(* C14 — assembling the per-rule lemmas into check_layout <-> realisable. *)
From Coq Require Import ZArith NArith List Bool String Lia ZifyBool.
Import ListNotations.
Require Import EmbossV.Bounds.Model EmbossV.Layout.Model EmbossV.Layout.Proofs.
Open Scope Z_scope.

Definition externals_ok (M : module) : Prop := forall x, In x (m_externals M) -> real_external x.

Lemma unit_cases M r : units_ok M -> externals_ok M -> unit_of_ref M r = 1 \/ unit_of_ref M r = 8.
Proof.
  intros U X. destruct r as [p|i|i|i]; simpl; auto.
  - unfold nth_struct. destruct (nth_error (m_structs M) i) as [s|] eqn:E; auto.
    apply U. eapply nth_error_In; eauto.
  - unfold nth_ext. destruct (nth_error (m_externals M) i) as [x|] eqn:E; auto.
    apply ext_unit_ok. apply X. eapply nth_error_In; eauto.
Qed.

Lemma all_but_last_const_iff d :
  all_but_last_const d = true <-> Forall (fun a => exists n, a = LConst n) (removelast d).
Proof.
  unfold all_but_last_const. rewrite forallb_forall, Forall_forall. split; intros H x Hx; specialize (H x Hx).
  - destruct x; try discriminate. eexists; reflexivity.
  - destruct H as (n & ->). reflexivity.
Qed.

Lemma check_field_iff T M s f :
  t_req T = prelude_req -> units_ok M -> externals_ok M -> (s_unit s = 1 \/ s_unit s = 8) ->
  (check_field T M s f = true <-> real_field T M s f).
Proof.
  intros HT UM XM US. unfold check_field, real_field.
  destruct (f_virtual f) eqn:V; [split; [intros _ H; discriminate | reflexivity]|].
  rewrite !andb_true_iff, all_but_last_const_iff, (check_type_req_iff T M s f HT), check_border_iff.
  pose proof (unit_cases M (t_ref (f_type f)) UM XM) as UR.
  split.
  - intros (((((A & B) & C) & D) & E) & F) _.
    split; [|split; [|split; [exact D|split; [exact E|exact F]]]].
    + intros U1. destruct UR as [R|R]; [assumption|]. rewrite U1, R in A. simpl in A. discriminate.
    + intros ND. destruct (t_dims (f_type f)) as [|d ds]; [congruence|].
      destruct (elem_size M (f_type f)) as [z|]; [|discriminate]. exists z. split; [reflexivity|].
      apply Z.eqb_eq in C. apply Z.mod_divide; [lia|exact C].
  - intros H. specialize (H eq_refl). destruct H as (A & B & D & E & F).
    split; [split; [split; [split; [split|]|exact D]|exact E]|exact F].
    + destruct US as [U1|U8]; destruct UR as [R|R]; rewrite ?U1, ?U8, ?R; try reflexivity.
      specialize (A U1). congruence.
    + destruct (t_dims (f_type f)) as [|d ds]; [reflexivity|].
      destruct (B ltac:(discriminate)) as (z & -> & _). reflexivity.
    + destruct (t_dims (f_type f)) as [|d ds]; [reflexivity|].
      destruct (B ltac:(discriminate)) as (z & -> & Hm). apply Z.eqb_eq. apply Z.mod_divide; [lia|exact Hm].
Qed.

Lemma reserved_iff T n : reserved T n = true <-> In n (t_reserved T).
Proof.
  unfold reserved. rewrite existsb_exists. split.
  - intros (x & Hx & E). apply String.eqb_eq in E. subst. assumption.
  - intros H. exists n. split; [assumption|apply String.eqb_refl].
Qed.

Lemma not_reserved_iff T n : negb (reserved T n) = true <-> ~ In n (t_reserved T).
Proof. rewrite negb_true_iff, <- reserved_iff. destruct (reserved T n); split; congruence. Qed.

Lemma forallb_iff {A} (f : A -> bool) (P : A -> Prop) l :
  (forall x, In x l -> (f x = true <-> P x)) -> (forallb f l = true <-> forall x, In x l -> P x).
Proof.
  intros H. rewrite forallb_forall. split; intros K x Hx; apply (H x Hx); auto.
Qed.

Lemma check_names_iff T M : check_names T M = true <-> real_names T M.
Proof.
  unfold check_names, real_names. rewrite !andb_true_iff.
  rewrite (forallb_iff (fun x => negb (reserved T (xd_name x))) (fun x => ~ In (xd_name x) (t_reserved T)))
    by (intros x _; apply not_reserved_iff).
  rewrite !forallb_forall.
  assert (K : forall (A B A' B' C : Prop), (A /\ B <-> A' /\ B') -> ((A /\ B) /\ C <-> A' /\ B' /\ C)) by tauto.
  apply K. clear K. split.
  - intros [A B]. split.
    + intros e He. specialize (A e He). apply andb_true_iff in A. destruct A as [A1 A2].
      split; [apply not_reserved_iff; assumption|]. intros n v Hin. rewrite forallb_forall in A2.
      specialize (A2 (n, v) Hin). apply not_reserved_iff in A2. assumption.
    + intros s Hs. specialize (B s Hs). apply andb_true_iff in B. destruct B as [B1 B2].
      split; [apply not_reserved_iff; assumption|]. intros f Hf. rewrite forallb_forall in B2.
      apply not_reserved_iff. apply B2. assumption.
  - intros [A B]. split.
    + intros e He. destruct (A e He) as [A1 A2]. apply andb_true_iff. split; [apply not_reserved_iff; assumption|].
      apply forallb_forall. intros [n v] Hin. apply not_reserved_iff. eapply A2; eauto.
    + intros s Hs. destruct (B s Hs) as [B1 B2]. apply andb_true_iff. split; [apply not_reserved_iff; assumption|].
      apply forallb_forall. intros f Hf. apply not_reserved_iff. auto.
Qed.


Lemma check_all_attrs_iff T M : check_all_attrs T M = true <-> real_attrs T M.
Proof.
  unfold check_all_attrs, real_attrs. rewrite !andb_true_iff.
  rewrite (check_attrs_iff (t_attr T) ScModule).
  rewrite (forallb_iff _ (fun e => attrs_ok (t_attr T) ScEnum (e_attrs e)
                                   /\ Forall (attrs_ok (t_attr T) ScEnumValue) (e_value_attrs e))).
  2:{ intros e _. rewrite andb_true_iff, check_attrs_iff, Forall_forall.
      rewrite (forallb_iff _ (attrs_ok (t_attr T) ScEnumValue)); [tauto|].
      intros l _. apply check_attrs_iff. }
  rewrite (forallb_iff _ (fun s => attrs_ok (t_attr T) (struct_scope s) (s_attrs s)
                                   /\ forall f, In f (s_fields s) -> attrs_ok (t_attr T) (field_scope f) (f_attrs f))).
  2:{ intros s _. rewrite andb_true_iff, check_attrs_iff.
      rewrite (forallb_iff _ (fun f => attrs_ok (t_attr T) (field_scope f) (f_attrs f))); [tauto|].
      intros f _. apply check_attrs_iff. }
  rewrite (forallb_iff _ (fun x => attrs_ok (t_attr T) ScExternal (xd_attrs x))) by (intros x _; apply check_attrs_iff).
  tauto.
Qed.

Lemma check_back_ends_iff M : check_back_ends M = true <-> real_back_ends M.
Proof.
  unfold check_back_ends, real_back_ends. rewrite forallb_forall.
  split; intros H b Hb; specialize (H b Hb).
  - apply existsb_exists in H. destruct H as (x & Hx & E). apply String.eqb_eq in E. subst. assumption.
  - apply existsb_exists. exists b. split; [assumption|apply String.eqb_refl].
Qed.

Lemma check_layout_iff_realisable_lem T M :
  t_req T = prelude_req -> units_ok M -> (check_layout T M = true <-> realisable T M).
Proof.
  intros HT UM. unfold check_layout, realisable.
  rewrite !andb_true_iff, check_all_attrs_iff, check_names_iff, check_back_ends_iff.
  rewrite (forallb_iff check_enum real_enum) by (intros e _; apply check_enum_iff).
  rewrite (forallb_iff check_external real_external) by (intros x _; apply check_external_iff).
  (* the field rules are equivalent once every external has a valid addressable unit *)
  assert (S : externals_ok M ->
              (forallb (fun s => check_struct_size s && forallb (check_field T M s) (s_fields s)
                                 && forallb (check_param T M) (s_params s)) (m_structs M) = true <->
               (forall s, In s (m_structs M) ->
                  real_struct_size s /\ (forall f, In f (s_fields s) -> real_field T M s f)
                  /\ (forall p, In p (s_params s) -> real_param M p)))).
  { intros XM.
    apply (forallb_iff _ (fun s => real_struct_size s /\ (forall f, In f (s_fields s) -> real_field T M s f)
                                   /\ (forall p, In p (s_params s) -> real_param M p))).
    intros s Hs. rewrite !andb_true_iff, check_struct_size_iff.
    rewrite (forallb_iff _ (real_field T M s)).
    2:{ intros f _. apply (check_field_iff T M s f HT UM XM (UM s Hs)). }
    rewrite (forallb_iff _ (real_param M)); [tauto|].
    intros [r b] _. unfold check_param, real_param. simpl.
    destruct r; try tauto. apply (phys_req_iff T M _ _ HT). }
  unfold externals_ok in S. tauto.
Qed.

(* defaults: the byte order a field gets is its own, else the innermost enclosing $default *)
Lemma defaults_inherited_lem M s f :
  effective_spec M s f (effective_border M s f) /\
  (forall e, effective_spec M s f e -> e = effective_border M s f) /\
  nearest_default (s_defaults s) (inherited_border s) /\
  (forall l d, s_defaults s = l ++ [Some d] -> inherited_border s = Some d) /\
  (forall l, s_defaults s = l ++ [None] -> inherited_border s = last_some l None).
Proof.
  split; [apply effective_border_spec|]. split; [apply effective_spec_fun|].
  split; [apply nearest_default_last|]. unfold inherited_border. split.
  - intros l d ->. apply last_some_snoc_some.
  - intros l ->. apply last_some_snoc_none.
Qed.

Require Import EmbossV.Layout.Exec.

Lemma units_okb_ok M : units_okb M = true -> units_ok M.
Proof.
  unfold units_okb, units_ok. rewrite forallb_forall. intros H s Hs. specialize (H s Hs). lia.
Qed.

Lemma example_realisable_lem : units_ok ex_M /\ check_layout ex_T ex_M = true /\ realisable ex_T ex_M.
Proof.
  assert (U : units_ok ex_M) by (apply units_okb_ok; vm_compute; reflexivity).
  assert (C : check_layout ex_T ex_M = true) by (vm_compute; reflexivity).
  split; [exact U|]. split; [exact C|].
  apply (check_layout_iff_realisable_lem ex_T ex_M eq_refl U). exact C.
Qed.

Lemma example_not_realisable_lem :
  units_ok ex_M_bad /\ check_layout ex_T ex_M_bad = false /\ ~ realisable ex_T ex_M_bad.
Proof.
  assert (U : units_ok ex_M_bad) by (apply units_okb_ok; vm_compute; reflexivity).
  assert (C : check_layout ex_T ex_M_bad = false) by (vm_compute; reflexivity).
  split; [exact U|]. split; [exact C|].
  intros R. apply (check_layout_iff_realisable_lem ex_T ex_M_bad eq_refl U) in R. congruence.
Qed.

(* user-defined externals: one realisable module, and one module per broken rule *)
Lemma example_externals_lem :
  (units_ok ex_M_ext_ok /\ check_layout ex_T ex_M_ext_ok = true /\ realisable ex_T ex_M_ext_ok)
  /\ Forall (fun M => units_ok M /\ check_layout ex_T M = false /\ ~ realisable ex_T M) ex_M_ext_bad.
Proof.
  split.
  - assert (U : units_ok ex_M_ext_ok) by (apply units_okb_ok; vm_compute; reflexivity).
    assert (C : check_layout ex_T ex_M_ext_ok = true) by (vm_compute; reflexivity).
    split; [exact U|]. split; [exact C|]. apply (check_layout_iff_realisable_lem ex_T _ eq_refl U). exact C.
  - assert (K : forall M, units_okb M = true -> check_layout ex_T M = false ->
                units_ok M /\ check_layout ex_T M = false /\ ~ realisable ex_T M).
    { intros M HU HC. pose proof (units_okb_ok M HU) as U. split; [exact U|]. split; [exact HC|].
      intros R. apply (check_layout_iff_realisable_lem ex_T M eq_refl U) in R. congruence. }
    unfold ex_M_ext_bad.
    repeat (apply Forall_cons; [apply K; vm_compute; reflexivity|]). apply Forall_nil.
Qed.

(* the addressable unit of an accepted module's externals is 1 or 8, and it is what decides where a
   field of that type may stand (bits: bit-oriented only) and whether it needs a byte order *)
Lemma external_unit_lem T M :
  check_layout T M = true -> forall i x, nth_ext M i = Some x ->
  (xd_unit x = Some 1 \/ xd_unit x = Some 8) /\ unit_of_ref M (RExt i) = ext_unit x
  /\ (ext_unit x = 1 \/ ext_unit x = 8).
Proof.
  unfold check_layout. rewrite !andb_true_iff. intros [[[[[_ H] _] _] _] _] i x E.
  rewrite forallb_forall in H. assert (R : real_external x).
  { apply check_external_iff. apply H. unfold nth_ext in E. eapply nth_error_In; eauto. }
  split; [exact R|]. split; [simpl; rewrite E; reflexivity|apply ext_unit_ok; exact R].
Qed.
