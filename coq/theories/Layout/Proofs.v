(* C14 — proofs: the checker mirrors decide the documented rules. *)
From Coq Require Import ZArith NArith List Bool String Lia ZifyBool.
Import ListNotations.
Require Import EmbossV.Bounds.Model EmbossV.Layout.Model.
Open Scope Z_scope.

(* ---------- prelude requirements (from the requirement expressions, by evaluation) ---------- *)
Lemma req_range lo hi w : req_holds (range_req lo hi) (Some w) = ((lo <=? w) && (w <=? hi)).
Proof.
  unfold req_holds, range_req, constant_value. cbn.
  destruct (lo <=? w), (w <=? hi); reflexivity.
Qed.

Lemma req_flag w : req_holds (prelude_req PFlag) (Some w) = (w =? 1).
Proof. unfold req_holds, constant_value. cbn. destruct (w =? 1); reflexivity. Qed.

Lemma req_float w : req_holds (prelude_req PFloat) (Some w) = ((w =? 32) || (w =? 64)).
Proof. unfold req_holds, constant_value. cbn. destruct (w =? 32), (w =? 64); reflexivity. Qed.

Lemma req_none p : req_holds (prelude_req p) None = false.
Proof. destruct p; reflexivity. Qed.

Lemma prelude_requirements_lem p w : req_holds (prelude_req p) (Some w) = true <-> width_ok p w.
Proof.
  destruct p; cbn [prelude_req width_ok]; rewrite ?req_range, ?req_flag, ?req_float; lia.
Qed.

(* ---------- attributes ---------- *)
Lemma key_eqb_eq a b : key_eqb a b = true <-> a = b.
Proof.
  destruct a as [n1 d1], b as [n2 d2]. unfold key_eqb. simpl.
  rewrite andb_true_iff, String.eqb_eq, Bool.eqb_true_iff. split; [intros [-> ->]; reflexivity|].
  intros H; inversion H; auto.
Qed.

Lemma existsb_key k l : existsb (key_eqb k) l = true <-> In k l.
Proof.
  rewrite existsb_exists. split.
  - intros (x & Hx & E). apply key_eqb_eq in E. subst. assumption.
  - intros H. exists k. split; [assumption|apply key_eqb_eq; reflexivity].
Qed.

Lemma check_attrs_loop_spec T spec l : forall seen,
  check_attrs_loop T spec seen l = true <->
  (NoDup (map key_of l) /\ (forall a, In a l -> ~ In (key_of a) seen) /\ Forall (attr_allowed T spec) l).
Proof.
  induction l as [|a r IH]; intros seen; simpl.
  - split; [intros _; repeat split; [constructor| intros ? []|constructor] | reflexivity].
  - destruct (existsb (key_eqb (key_of a)) seen) eqn:ES.
    { apply existsb_key in ES. split; [discriminate|]. intros (_ & H & _). exfalso. apply (H a); auto. }
    assert (NS : ~ In (key_of a) seen).
    { intros H. apply existsb_key in H. congruence. }
    destruct (existsb (key_eqb (key_of a)) spec) eqn:EP; simpl.
    2:{ split; [discriminate|]. intros (_ & _ & H). inversion H; subst. destruct H2 as [H2 _].
        apply existsb_key in H2. congruence. }
    apply existsb_key in EP.
    destruct (assoc_str (at_types T) (a_name a)) as [q|] eqn:EQ.
    2:{ split; [discriminate|]. intros (_ & _ & H). inversion H; subst. destruct H2 as [_ (q & Hq & _)]. congruence. }
    rewrite andb_true_iff, IH. split.
    + intros (HV & ND & HS & HF). repeat split.
      * constructor; [|assumption]. intros HI. apply in_map_iff in HI. destruct HI as (b & Hb & Hin).
        apply (HS b Hin). rewrite Hb. left. reflexivity.
      * intros b [<-|Hb]; [assumption|]. intros HI. apply (HS b Hb). right. assumption.
      * constructor; [|assumption]. split; [assumption|]. exists q. auto.
    + intros (ND & HS & HF). inversion ND; subst. inversion HF; subst.
      destruct H3 as [_ (q' & Hq' & HV)]. rewrite EQ in Hq'. inversion Hq'; subst q'.
      repeat split; auto.
      intros b Hb [HI|HI].
      * apply H1. apply in_map_iff. exists b. auto.
      * apply (HS b); auto.
Qed.

Lemma check_attrs_iff T sc l : check_attrs T sc l = true <-> attrs_ok T sc l.
Proof.
  unfold check_attrs, attrs_ok. destruct (assoc_scope (at_scopes T) sc) as [spec|].
  - rewrite check_attrs_loop_spec. split.
    + intros (A & _ & C). auto.
    + intros (A & C). repeat split; auto.
  - destruct l; split; intros H; auto; discriminate.
Qed.

(* ---------- fixed size of a structure ---------- *)
Lemma fixed_size_loop_sound fs : forall size m,
  fixed_size_loop fs size = Some m ->
  all_constant fs /\ size <= m /\
  (forall f a b, In f fs -> f_virtual f = false -> f_start f = Some a -> f_size f = Some b -> a + b <= m) /\
  (m = size \/ exists f a b, In f fs /\ f_virtual f = false /\ f_start f = Some a /\ f_size f = Some b /\ a + b = m).
Proof.
  induction fs as [|f r IH]; intros size m H; simpl in H.
  - inversion H; subst. repeat split; [intros ? [] | lia | intros ? ? ? [] | auto].
  - destruct (f_virtual f) eqn:V.
    + apply IH in H. destruct H as (AC & LE & UB & AT). repeat split.
      * intros g [<-|Hg] Hv; [congruence|auto].
      * assumption.
      * intros g a b [<-|Hg] Hv; [congruence|eauto].
      * destruct AT as [->|(g & a & b & Hg & R)]; [auto|]. right. exists g, a, b. split; [right; assumption|assumption].
    + destruct (f_start f) as [a0|] eqn:S; [|discriminate]. destruct (f_size f) as [b0|] eqn:Z; [|discriminate].
      apply IH in H. destruct H as (AC & LE & UB & AT). repeat split.
      * intros g [<-|Hg] Hv; [eauto|auto].
      * destruct (a0 + b0 >=? size) eqn:C; lia.
      * intros g a b [<-|Hg] Hv Hs Hz; [|eauto]. rewrite S in Hs. rewrite Z in Hz. inversion Hs; inversion Hz; subst.
        destruct (a + b >=? size) eqn:C; lia.
      * destruct AT as [->|(g & a & b & Hg & R)].
        -- destruct (a0 + b0 >=? size) eqn:C; [|auto]. right. exists f, a0, b0. repeat split; auto. left; reflexivity.
        -- right. exists g, a, b. split; [right; assumption|assumption].
Qed.

Lemma fixed_size_loop_total fs : forall size, all_constant fs -> exists m, fixed_size_loop fs size = Some m.
Proof.
  induction fs as [|f r IH]; intros size AC; simpl; [eauto|].
  assert (AC' : all_constant r) by (intros g Hg; apply AC; right; assumption).
  destruct (f_virtual f) eqn:V; [apply IH; assumption|].
  destruct (AC f (or_introl eq_refl) V) as (a & b & -> & ->). apply IH; assumption.
Qed.

Lemma is_max_end_unique fs m1 m2 : is_max_end fs m1 -> is_max_end fs m2 -> m1 = m2.
Proof.
  intros (U1 & A1 & P1) (U2 & A2 & P2).
  assert (forall x y, (forall f a b, In f fs -> f_virtual f = false -> f_start f = Some a -> f_size f = Some b -> a + b <= x) ->
                      0 <= x ->
                      (y = 0 \/ exists f a b, In f fs /\ f_virtual f = false /\ f_start f = Some a /\ f_size f = Some b /\ a + b = y) ->
                      y <= x) as L.
  { intros x y U P [->|(f & a & b & Hf & Hv & Hs & Hz & <-)]; [assumption|eauto]. }
  pose proof (L m1 m2 U1 P1 A2). pose proof (L m2 m1 U2 P2 A1). lia.
Qed.

Lemma struct_fixed_size_iff s z : struct_fixed_size s = Some z <-> has_fixed_size s z.
Proof.
  unfold struct_fixed_size, has_fixed_size. split.
  - destruct (fixed_size_loop (s_fields s) 0) as [m|] eqn:E; [|discriminate].
    intros H. inversion H; subst. apply fixed_size_loop_sound in E. destruct E as (AC & LE & UB & AT).
    split; [assumption|]. exists m. split; [|reflexivity]. repeat split; auto.
  - intros (AC & m & HM & ->). destruct (fixed_size_loop_total (s_fields s) 0 AC) as (m' & E).
    rewrite E. simpl. f_equal. f_equal.
    apply fixed_size_loop_sound in E. destruct E as (_ & LE & UB & AT).
    apply (is_max_end_unique (s_fields s)); [|assumption]. repeat split; auto.
Qed.

Lemma has_fixed_size_unique s z1 z2 : has_fixed_size s z1 -> has_fixed_size s z2 -> z1 = z2.
Proof. intros H1 H2. apply struct_fixed_size_iff in H1, H2. congruence. Qed.

Lemma check_struct_size_iff s : check_struct_size s = true <-> real_struct_size s.
Proof.
  unfold check_struct_size, real_struct_size. rewrite andb_true_iff. split.
  - intros [A B]. split.
    + intros a Ha. rewrite Ha in A. destruct (struct_fixed_size s) as [z|] eqn:E; [|discriminate].
      apply struct_fixed_size_iff. rewrite E. f_equal. lia.
    + intros U. rewrite U in B. simpl in B. destruct (struct_fixed_size s) as [z|] eqn:E; [|discriminate].
      exists z. split; [apply struct_fixed_size_iff; assumption|lia].
  - intros [A B]. split.
    + destruct (s_fixed_attr s) as [a|]; [|reflexivity]. specialize (A a eq_refl).
      apply struct_fixed_size_iff in A. rewrite A. lia.
    + destruct (s_unit s =? 1) eqn:U; [|reflexivity]. destruct (B ltac:(lia)) as (z & Hz & Hle).
      apply struct_fixed_size_iff in Hz. rewrite Hz. lia.
Qed.

(* ---------- defaults ---------- *)
Lemma last_some_snoc_some {A} (l : list (option A)) b : forall acc, last_some (l ++ [Some b]) acc = Some b.
Proof. induction l as [|[x|] r IH]; intros acc; simpl; auto. Qed.

Lemma last_some_snoc_none {A} (l : list (option A)) : forall acc, last_some (l ++ [None]) acc = last_some l acc.
Proof. induction l as [|[x|] r IH]; intros acc; simpl; auto. Qed.

Lemma nearest_default_last l : nearest_default l (last_some l None).
Proof.
  induction l as [|x l IH] using rev_ind; [constructor|].
  destruct x as [b|].
  - rewrite last_some_snoc_some. constructor.
  - rewrite last_some_snoc_none. constructor. assumption.
Qed.

Lemma nearest_default_fun l a : nearest_default l a -> a = last_some l None.
Proof.
  induction 1.
  - reflexivity.
  - rewrite last_some_snoc_some. reflexivity.
  - rewrite last_some_snoc_none. assumption.
Qed.

Lemma effective_border_spec M s f : effective_spec M s f (effective_border M s f).
Proof.
  unfold effective_border. destruct (f_border f) as [b|] eqn:B; [apply ES_own; assumption|].
  destruct (needs_border M s f) eqn:N; [|apply ES_unneeded; assumption].
  pose proof (nearest_default_last (s_defaults s)) as ND. unfold inherited_border.
  destruct (last_some (s_defaults s) None) as [d|] eqn:L.
  - apply ES_default; assumption.
  - destruct (may_be_null M s f) eqn:MN; [apply ES_null|apply ES_missing]; assumption.
Qed.

Lemma effective_spec_fun M s f e : effective_spec M s f e -> e = effective_border M s f.
Proof.
  unfold effective_border, inherited_border.
  destruct 1 as [b B|B N|d B N ND|B N ND MN|B N ND MN]; rewrite B; try rewrite N; try reflexivity;
    apply nearest_default_fun in ND; rewrite <- ND; try rewrite MN; reflexivity.
Qed.

Lemma check_border_iff M s f : check_border M s f = true <-> real_border M s f.
Proof.
  unfold check_border, real_border. split.
  - intros H. exists (effective_border M s f). split; [apply effective_border_spec|].
    destruct (effective_border M s f) as [[| |]|], (needs_border M s f), (may_be_null M s f);
      simpl in H; try discriminate; repeat split; intros; try discriminate; try reflexivity; try congruence.
  - intros (e & HS & HN & HM). apply effective_spec_fun in HS. subst e.
    destruct (effective_border M s f) as [[| |]|], (needs_border M s f), (may_be_null M s f); simpl; auto;
      try (exfalso; assert (X : Some BLittle <> (None : option border)) by discriminate; apply HN in X; discriminate);
      try (exfalso; assert (X : Some BBig <> (None : option border)) by discriminate; apply HN in X; discriminate);
      try (exfalso; assert (X : Some BNull <> (None : option border)) by discriminate; apply HN in X; discriminate);
      try (specialize (HM eq_refl); discriminate);
      try (exfalso; destruct HN as [_ HN]; specialize (HN eq_refl); congruence).
Qed.

(* ---------- enums ---------- *)
Lemma check_enum_iff e : check_enum e = true <-> real_enum e.
Proof.
  unfold check_enum, real_enum, in_enum_range, enum_range.
  rewrite !andb_true_iff, forallb_forall. split.
  - intros [[A B] C]. split; [lia|]. intros n v Hin. specialize (C (n, v) Hin). simpl in C.
    destruct (enum_is_signed e); simpl in C; lia.
  - intros [A C]. split; [lia|]. intros [n v] Hin. specialize (C n v Hin). simpl.
    destruct (enum_is_signed e); simpl; lia.
Qed.

(* ---------- type requirements ---------- *)
Lemma phys_req_iff T M r size :
  t_req T = prelude_req -> (phys_req T M r size = true <-> real_width M r size).
Proof.
  intros HT. destruct r as [p|i|i|i]; simpl.
  - rewrite HT. destruct size as [w|].
    + rewrite prelude_requirements_lem. split; [intros H; exists w; auto|].
      intros (w' & E & H). inversion E; subst. assumption.
    + rewrite req_none. split; [discriminate|]. intros (w & E & _). discriminate.
  - destruct (nth_enum M i) as [e|] eqn:E.
    + destruct size as [w|].
      * split; [intros H; exists e, w; repeat split; auto; lia|].
        intros (e' & w' & E1 & E2 & H). inversion E1; inversion E2; subst. lia.
      * split; [discriminate|]. intros (e' & w' & _ & E2 & _). discriminate.
    + split; [discriminate|]. intros (e' & w' & E1 & _). discriminate.
  - tauto.
  - destruct (nth_ext M i) as [x|] eqn:E; [|split; [intros _ x e H; discriminate|reflexivity]].
    destruct (xd_req x) as [e|] eqn:R.
    + split; [intros H x' e' [= <-] E2; congruence|]. intros H. apply (H x e eq_refl R).
    + split; [intros _ x' e' [= <-] E2; congruence|reflexivity].
Qed.

(* ---------- user-defined externals ---------- *)
Lemma external_requirements_lem T M i size :
  t_req T = prelude_req -> (phys_req T M (RExt i) size = true <-> real_width M (RExt i) size).
Proof. intros H. exact (phys_req_iff T M (RExt i) size H). Qed.

Lemma check_external_iff x : check_external x = true <-> real_external x.
Proof.
  unfold check_external, real_external. destruct (xd_unit x) as [u|].
  - split.
    + intros H. apply orb_true_iff in H. destruct H as [H|H]; apply Z.eqb_eq in H; subst; auto.
    + intros [[= ->]|[= ->]]; reflexivity.
  - split; [discriminate|]. intros [H|H]; discriminate.
Qed.

Lemma ext_unit_ok x : real_external x -> ext_unit x = 1 \/ ext_unit x = 8.
Proof. unfold real_external, ext_unit. intros [->| ->]; auto. Qed.

(* the requirement of a user-defined external, when it has the shape of a width range, is that range *)
Lemma req_range_none lo hi : req_holds (range_req lo hi) None = false.
Proof. reflexivity. Qed.

Lemma external_range_requirement_lem T M i x lo hi size :
  nth_ext M i = Some x -> xd_req x = Some (range_req lo hi) ->
  (phys_req T M (RExt i) size = true <-> exists w, size = Some w /\ lo <= w <= hi).
Proof.
  intros E R. simpl. rewrite E, R. destruct size as [w|].
  - rewrite req_range. split; [intros H; exists w; split; [reflexivity|lia]|].
    intros (w' & [= <-] & H). lia.
  - rewrite req_range_none. split; [discriminate|]. intros (w & H & _). discriminate.
Qed.

Lemma external_without_requirement_lem T M i x size :
  nth_ext M i = Some x -> xd_req x = None -> phys_req T M (RExt i) size = true.
Proof. intros E R. simpl. rewrite E, R. reflexivity. Qed.


Lemma fits_field_iff s f a anon :
  let fmin := f_smin f * s_unit s in
  let fmax := f_smax f * s_unit s in
  ((if (fmax =? fmin) && ((a >? fmax) || ((a <? fmin) && negb anon)) then false
    else if a >? fmax then false else true) = true) <-> fits_field s f a anon.
Proof.
  unfold fits_field. cbv zeta. destruct anon; simpl.
  - destruct (f_smax f * s_unit s =? f_smin f * s_unit s) eqn:E1, (a >? f_smax f * s_unit s) eqn:E2,
             (a <? f_smin f * s_unit s) eqn:E3; simpl; split; intros H; try discriminate; try reflexivity;
      try (destruct H as [H1 H2]; lia); try (split; [lia|intros; try discriminate; lia]).
  - destruct (f_smax f * s_unit s =? f_smin f * s_unit s) eqn:E1, (a >? f_smax f * s_unit s) eqn:E2,
             (a <? f_smin f * s_unit s) eqn:E3; simpl; split; intros H; try discriminate; try reflexivity;
      try (destruct H as [H1 H2]; try specialize (H2 ltac:(lia) eq_refl); lia);
      try (split; [lia|intros; lia]).
Qed.

Lemma check_type_req_iff T M s f :
  t_req T = prelude_req -> (check_type_req T M s f = true <-> real_type_req T M s f).
Proof.
  intros HT. unfold check_type_req, real_type_req, elem_size.
  set (anon := match t_ref (f_type f) with
               | RStruct i => match nth_struct M i with Some s' => s_anon s' | None => false end
               | _ => false end).
  set (fmin := f_smin f * s_unit s). set (fmax := f_smax f * s_unit s).
  pose proof (fits_field_iff s f) as FF. cbv zeta in FF. fold fmin fmax in FF.
  destruct (t_bits (f_type f)) as [a|] eqn:TB; destruct (type_fixed_attr M (t_ref (f_type f))) as [b|] eqn:TF.
  - destruct (a =? b) eqn:AB; simpl.
    + assert (a = b) by lia. subst b.
      destruct (t_dims (f_type f)) as [|d ds] eqn:TD.
      * specialize (FF a anon).
        destruct ((fmax =? fmin) && ((a >? fmax) || (a <? fmin) && negb anon)) eqn:C1.
        -- split; [discriminate|]. intros (_ & HF & _). specialize (HF eq_refl). apply FF in HF. discriminate.
        -- destruct (a >? fmax) eqn:C2.
           ++ split; [discriminate|]. intros (_ & HF & _). specialize (HF eq_refl). apply FF in HF. discriminate.
           ++ rewrite (phys_req_iff T M _ _ HT). split.
              ** intros H. split; [intros ? ? E1 E2; congruence|]. split; [intros _; apply FF; reflexivity|assumption].
              ** intros (_ & _ & H). assumption.
      * rewrite (phys_req_iff T M _ _ HT). split.
        -- intros H. split; [intros ? ? E1 E2; congruence|]. split; [intros; discriminate|assumption].
        -- intros (_ & _ & H). assumption.
    + split; [discriminate|]. intros (H & _). specialize (H a b eq_refl eq_refl). lia.
  - destruct (t_dims (f_type f)) as [|d ds] eqn:TD.
    + specialize (FF a anon). simpl.
      destruct ((fmax =? fmin) && ((a >? fmax) || (a <? fmin) && negb anon)) eqn:C1.
      * split; [discriminate|]. intros (_ & HF & _). specialize (HF eq_refl). apply FF in HF. discriminate.
      * destruct (a >? fmax) eqn:C2.
        -- split; [discriminate|]. intros (_ & HF & _). specialize (HF eq_refl). apply FF in HF. discriminate.
        -- rewrite (phys_req_iff T M _ _ HT). split.
           ++ intros H. split; [intros ? ? E1 E2; discriminate|]. split; [intros _; apply FF; reflexivity|assumption].
           ++ intros (_ & _ & H). assumption.
    + simpl. rewrite (phys_req_iff T M _ _ HT). split.
      * intros H. split; [intros ? ? E1 E2; discriminate|]. split; [intros; discriminate|assumption].
      * intros (_ & _ & H). assumption.
  - destruct (t_dims (f_type f)) as [|d ds] eqn:TD.
    + specialize (FF b anon). simpl.
      destruct ((fmax =? fmin) && ((b >? fmax) || (b <? fmin) && negb anon)) eqn:C1.
      * split; [discriminate|]. intros (_ & HF & _). specialize (HF eq_refl). apply FF in HF. discriminate.
      * destruct (b >? fmax) eqn:C2.
        -- split; [discriminate|]. intros (_ & HF & _). specialize (HF eq_refl). apply FF in HF. discriminate.
        -- rewrite (phys_req_iff T M _ _ HT). split.
           ++ intros H. split; [intros ? ? E1 E2; discriminate|]. split; [intros _; apply FF; reflexivity|assumption].
           ++ intros (_ & _ & H). assumption.
    + simpl. rewrite (phys_req_iff T M _ _ HT). split.
      * intros H. split; [intros ? ? E1 E2; discriminate|]. split; [intros; discriminate|assumption].
      * intros (_ & _ & H). assumption.
  - destruct (t_dims (f_type f)) as [|d ds] eqn:TD; simpl.
    + fold fmin fmax. destruct (fmin =? fmax) eqn:C.
      * rewrite (phys_req_iff T M _ _ HT). split; [intros H; split; [intros ? ? E1 E2; discriminate|assumption]|intros (_ & H); assumption].
      * rewrite (phys_req_iff T M _ _ HT). split; [intros H; split; [intros ? ? E1 E2; discriminate|assumption]|intros (_ & H); assumption].
    + rewrite (phys_req_iff T M _ _ HT). split; [intros H; split; [intros ? ? E1 E2; discriminate|assumption]|intros (_ & H); assumption].
Qed.
