(* Executable glue for the second extension of the C14 harness. *)
From Coq Require Import ZArith NArith List Bool String Ascii.
Import ListNotations.
Require Import EmbossV.Bounds.Model EmbossV.Layout.Model EmbossV.Layout.Exec EmbossV.Layout.ModelExt EmbossV.Layout.ExecExt.
Require Import EmbossV.Layout.ModelExt2.
Open Scope Z_scope.

(* ---- [expected_back_ends] strings, compared with _valid_back_ends / _gather_expected_back_ends ---- *)
Definition run_be (s : string) : bool * list string := (back_ends_okb s, back_ends_of s).

(* ---- modules ---- *)
Definition run_layout_y (T : tables) (C : cpp_tables) (XYM : ext_info * ext_info2 * module) : xout :=
  let X := fst (fst XYM) in
  let Y := snd (fst XYM) in
  let M := snd XYM in
  XModel (check_front_y T X Y M) (check_cpp C (x_cpp X)) (units_okb M)
         (* attribute_util.check_attributes_in_ir (table + value checkers, _valid_back_ends among them) found nothing *)
         (if check_all_attrs T M && forallb (fun d => back_ends_okb (declared_string (bd_string d))) (y_decls Y)
          then effective M else ([], [], [])).

(* ---- non-vacuity examples ---- *)
Open Scope string_scope.
Definition ex_Y : ext_info2 :=
  mk_ext2 [TgEnumValue true; TgVirtual true] [mk_be_decl (Some " cpp , xyz,") ["xyz"]; mk_be_decl None ["cpp"]].
Definition ex_Y_bad : list ext_info2 :=
  [ mk_ext2 [TgVirtual false] [mk_be_decl None []];
    mk_ext2 [TgEnumValue false] [mk_be_decl None []];
    mk_ext2 [] [mk_be_decl (Some "cpp,,xyz") []];
    mk_ext2 [] [mk_be_decl (Some "Cpp") []];
    mk_ext2 [] [mk_be_decl (Some "cpp xyz") []];
    mk_ext2 [] [mk_be_decl (Some "xyz") ["cpp"]];
    mk_ext2 [] [mk_be_decl (Some "") ["cpp"]];
    mk_ext2 [] [mk_be_decl None ["xyz"]] ].

