(* C14 extension — proofs: the string validators decide their grammars; the extended checker decides
   the extended rule set. *)
From Coq Require Import ZArith NArith List Bool String Ascii Lia ZifyBool.
Import ListNotations.
Require Import EmbossV.Bounds.Model EmbossV.Layout.Model EmbossV.Layout.Proofs EmbossV.Layout.ProofsMain
               EmbossV.Layout.ModelExt.
Open Scope Z_scope.

(* ---------- characters ---------- *)
Ltac all_chars c := destruct c as [[] [] [] [] [] [] [] []]; vm_compute; try reflexivity; try discriminate; auto.

Lemma space_not_colon c : is_space c = true -> is_colon c = false.
Proof. all_chars c. Qed.
Lemma space_not_comma c : is_space c = true -> is_comma c = false.
Proof. all_chars c. Qed.
Lemma space_not_idchar c : is_space c = true -> id_char c = false.
Proof. all_chars c. Qed.
Lemma idstart_idchar c : id_start c = true -> id_char c = true.
Proof. unfold id_char. intros ->. reflexivity. Qed.
Lemma idchar_not_space c : id_char c = true -> is_space c = false.
Proof. intros H. destruct (is_space c) eqn:E; [|reflexivity]. apply space_not_idchar in E. congruence. Qed.
Lemma colon_not_idchar c : is_colon c = true -> id_char c = false.
Proof. all_chars c. Qed.
Lemma colon_eq c : is_colon c = true -> c = ":"%char.
Proof. all_chars c. Qed.
Lemma comma_eq c : is_comma c = true -> c = ","%char.
Proof. all_chars c. Qed.
Lemma colon_not_space : is_space ":"%char = false.
Proof. reflexivity. Qed.

(* ---------- skip_ws / span_id ---------- *)
Lemma skip_ws_app_ws pre l : all_ws pre -> skip_ws (pre ++ l) = skip_ws l.
Proof. induction 1 as [|c r Hc _ IH]; simpl; [reflexivity|]. rewrite Hc. exact IH. Qed.

Lemma skip_ws_stop c r : is_space c = false -> skip_ws (c :: r) = c :: r.
Proof. simpl. intros ->. reflexivity. Qed.

Lemma skip_ws_all l : all_ws l -> skip_ws l = [].
Proof. intros H. rewrite <- (app_nil_r l). rewrite skip_ws_app_ws by assumption. reflexivity. Qed.

Lemma skip_ws_split l : exists pre, all_ws pre /\ l = pre ++ skip_ws l.
Proof.
  induction l as [|c r IH]; simpl.
  - exists []. split; [constructor|reflexivity].
  - destruct (is_space c) eqn:E.
    + destruct IH as (pre & H1 & H2). exists (c :: pre). split; [constructor; assumption|]. simpl. congruence.
    + exists []. split; [constructor|reflexivity].
Qed.

Lemma skip_ws_head l c r : skip_ws l = c :: r -> is_space c = false.
Proof.
  induction l as [|d l IH]; simpl; [discriminate|].
  destruct (is_space d) eqn:E; [exact IH|]. intros [= <- _]. exact E.
Qed.

Lemma span_id_app l : l = fst (span_id l) ++ snd (span_id l).
Proof. induction l as [|c r IH]; simpl; [reflexivity|]. destruct (id_char c); simpl; congruence. Qed.

Lemma span_id_all l : Forall (fun c => id_char c = true) (fst (span_id l)).
Proof. induction l as [|c r IH]; simpl; [constructor|]. destruct (id_char c) eqn:E; simpl; constructor; assumption. Qed.

Definition stops (r : chars) : Prop := r = [] \/ exists c r', r = c :: r' /\ id_char c = false.

Lemma span_id_exact id r :
  Forall (fun c => id_char c = true) id -> stops r -> span_id (id ++ r) = (id, r).
Proof.
  induction 1 as [|c id Hc _ IH]; intros Hr; simpl.
  - destruct Hr as [->|(c & r' & -> & Hc)]; simpl; [reflexivity|]. rewrite Hc. reflexivity.
  - rewrite Hc, (IH Hr). reflexivity.
Qed.

Lemma strip_cc_spec l r : strip_cc l = Some r <-> l = cc ++ r.
Proof.
  unfold strip_cc, cc. split.
  - destruct l as [|c1 [|c2 l]]; try discriminate.
    destruct (is_colon c1) eqn:E1, (is_colon c2) eqn:E2; simpl; try discriminate.
    intros [= <-]. apply colon_eq in E1, E2. subst. reflexivity.
  - intros ->. reflexivity.
Qed.

Lemma ident_inv id : is_ident id ->
  exists c r, id = c :: r /\ id_start c = true /\ Forall (fun c => id_char c = true) id.
Proof.
  intros (c & r & -> & H1 & H2). exists c, r. split; [reflexivity|]. split; [assumption|].
  constructor; [apply idstart_idchar; assumption|assumption].
Qed.

Lemma ws_stops post rest : all_ws post -> stops (post ++ cc ++ rest).
Proof.
  intros H. destruct post as [|c p]; simpl.
  - right. eexists _, _. split; [reflexivity|reflexivity].
  - right. exists c, (p ++ cc ++ rest). split; [reflexivity|]. inversion H; subst. apply space_not_idchar. assumption.
Qed.

Lemma ws_stops_end post : all_ws post -> stops post.
Proof.
  intros H. destruct post as [|c p]; [left; reflexivity|right]. exists c, p. split; [reflexivity|].
  inversion H; subst. apply space_not_idchar. assumption.
Qed.

Lemma comps_S n l :
  comps (S n) l =
  match skip_ws l with
  | [] => None
  | c :: r0 =>
      if id_start c then
        match skip_ws (snd (span_id (c :: r0))) with
        | [] => Some [fst (span_id (c :: r0))]
        | r1 => match strip_cc r1 with
                | Some r2 => option_map (cons (fst (span_id (c :: r0)))) (comps n r2)
                | None => None
                end
        end
      else None
  end.
Proof. reflexivity. Qed.

Lemma comps_sound : forall n l ids, comps n l = Some ids -> ns_body l ids.
Proof.
  induction n as [|n IH]; intros l ids; [discriminate|]. rewrite comps_S.
  destruct (skip_ws_split l) as (pre & Hpre & Hl).
  destruct (skip_ws l) as [|c r0] eqn:E; [discriminate|].
  destruct (id_start c) eqn:IS; [|discriminate].
  pose proof (span_id_app (c :: r0)) as HA. pose proof (span_id_all (c :: r0)) as HF.
  assert (HI : is_ident (fst (span_id (c :: r0)))).
  { simpl. rewrite (idstart_idchar c IS). simpl. exists c, (fst (span_id r0)).
    split; [reflexivity|]. split; [assumption|apply span_id_all]. }
  set (id := fst (span_id (c :: r0))) in *. set (r := snd (span_id (c :: r0))) in *.
  destruct (skip_ws_split r) as (post & Hpost & Hr).
  destruct (skip_ws r) as [|d r1] eqn:E2.
  - intros [= <-]. rewrite Hl, HA, Hr, app_nil_r. constructor; assumption.
  - destruct (strip_cc (d :: r1)) as [r2|] eqn:SC; [|discriminate].
    destruct (comps n r2) as [ids'|] eqn:CR; simpl; [|discriminate]. intros [= <-].
    apply strip_cc_spec in SC. rewrite Hl, HA, Hr, SC.
    apply NB_more; try assumption. apply IH. assumption.
Qed.

Lemma comps_complete l ids : ns_body l ids -> forall n, (List.length l < n)%nat -> comps n l = Some ids.
Proof.
  induction 1 as [pre id post Hpre Hid Hpost | pre id post rest ids Hpre Hid Hpost Hb IH]; intros n Hn;
    (destruct n as [|n]; [lia|]); rewrite comps_S;
    destruct (ident_inv id Hid) as (c & r & Eid & IS & HF).
  - rewrite (skip_ws_app_ws pre _ Hpre). rewrite Eid. simpl app.
    rewrite skip_ws_stop by (apply idchar_not_space, idstart_idchar; assumption).
    rewrite IS. change (c :: r ++ post) with ((c :: r) ++ post). rewrite <- Eid.
    rewrite (span_id_exact id post HF (ws_stops_end post Hpost)). simpl fst. simpl snd.
    rewrite (skip_ws_all post Hpost). reflexivity.
  - rewrite (skip_ws_app_ws pre _ Hpre).
    assert (ST : stops (post ++ cc ++ rest)) by (apply ws_stops; assumption).
    assert (SK : skip_ws (post ++ cc ++ rest) = cc ++ rest).
    { rewrite (skip_ws_app_ws post _ Hpost). reflexivity. }
    remember (post ++ cc ++ rest) as tail eqn:Etail.
    pose proof (span_id_exact id tail HF ST) as SP.
    rewrite Eid in *. simpl app in *.
    rewrite skip_ws_stop by (apply idchar_not_space, idstart_idchar; assumption).
    rewrite IS, SP. simpl fst. simpl snd. rewrite SK. cbn [cc app].
    replace (strip_cc (":"%char :: ":"%char :: rest)) with (Some rest) by reflexivity.
    rewrite IH; [reflexivity|]. subst tail. simpl in Hn. rewrite !app_length in Hn. simpl in Hn. rewrite ?app_length in Hn. simpl in Hn. lia.
Qed.

Lemma ns_body_prepend w body ids : all_ws w -> ns_body body ids -> ns_body (w ++ body) ids.
Proof.
  intros Hw Hb. inversion Hb; subst.
  - rewrite app_assoc. constructor; try assumption. apply Forall_app. split; assumption.
  - rewrite app_assoc. constructor; try assumption. apply Forall_app. split; assumption.
Qed.

Lemma ns_body_head body ids : ns_body body ids ->
  exists c r, skip_ws body = c :: r /\ id_start c = true.
Proof.
  intros Hb. inversion Hb; subst; destruct (ident_inv id H0) as (c & r & -> & IS & _);
    rewrite (skip_ws_app_ws pre _ H); simpl app;
    (rewrite skip_ws_stop by (apply idchar_not_space, idstart_idchar; assumption));
    eexists _, _; split; try reflexivity; assumption.
Qed.

Lemma parse_ns_iff l ids : parse_ns l = Some ids <-> ns_shape l ids.
Proof.
  unfold parse_ns. split.
  - destruct (skip_ws_split l) as (w & Hw & Hl).
    destruct (strip_cc (skip_ws l)) as [r|] eqn:SC.
    + intros H. apply comps_sound in H. apply strip_cc_spec in SC.
      exists w, cc, r. split; [assumption|]. split; [right; reflexivity|]. split; [assumption|]. congruence.
    + intros H. apply comps_sound in H. exists [], [], l. split; [constructor|]. split; [left; reflexivity|].
      split; [assumption|reflexivity].
  - intros (w & lead & body & Hw & Hlead & Hb & ->).
    destruct Hlead as [->| ->].
    + simpl app. destruct (ns_body_head _ _ Hb) as (c & r & E & IS).
      rewrite (skip_ws_app_ws w _ Hw), E.
      assert (SC : strip_cc (c :: r) = None).
      { destruct r as [|c2 r]; simpl; [reflexivity|]. destruct (is_colon c) eqn:EC; [|reflexivity].
        apply colon_not_idchar in EC. apply idstart_idchar in IS. congruence. }
      rewrite SC. apply comps_complete; [apply ns_body_prepend; assumption|lia].
    + rewrite (skip_ws_app_ws w _ Hw). unfold cc at 1. simpl app.
      rewrite skip_ws_stop by reflexivity.
      replace (strip_cc (":"%char :: ":"%char :: body)) with (Some body) by reflexivity.
      apply comps_complete; [assumption|lia].
Qed.

Lemma str_in_iff l s : str_in l s = true <-> In s l.
Proof.
  unfold str_in. rewrite existsb_exists. split.
  - intros (x & Hx & E). apply String.eqb_eq in E. subst. assumption.
  - intros H. exists s. split; [assumption|apply String.eqb_refl].
Qed.

Lemma not_str_in_iff l s : negb (str_in l s) = true <-> ~ In s l.
Proof. rewrite negb_true_iff, <- str_in_iff. destruct (str_in l s); split; congruence. Qed.

Lemma namespace_okb_iff res s : namespace_okb res s = true <-> namespace_ok res s.
Proof.
  unfold namespace_okb, namespace_ok. split.
  - destruct (parse_ns (list_ascii_of_string s)) as [ids|] eqn:E; [|discriminate].
    intros H. exists ids. split; [apply parse_ns_iff; assumption|].
    rewrite forallb_forall in H. apply Forall_forall. intros id Hid. apply not_str_in_iff. apply H. assumption.
  - intros (ids & Hs & Hr). apply parse_ns_iff in Hs. rewrite Hs.
    apply forallb_forall. intros id Hid. apply not_str_in_iff. rewrite Forall_forall in Hr. apply Hr. assumption.
Qed.

(* the grammar determines the components *)
Lemma ns_shape_functional l ids ids' : ns_shape l ids -> ns_shape l ids' -> ids = ids'.
Proof. intros H1 H2. apply parse_ns_iff in H1, H2. congruence. Qed.

(* ---------- enum_case ---------- *)
Lemma split_no_comma p : no_comma p -> split_comma p = [p].
Proof.
  induction p as [|a p IH]; simpl; intros H; [reflexivity|]. inversion H; subst.
  rewrite H2, IH by assumption. reflexivity.
Qed.

Lemma split_app_comma p rest : no_comma p -> split_comma (p ++ ","%char :: rest) = p :: split_comma rest.
Proof.
  induction p as [|a p IH]; simpl; intros H; [reflexivity|]. inversion H; subst.
  rewrite H2, IH by assumption. reflexivity.
Qed.

Lemma split_nonempty l : split_comma l <> [].
Proof.
  induction l as [|a l IH]; simpl; [discriminate|]. destruct (is_comma a); [discriminate|].
  destruct (split_comma l); [congruence|discriminate].
Qed.

Lemma join_cons2 p q r : join_comma (p :: q :: r) = p ++ ","%char :: join_comma (q :: r).
Proof. reflexivity. Qed.

Lemma join_split l : join_comma (split_comma l) = l.
Proof.
  induction l as [|a l IH]; simpl; [reflexivity|]. pose proof (split_nonempty l) as NE.
  destruct (is_comma a) eqn:E.
  - apply comma_eq in E. subst. destruct (split_comma l) as [|q r]; [congruence|].
    rewrite join_cons2, IH. reflexivity.
  - destruct (split_comma l) as [|p [|q r]]; [congruence| |].
    + simpl in *. congruence.
    + rewrite join_cons2 in *. rewrite <- IH. reflexivity.
Qed.

Lemma split_no_commas l : Forall no_comma (split_comma l).
Proof.
  induction l as [|a l IH]; simpl; [repeat constructor|].
  destruct (is_comma a) eqn:E; [constructor; [constructor|assumption]|].
  destruct (split_comma l) as [|p ps]; [repeat constructor; assumption|].
  inversion IH; subst. constructor; [constructor; assumption|assumption].
Qed.

Lemma dtw_cons c l :
  drop_trailing_ws (c :: l) =
  if is_space c && is_nil (drop_trailing_ws l) then [] else c :: drop_trailing_ws l.
Proof. reflexivity. Qed.

Lemma dtw_all_ws b : all_ws b -> drop_trailing_ws b = [].
Proof. induction 1 as [|c r Hc _ IH]; [reflexivity|]. rewrite dtw_cons, IH, Hc. reflexivity. Qed.

Definition last_ok (t : chars) : Prop := forall r c, t = r ++ [c] -> is_space c = false.

Lemma dtw_exact t b : last_ok t -> all_ws b -> drop_trailing_ws (t ++ b) = t.
Proof.
  induction t as [|c t IH]; intros HL Hb; [apply dtw_all_ws; assumption|].
  simpl app. rewrite dtw_cons, IH; try assumption.
  - destruct t as [|d t]; simpl.
    + rewrite (HL [] c eq_refl). reflexivity.
    + rewrite andb_false_r. reflexivity.
  - intros r d ->. apply (HL (c :: r) d). reflexivity.
Qed.

Lemma trim_exact a t b : all_ws a -> all_ws b -> trimmed t -> trim (a ++ t ++ b) = t.
Proof.
  intros Ha Hb [T1 T2]. unfold trim. rewrite (skip_ws_app_ws a _ Ha). destruct t as [|c t].
  - simpl. rewrite (skip_ws_all b Hb). reflexivity.
  - simpl app. rewrite skip_ws_stop by (apply (T1 c t); reflexivity).
    change (c :: t ++ b) with ((c :: t) ++ b). apply dtw_exact; assumption.
Qed.

Lemma dtw_split l : exists b, all_ws b /\ l = drop_trailing_ws l ++ b.
Proof.
  induction l as [|a l (b & Hb & E)]; [exists []; split; [constructor|reflexivity]|].
  rewrite dtw_cons. destruct (is_space a && is_nil (drop_trailing_ws l)) eqn:C.
  - apply andb_true_iff in C. destruct C as [C1 C2]. destruct (drop_trailing_ws l); [|discriminate].
    exists (a :: b). split; [constructor; assumption|]. simpl in *. congruence.
  - exists b. split; [assumption|]. simpl. congruence.
Qed.

Lemma dtw_last_ok l : last_ok (drop_trailing_ws l).
Proof.
  induction l as [|a l IH]; [intros [|x r] c H; discriminate|].
  rewrite dtw_cons. destruct (is_space a && is_nil (drop_trailing_ws l)) eqn:C.
  - intros [|x r] c H; discriminate.
  - intros [|x r] c H; simpl in H.
    + injection H as -> E. rewrite E in C. simpl in C. rewrite andb_true_r in C. assumption.
    + injection H as _ E. apply (IH r c). assumption.
Qed.

Lemma dtw_head l c r : drop_trailing_ws l = c :: r -> exists r', l = c :: r'.
Proof.
  destruct l as [|a l]; [discriminate|]. rewrite dtw_cons.
  destruct (is_space a && is_nil (drop_trailing_ws l)); [discriminate|]. intros [= -> _]. eauto.
Qed.

Lemma trim_padded p : padded (trim p) p.
Proof.
  unfold trim. destruct (skip_ws_split p) as (a & Ha & E1).
  destruct (dtw_split (skip_ws p)) as (b & Hb & E2). exists a, b. split; [assumption|]. split; [assumption|].
  rewrite <- E2. assumption.
Qed.

Lemma trim_trimmed p : trimmed (trim p).
Proof.
  split.
  - intros c r H. unfold trim in H. destruct (dtw_head _ _ _ H) as (r' & E). apply (skip_ws_head _ _ _ E).
  - apply dtw_last_ok.
Qed.

Lemma ws_no_comma w : all_ws w -> no_comma w.
Proof. intros H. eapply Forall_impl; [|exact H]. intros c Hc. apply space_not_comma. assumption. Qed.

Lemma padded_no_comma t p : padded t p -> (no_comma p <-> no_comma t).
Proof.
  intros (a & b & Ha & Hb & ->). unfold no_comma. rewrite !Forall_app. split; [tauto|].
  intros H. split; [apply ws_no_comma; assumption|]. split; [assumption|apply ws_no_comma; assumption].
Qed.

Lemma trim_nil_ws p : trim p = [] -> all_ws p.
Proof.
  intros H. destruct (trim_padded p) as (a & b & Ha & Hb & E). rewrite H in E. rewrite E.
  apply Forall_app. split; assumption.
Qed.

Lemma map_trim_padded cs pieces :
  Forall (fun t => t <> [] /\ no_comma t /\ trimmed t) cs -> Forall2 padded cs pieces -> map trim pieces = cs.
Proof.
  intros HF H. induction H as [|t p cs ps (a & b & Ha & Hb & ->) _ IH]; [reflexivity|].
  inversion HF; subst. simpl. rewrite trim_exact by tauto. f_equal. apply IH. assumption.
Qed.

Lemma join_snoc ps w : ps <> [] -> join_comma (ps ++ [w]) = join_comma ps ++ ","%char :: w.
Proof.
  induction ps as [|p ps IH]; intros NE; [congruence|]. destruct ps as [|q r]; [reflexivity|].
  change ((p :: q :: r) ++ [w]) with (p :: (q :: r) ++ [w]). simpl app at 1.
  rewrite join_cons2. simpl app in IH. rewrite IH by discriminate. rewrite join_cons2.
  rewrite <- app_assoc. reflexivity.
Qed.

Lemma split_join ps : ps <> [] -> Forall no_comma ps -> split_comma (join_comma ps) = ps.
Proof.
  induction ps as [|p ps IH]; intros NE HF; [congruence|]. inversion HF; subst.
  destruct ps as [|q r]; [apply split_no_comma; assumption|].
  rewrite join_cons2, split_app_comma by assumption. rewrite IH; [reflexivity|discriminate|assumption].
Qed.

Lemma last_snoc {A} (l : list A) x d : last (l ++ [x]) d = x.
Proof. induction l as [|a l IH]; [reflexivity|]. simpl. destruct (l ++ [x]) eqn:E; [destruct l; discriminate|]. assumption. Qed.

Lemma case_pieces_complete l cs : case_shape l cs -> case_pieces l = cs.
Proof.
  intros (NE & HF & pieces & HP & HL). unfold case_pieces.
  assert (HN : Forall no_comma pieces).
  { clear HL NE. induction HP; [constructor|]. inversion HF; subst. constructor; [|auto].
    apply (padded_no_comma _ _ H). tauto. }
  assert (PNE : pieces <> []) by (inversion HP; subst; congruence).
  destruct HL as [->|(w & Hw & ->)].
  - rewrite split_join by assumption. rewrite (map_trim_padded _ _ HF HP).
    destruct cs as [|c1 [|c2 r]]; try reflexivity.
    destruct (last (c1 :: c2 :: r) []) eqn:EL; [|reflexivity]. exfalso.
    assert (In (@nil ascii) (c1 :: c2 :: r)).
    { rewrite <- EL. destruct (exists_last (l := c1 :: c2 :: r)) as (l' & x & E); [discriminate|].
      rewrite E, last_snoc. apply in_or_app. right. left. reflexivity. }
    rewrite Forall_forall in HF. destruct (HF _ H) as [H1 _]. congruence.
  - rewrite <- join_snoc by assumption.
    rewrite split_join; [| destruct pieces; discriminate | apply Forall_app; split; [assumption|constructor; [apply ws_no_comma; assumption|constructor]]].
    rewrite map_app, (map_trim_padded _ _ HF HP). simpl map.
    replace (trim w) with (@nil ascii).
    2:{ symmetry. unfold trim. rewrite (skip_ws_all w Hw). reflexivity. }
    destruct cs as [|c1 r]; [congruence|]. destruct r as [|c2 r]; simpl app.
    + reflexivity.
    + change (c1 :: c2 :: r ++ [[]]) with ((c1 :: c2 :: r) ++ [[]]).
      rewrite last_snoc. simpl is_nil. cbv iota. rewrite removelast_last. reflexivity.
Qed.

Lemma case_pieces_sound l :
  Forall (fun t => t <> []) (case_pieces l) -> case_shape l (case_pieces l).
Proof.
  unfold case_pieces.
  generalize (join_split l) (split_no_commas l) (split_nonempty l). generalize (split_comma l) as ps0.
  intros ps0 J NC NE0.
  assert (OK : forall qs, Forall no_comma qs -> Forall (fun t => t <> []) (map trim qs) ->
               Forall (fun t => t <> [] /\ no_comma t /\ trimmed t) (map trim qs) /\ Forall2 padded (map trim qs) qs).
  { induction qs as [|q qs IH]; intros H1 H2; [split; constructor|]. inversion H1; subst. inversion H2; subst.
    destruct (IH H4 H6) as [A B]. split; constructor; try assumption.
    - split; [assumption|]. split; [apply (padded_no_comma _ _ (trim_padded q)); assumption|apply trim_trimmed].
    - apply trim_padded. }
  destruct (map trim ps0) as [|t1 [|t2 tr]] eqn:EM.
  - destruct ps0; [congruence|discriminate].
  - intros H. rewrite <- EM in H. destruct (OK ps0 NC H) as [A B]. rewrite EM in *.
    split; [discriminate|]. split; [assumption|]. exists ps0. split; [assumption|left; congruence].
  - destruct (is_nil (last (t1 :: t2 :: tr) [])) eqn:EL.
    + intros H. destruct (exists_last NE0) as (qs & w & ->).
      rewrite map_app in EM. simpl map in EM. rewrite <- EM in *. rewrite last_snoc in EL.
      rewrite removelast_last in *. destruct (OK qs) as [A B]; [apply Forall_app in NC; tauto|assumption|].
      assert (QNE : qs <> []).
      { destruct qs; [discriminate|discriminate]. }
      split; [destruct qs; [congruence|discriminate]|]. split; [assumption|]. exists qs. split; [assumption|].
      right. exists w. split.
      * apply trim_nil_ws. destruct (trim w); [reflexivity|discriminate].
      * rewrite <- J. apply join_snoc. assumption.
    + intros H. rewrite <- EM in H. destruct (OK ps0 NC H) as [A B]. rewrite EM in *.
      split; [discriminate|]. split; [assumption|]. exists ps0. split; [assumption|left; congruence].
Qed.

Lemma chars_eqb_eq a b : chars_eqb a b = true <-> a = b.
Proof.
  unfold chars_eqb. rewrite String.eqb_eq. split; [|congruence].
  intros H. rewrite <- (list_ascii_of_string_of_list_ascii a), <- (list_ascii_of_string_of_list_ascii b). congruence.
Qed.

Lemma nodupb_iff l : nodupb l = true <-> NoDup l.
Proof.
  induction l as [|x r IH]; simpl; [split; [constructor|reflexivity]|].
  rewrite andb_true_iff, negb_true_iff, IH. split.
  - intros [H1 H2]. constructor; [|assumption]. intros Hin.
    assert (existsb (chars_eqb x) r = true) by (apply existsb_exists; exists x; split; [assumption|apply chars_eqb_eq; reflexivity]).
    congruence.
  - intros H. inversion H; subst. split; [|assumption].
    destruct (existsb (chars_eqb x) r) eqn:E; [|reflexivity]. apply existsb_exists in E.
    destruct E as (y & Hy & Eq). apply chars_eqb_eq in Eq. subst. contradiction.
Qed.

Lemma enum_case_okb_iff sup s : enum_case_okb sup s = true <-> enum_case_ok sup s.
Proof.
  unfold enum_case_okb, enum_case_ok. set (l := list_ascii_of_string s).
  rewrite !andb_true_iff, nodupb_iff, !forallb_forall. split.
  - intros [[H1 H2] H3]. exists (case_pieces l). split; [|split; [assumption|]].
    + apply case_pieces_sound. apply Forall_forall. intros t Ht. specialize (H1 t Ht). destruct t; [discriminate|discriminate].
    + apply Forall_forall. intros c Hc. apply str_in_iff. apply H3. assumption.
  - intros (cs & HS & ND & HF). pose proof (case_pieces_complete l cs HS) as E. rewrite E.
    destruct HS as (_ & HT & _). rewrite Forall_forall in HT, HF. split; [split; [|assumption]|].
    + intros t Ht. destruct (HT t Ht) as [NE _]. destruct t; [congruence|reflexivity].
    + intros c Hc. apply str_in_iff. apply HF. assumption.
Qed.

(* ---------- (cpp) attributes ---------- *)
Lemma cpp_value_okb_iff C a : cpp_value_okb C a = true <-> cpp_value_ok C a.
Proof.
  unfold cpp_value_okb, cpp_value_ok. destruct (a_val a) as [b|b| |s]; try (split; [intros _ s0 H; discriminate|reflexivity]).
  destruct (String.eqb (a_name a) "namespace") eqn:E1.
  - apply String.eqb_eq in E1. rewrite namespace_okb_iff. split.
    + intros H s0 [= <-]. split; [intros _; assumption|]. intros E2. rewrite E1 in E2. discriminate.
    + intros H. apply (H s eq_refl). assumption.
  - destruct (String.eqb (a_name a) "enum_case") eqn:E2.
    + apply String.eqb_eq in E2. rewrite enum_case_okb_iff. split.
      * intros H s0 [= <-]. split; [|intros _; assumption]. intros E3. rewrite E3 in E1. discriminate.
      * intros H. apply (H s eq_refl). assumption.
    + split; [|reflexivity]. intros _ s0 [= <-]. apply String.eqb_neq in E1, E2. split; intros; contradiction.
Qed.

Lemma check_cpp_iff C nodes : check_cpp C nodes = true <-> real_cpp C nodes.
Proof.
  unfold check_cpp, real_cpp.
  apply (forallb_iff _ (fun n => attrs_ok (ct_attr C) (fst n) (snd n) /\ Forall (cpp_value_ok C) (snd n))).
  intros n _. rewrite andb_true_iff, check_attrs_iff, Forall_forall.
  rewrite (forallb_iff _ (cpp_value_ok C)); [tauto|]. intros a _. apply cpp_value_okb_iff.
Qed.

(* ---------- [requires] sites, early parameter rules, imports ---------- *)
Lemma check_req_site_iff r : check_req_site r = true <-> real_req_site r.
Proof.
  unfold check_req_site, real_req_site. destruct (rs_array r), (rs_kind r); simpl; split; try discriminate; try tauto;
    intros [H1 H2]; try discriminate; destruct H2 as [H2|[H2|H2]]; discriminate.
Qed.

Lemma check_param_early_iff p : check_param_early p = true <-> real_param_early p.
Proof.
  unfold check_param_early, real_param_early. destruct p as [r o]. simpl. destruct r as [q|i|i|i], o as [z|]; split; try discriminate; try reflexivity.
  - intros _. split; [intros i H; discriminate|intros q0 _; discriminate].
  - intros [_ H]. exfalso. apply (H q eq_refl). reflexivity.
  - intros [H _]. specialize (H i eq_refl). discriminate.
  - intros _. split; [reflexivity|intros q H; discriminate].
  - intros _. split; [intros j H; discriminate|intros q H; discriminate].
  - intros _. split; [intros j H; discriminate|intros q H; discriminate].
  - intros _. split; [intros j H; discriminate|intros q H; discriminate].
  - intros _. split; [intros j H; discriminate|intros q H; discriminate].
Qed.

Lemma check_import_iff T i : check_import T i = true <-> real_import T i.
Proof.
  unfold check_import, real_import. rewrite andb_true_iff, check_attrs_iff, forallb_forall.
  split; intros [A B]; (split; [assumption|]); intros b Hb; specialize (B b Hb).
  - apply existsb_exists in B. destruct B as (x & Hx & E). apply String.eqb_eq in E. subst. assumption.
  - apply existsb_exists. exists b. split; [assumption|apply String.eqb_refl].
Qed.

(* ---------- the 64-bit gate ---------- *)
Lemma own_ok_iff ib : own_ok ib = true <-> fits64 ib.
Proof.
  unfold own_ok, fits64, fits_u, fits_i. destruct ib as [[a b]|].
  2:{ split; [intros _ a b H; discriminate|reflexivity]. }
  destruct a as [|lo|], b as [|hi|]; (split; [try discriminate|]);
    try (intros H; destruct (H _ _ eq_refl) as (lo' & hi' & E1 & E2 & _); discriminate).
  - intros H a b [= <- <-]. exists lo, hi. split; [reflexivity|]. split; [reflexivity|]. lia.
  - intros H. destruct (H _ _ eq_refl) as (lo' & hi' & [= <-] & [= <-] & K). lia.
Qed.

Lemma needs_unsigned_iff ib : needs_unsigned ib = true <-> only_unsigned ib.
Proof.
  unfold needs_unsigned, only_unsigned, fits_i. destruct ib as [[a b]|].
  2:{ split; [discriminate|intros (lo & hi & H & _); discriminate]. }
  destruct a as [|lo|], b as [|hi|]; (split; [try discriminate|]); try (intros (lo' & hi' & H & _); discriminate).
  - intros H. exists lo, hi. split; [reflexivity|]. lia.
  - intros (lo' & hi' & [= <- <-] & K). lia.
Qed.

Lemma needs_signed_iff ib : needs_signed ib = true <-> only_signed ib.
Proof.
  unfold needs_signed, only_signed, fits_i, fits_u. destruct ib as [[a b]|].
  2:{ split; [discriminate|intros (lo & hi & H & _); discriminate]. }
  destruct a as [|lo|], b as [|hi|]; (split; [try discriminate|]); try (intros (lo' & hi' & H & _); discriminate).
  - intros H. exists lo, hi. split; [reflexivity|]. lia.
  - intros (lo' & hi' & [= <- <-] & K). lia.
Qed.

Lemma existsb_iff {A} (f : A -> bool) (P : A -> Prop) l :
  (forall x, f x = true <-> P x) -> (existsb f l = true <-> exists x, In x l /\ P x).
Proof.
  intros H. rewrite existsb_exists. split; intros (x & Hx & K); exists x; (split; [assumption|]); apply H; assumption.
Qed.

Lemma gate64_BT fn ib args :
  gate64 (BT fn ib args) =
  if fn then
    forallb gate64 args && own_ok ib
    && negb (existsb needs_unsigned (ib :: map bt_ib args) && existsb needs_signed (ib :: map bt_ib args))
  else own_ok ib.
Proof. reflexivity. Qed.

Lemma gate64_iff : forall t, gate64 t = true <-> gate_ok t.
Proof.
  fix IH 1. intros [fn ib args]. rewrite gate64_BT. destruct fn.
  - rewrite !andb_true_iff, negb_true_iff, own_ok_iff.
    assert (HA : forallb gate64 args = true <-> Forall gate_ok args).
    { induction args as [|a r IHr]; simpl; [split; [constructor|reflexivity]|].
      rewrite andb_true_iff, IHr, (IH a). split; [intros [A B]; constructor; assumption|].
      intros H. inversion H; subst. split; assumption. }
    rewrite HA. clear HA IH.
    assert (HM : (existsb needs_unsigned (ib :: map bt_ib args) && existsb needs_signed (ib :: map bt_ib args)) = false <->
                 ~ ((exists c, In c (ib :: map bt_ib args) /\ only_unsigned c)
                    /\ (exists c, In c (ib :: map bt_ib args) /\ only_signed c))).
    { rewrite <- (existsb_iff needs_unsigned only_unsigned _ needs_unsigned_iff).
      rewrite <- (existsb_iff needs_signed only_signed _ needs_signed_iff).
      destruct (existsb needs_unsigned (ib :: map bt_ib args)), (existsb needs_signed (ib :: map bt_ib args)); simpl;
        split; try discriminate; try reflexivity; try tauto; intros H; try (exfalso; apply H; split; reflexivity);
        intros [A B]; discriminate. }
    rewrite HM. split.
    + intros [[A B] C]. constructor; assumption.
    + intros H. inversion H; subst. tauto.
  - rewrite own_ok_iff. split; [intros H; constructor; assumption|]. intros H. inversion H; subst. assumption.
Qed.

(* ---------- the extended checker decides the extended rule set ---------- *)
Lemma check_front_x_iff T X M :
  t_req T = prelude_req -> units_ok M -> (check_front_x T X M = true <-> realisable_front_x T X M).
Proof.
  intros HT UM. unfold check_front_x, check_front_x_old, realisable_front_x.
  rewrite !andb_true_iff, (check_layout_iff_realisable_lem T M HT UM).
  rewrite (forallb_iff (fun n => negb (reserved T n)) (fun n => ~ In n (t_reserved T))) by (intros n _; apply not_reserved_iff).
  rewrite (forallb_iff check_req_site real_req_site) by (intros r _; apply check_req_site_iff).
  rewrite (forallb_iff _ (fun s => forall p, In p (s_params s) -> real_param_early p)).
  2:{ intros s _. apply forallb_iff. intros p _. apply check_param_early_iff. }
  rewrite (forallb_iff gate64 gate_ok) by (intros t _; apply gate64_iff).
  rewrite (forallb_iff (check_import T) (real_import T)) by (intros i _; apply check_import_iff).
  tauto.
Qed.

Lemma check_layout_x_iff T C X M :
  t_req T = prelude_req -> units_ok M -> (check_layout_x T C X M = true <-> realisable_x T C X M).
Proof.
  intros HT UM. unfold check_layout_x, realisable_x.
  rewrite andb_true_iff, (check_front_x_iff T X M HT UM), check_cpp_iff. tauto.
Qed.

(* ---------- examples ---------- *)
Require Import EmbossV.Layout.Exec EmbossV.Layout.ExecExt.

Lemma example_realisable_x_lem :
  units_ok ex_M /\ check_layout_x ex_T ex_C ex_X ex_M = true /\ realisable_x ex_T ex_C ex_X ex_M.
Proof.
  assert (U : units_ok ex_M) by (apply units_okb_ok; vm_compute; reflexivity).
  assert (K : check_layout_x ex_T ex_C ex_X ex_M = true) by (vm_compute; reflexivity).
  split; [exact U|]. split; [exact K|]. apply (check_layout_x_iff ex_T ex_C ex_X ex_M eq_refl U). exact K.
Qed.

Lemma example_not_realisable_x_lem :
  Forall (fun X => check_layout_x ex_T ex_C X ex_M = false /\ ~ realisable_x ex_T ex_C X ex_M)
         [ex_X_bad_ns; ex_X_bad_case; ex_X_bad_scope; ex_X_bad_req; ex_X_bad_gate; ex_X_bad_param].
Proof.
  assert (U : units_ok ex_M) by (apply units_okb_ok; vm_compute; reflexivity).
  repeat constructor; try (vm_compute; reflexivity);
    intros R; apply (check_layout_x_iff ex_T ex_C _ ex_M eq_refl U) in R; vm_compute in R; discriminate.
Qed.

(* since /repo commit 8d5ef9f the reserved-word list is applied to the names of runtime parameters *)
Lemma parameter_names_checked_lem T C X M :
  check_layout_x T C X M = true -> forall n, In n (x_param_names X) -> ~ In n (t_reserved T).
Proof.
  unfold check_layout_x, check_front_x. rewrite !andb_true_iff. intros [[_ H] _] n Hn.
  rewrite forallb_forall in H. apply not_reserved_iff. apply H. assumption.
Qed.

(* the checker as it was before that commit accepted a parameter called "class" *)
Lemma old_parameter_names_unchecked_lem :
  check_front_x_old ex_T ex_X_bad_param ex_M = true /\ check_front_x ex_T ex_X_bad_param ex_M = false
  /\ exists n, In n (x_param_names ex_X_bad_param) /\ In n (t_reserved ex_T).
Proof.
  split; [vm_compute; reflexivity|]. split; [vm_compute; reflexivity|].
  exists "class"%string. split; [right; left; reflexivity|left; reflexivity].
Qed.

Lemma namespace_examples_lem :
  namespace_ok ["class"%string] " ::foo :: bar::baz "%string /\ ~ namespace_ok ["class"%string] "foo::class"%string
  /\ ~ namespace_ok [] "::"%string /\ ~ namespace_ok [] ""%string /\ ~ namespace_ok [] "foo::"%string
  /\ ~ namespace_ok [] "foo:::bar"%string /\ ~ namespace_ok [] "9foo"%string.
Proof.
  repeat split; try (apply namespace_okb_iff; vm_compute; reflexivity);
    intros H; apply namespace_okb_iff in H; vm_compute in H; discriminate.
Qed.

Lemma enum_case_examples_lem :
  let sup := ["SHOUTY_CASE"; "kCamelCase"]%string in
  enum_case_ok sup "SHOUTY_CASE, kCamelCase"%string /\ enum_case_ok sup "kCamelCase ,"%string
  /\ ~ enum_case_ok sup ""%string /\ ~ enum_case_ok sup "kCamelCase,,SHOUTY_CASE"%string
  /\ ~ enum_case_ok sup "kCamelCase, kCamelCase"%string /\ ~ enum_case_ok sup "snake_case"%string.
Proof.
  cbv zeta. repeat split; try (apply enum_case_okb_iff; vm_compute; reflexivity);
    intros H; apply enum_case_okb_iff in H; vm_compute in H; discriminate.
Qed.
