(* Executable glue for the C14 harness. *)
From Coq Require Import ZArith NArith List Bool String.
Import ListNotations.
Require Import EmbossV.Bounds.Model EmbossV.Layout.Model.
Open Scope Z_scope.

Definition cmpop_eqb (a b : cmpop) : bool :=
  match a, b with
  | CEq, CEq | CNe, CNe | CLt, CLt | CLe, CLe | CGt, CGt | CGe, CGe => true
  | _, _ => false
  end.
Definition boolop_eqb (a b : boolop) : bool :=
  match a, b with BAnd, BAnd | BOr, BOr | BEq, BEq | BNe, BNe => true | _, _ => false end.

Fixpoint expr_eqb (a b : expr) {struct a} : bool :=
  match a, b with
  | EConst x, EConst y | EEnum x, EEnum y => x =? y
  | EBool x, EBool y => Bool.eqb x y
  | EVar i, EVar j | EBVar i, EBVar j | EEVar i, EEVar j => Nat.eqb i j
  | ERef x, ERef y | ECRef x, ECRef y | EUpper x, EUpper y | ELower x, ELower y => expr_eqb x y
  | EAdd x1 x2, EAdd y1 y2 | ESub x1 x2, ESub y1 y2 | EMul x1 x2, EMul y1 y2 =>
      expr_eqb x1 y1 && expr_eqb x2 y2
  | ECmp o x1 x2, ECmp o' y1 y2 => cmpop_eqb o o' && expr_eqb x1 y1 && expr_eqb x2 y2
  | EECmp n x1 x2, EECmp n' y1 y2 => Bool.eqb n n' && expr_eqb x1 y1 && expr_eqb x2 y2
  | EBop o x1 x2, EBop o' y1 y2 => boolop_eqb o o' && expr_eqb x1 y1 && expr_eqb x2 y2
  | EChoice x1 x2 x3, EChoice y1 y2 y3 => expr_eqb x1 y1 && expr_eqb x2 y2 && expr_eqb x3 y3
  | EMax xs, EMax ys =>
      (fix go (l1 l2 : list expr) : bool :=
         match l1, l2 with
         | [], [] => true
         | x :: r1, y :: r2 => expr_eqb x y && go r1 r2
         | _, _ => false
         end) xs ys
  | _, _ => false
  end.

Definition all_prelude : list prelude := [PUInt; PInt; PBcd; PFlag; PFloat].

Definition optz_eqb (a b : option Z) : bool :=
  match a, b with None, None => true | Some x, Some y => x =? y | _, _ => false end.

(* regenerated prelude facts = the static table the theorems are about *)
Definition prelude_table_ok (req : prelude -> expr) (fixed : prelude -> option Z) : bool :=
  forallb (fun p => expr_eqb (req p) (prelude_req p) && optz_eqb (fixed p) (prelude_fixed p)) all_prelude.

Definition units_okb (M : module) : bool := forallb (fun s => (s_unit s =? 1) || (s_unit s =? 8)) (m_structs M).

Definition run_layout (T : tables) (M : module) : bool := check_layout T M.

(* ---- non-vacuity example ---- *)
Open Scope string_scope.
Definition ex_tabs : attr_tables := mk_tabs
  [ ("byte_order", QOneOf ["BigEndian"; "LittleEndian"; "Null"]); ("maximum_bits", QIntConst);
    ("is_signed", QBoolConst); ("requires", QBool); ("text_output", QOneOf ["Emit"; "Skip"]);
    ("fixed_size_in_bits", QIntConst); ("addressable_unit_size", QIntConst); ("is_integer", QBoolConst);
    ("static_requirements", QBool) ]%string
  [ (ScModule, [("byte_order", true)]); (ScStruct, [("byte_order", true); ("requires", false); ("fixed_size_in_bits", false)]);
    (ScBits, [("requires", false); ("fixed_size_in_bits", false)]);
    (ScEnum, [("maximum_bits", false); ("is_signed", false)]);
    (ScPhysField, [("byte_order", false); ("requires", false); ("text_output", false)]);
    (ScVirtField, [("requires", false); ("text_output", false)]);
    (ScExternal, [("addressable_unit_size", false); ("fixed_size_in_bits", false); ("is_integer", false);
                  ("static_requirements", false)]) ]%string.

Definition ex_T : tables := mk_tables ex_tabs ["class"; "int"; "NULL"]%string prelude_req.

Definition fld (n : string) (a b : Z) (t : ftype) (bo : option border) (at_ : list attr) : field :=
  mk_field n false (Some a) (Some b) b b t bo at_.

Definition ex_M : module := mk_module
  [mk_attr "byte_order" true (AVString "LittleEndian")]
  [ mk_enum "Color" (Some 8) None [("RED", 0); ("BLUE", 255)] [mk_attr "maximum_bits" false (AVInt true)] [[]; []] ]
  [ mk_struct "Flags" false 1 [Some BLittle; None] None
      [ fld "f0" 0 1 (mk_ftype (RPre PFlag) None []) None [];
        fld "u" 1 63 (mk_ftype (RPre PUInt) None []) None [] ] [] [];
    mk_struct "Main" false 8 [Some BLittle; None] None
      [ fld "a" 0 8 (mk_ftype (RPre PUInt) None []) None [];
        fld "c" 8 1 (mk_ftype (REnum 0) None []) None [];
        fld "fl" 9 8 (mk_ftype (RStruct 0) None []) (Some BBig) [mk_attr "byte_order" false (AVString "BigEndian")];
        fld "arr" 17 8 (mk_ftype (RPre PUInt) (Some 16) [LConst 2; LConst 2]) None [];
        fld "x" 25 4 (mk_ftype (RPre PFloat) None []) None [];
        fld "w" 29 4 (mk_ftype (RExt 0) None []) None [];
        fld "k" 33 2 (mk_ftype (RExt 1) None []) (Some BBig) [mk_attr "byte_order" false (AVString "BigEndian")];
        mk_field "v" true None None 0 0 (mk_ftype (RPre PUInt) None []) None [mk_attr "requires" false (AVBool false)] ]
      [] [(RPre PUInt, Some 8); (REnum 0, None)] ]
  ["cpp"; "xyz"] ["xyz"]
  [ (* external Word: [addressable_unit_size: 8] [fixed_size_in_bits: 32] [static_requirements: 8..32 bits] *)
    mk_extdef "Word" (Some 8) (Some 32) (Some (range_req 8 32))
      [mk_attr "addressable_unit_size" false (AVInt true); mk_attr "fixed_size_in_bits" false (AVInt true);
       mk_attr "static_requirements" false (AVBool false)];
    (* external Nibbles: [addressable_unit_size: 1] [is_integer: false] *)
    mk_extdef "Nibbles" (Some 1) None None
      [mk_attr "addressable_unit_size" false (AVInt true); mk_attr "is_integer" false (AVBool true)] ].

(* the same with a 65-bit bits type *)
Definition ex_M_bad : module := mk_module (m_attrs ex_M) (m_enums ex_M)
  [ mk_struct "Flags" false 1 [Some BLittle; None] None
      [ fld "f0" 0 1 (mk_ftype (RPre PFlag) None []) None [];
        fld "u" 1 64 (mk_ftype (RPre PUInt) None []) None [] ] [] [] ]
  ["cpp"] [] [].

(* user-defined externals, one rule broken at a time: no addressable unit; a unit other than 1 / 8;
   a field narrower than the fixed size; a width outside the external's static_requirements; a
   dynamically sized field of an external that requires a static size; a byte-oriented external in bits;
   [is_integer] with a non-constant value *)
Definition ext_word (u : option Z) (fx : option Z) : ext_def :=
  mk_extdef "Word" u fx (Some (range_req 8 32)) [mk_attr "addressable_unit_size" false (AVInt true)].
Definition ex_M_ext (x : ext_def) (unit : Z) (f : field) : module :=
  mk_module [] [] [mk_struct "S" false unit [None; None] None [f] [] []] ["cpp"] [] [x].
Definition ex_M_ext_ok : module := ex_M_ext (ext_word (Some 8) (Some 32)) 8 (fld "w" 0 4 (mk_ftype (RExt 0) None []) None []).
Definition ex_M_ext_bad : list module :=
  [ ex_M_ext (ext_word None (Some 32)) 8 (fld "w" 0 4 (mk_ftype (RExt 0) None []) None []);
    ex_M_ext (ext_word (Some 4) (Some 32)) 8 (fld "w" 0 4 (mk_ftype (RExt 0) None []) None []);
    ex_M_ext (ext_word (Some 8) (Some 32)) 8 (fld "w" 0 3 (mk_ftype (RExt 0) None []) None []);
    ex_M_ext (ext_word (Some 8) None) 8 (fld "w" 0 5 (mk_ftype (RExt 0) None []) None []);
    ex_M_ext (ext_word (Some 8) None) 8 (mk_field "w" false (Some 0) None 0 255 (mk_ftype (RExt 0) None []) None []);
    ex_M_ext (ext_word (Some 8) (Some 32)) 1 (fld "w" 0 32 (mk_ftype (RExt 0) None []) None []);
    ex_M_ext (mk_extdef "Word" (Some 8) None None [mk_attr "addressable_unit_size" false (AVInt true); mk_attr "is_integer" false (AVBool false)])
             8 (fld "w" 0 4 (mk_ftype (RExt 0) None []) None []) ].

(* harness: verdict of the mirror and the side condition of the theorem *)
Definition run_layout2 (T : tables) (M : module) : bool * bool := (check_layout T M, units_okb M).
Definition pair_bool_eqb (a b : bool * bool) : bool := Bool.eqb (fst a) (fst b) && Bool.eqb (snd a) (snd b).

(* effective byte order of every field, to be compared with the byte_order attributes the front
   end's normalisation leaves on the fields *)
Definition border_eqb (a b : border) : bool :=
  match a, b with BLittle, BLittle | BBig, BBig | BNull, BNull => true | _, _ => false end.
Definition optborder_eqb (a b : option border) : bool :=
  match a, b with None, None => true | Some x, Some y => border_eqb x y | _, _ => false end.
Fixpoint list_eqb {A} (f : A -> A -> bool) (a b : list A) : bool :=
  match a, b with
  | [], [] => true
  | x :: a', y :: b' => f x y && list_eqb f a' b'
  | _, _ => false
  end.
Definition borders (M : module) : list (list (option border)) :=
  map (fun s => map (effective_border M s) (s_fields s)) (m_structs M).

Inductive lout :=
| LModel (v u : bool) (b : list (list (option border)))
| LExpect (v u : bool) (b : option (list (list (option border)))).

Definition run_layout3 (T : tables) (M : module) : lout :=
  LModel (check_layout T M) (units_okb M) (if check_all_attrs T M then borders M else []).

Definition lout_agrees (a b : lout) : bool :=
  match a, b with
  | LModel v u bs, LExpect v' u' ob =>
      Bool.eqb v v' && Bool.eqb u u'
      && match ob with None => true | Some bs' => list_eqb (list_eqb optborder_eqb) bs bs' end
  | _, _ => false
  end.

(* everything the front end derives from attributes: byte order per field, (maximum_bits,
   is_signed) per enum, fixed size per structure *)
Definition effective (M : module) : list (list (option border)) * list (Z * bool) * list (option Z) :=
  (borders M, map (fun e => (enum_maxbits e, enum_is_signed e)) (m_enums M), map (fun s => match s_fixed_attr s with Some a => Some a | None => struct_fixed_size s end) (m_structs M)).

Definition zb_eqb (a b : Z * bool) : bool := Z.eqb (fst a) (fst b) && Bool.eqb (snd a) (snd b).

Inductive eout :=
| EModel (v u : bool) (e : list (list (option border)) * list (Z * bool) * list (option Z))
| EExpect (v u : bool) (e : option (list (list (option border)) * list (Z * bool) * list (option Z))).

Definition run_layout4 (T : tables) (M : module) : eout :=
  EModel (check_layout T M) (units_okb M)
         (if check_all_attrs T M then effective M else ([], [], [])).

Definition eout_agrees (a b : eout) : bool :=
  match a, b with
  | EModel v u e, EExpect v' u' oe =>
      Bool.eqb v v' && Bool.eqb u u'
      && match oe with
         | None => true
         | Some e' =>
             list_eqb (list_eqb optborder_eqb) (fst (fst e)) (fst (fst e'))
             && list_eqb zb_eqb (snd (fst e)) (snd (fst e'))
             && list_eqb optz_eqb (snd e) (snd e')
         end
  | _, _ => false
  end.
