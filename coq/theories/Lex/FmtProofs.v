(* C11, handler level: proofs about Lex/FmtModel.v.
   Part 1: every combinator and every DSL construct preserves the token content;
           a handler table that passes the static check [table_toks_ok] preserves the tokens of every tree. *)
From Coq Require Import NArith List Bool Arith PeanoNat Lia.
Import ListNotations.
Require Import EmbossV.Lex.Regex EmbossV.Lex.FmtModel.

Ltac dm H := match type of H with context [match ?x with _ => _ end] => destruct x eqn:?; try discriminate end.
Ltac inv H := inversion H; subst; clear H.

Lemma some_inj : forall (A : Type) (a b : A), Some a = Some b -> a = b.
Proof. intros. congruence. Qed.

Section Toks.
Variable ws : N -> bool.
Notation rstrip := (rstrip ws).
Notation grstrip := (grstrip ws).
Notation blank := (blank ws).
Notation ptoks := (ptoks ws).
Notation gtoks := (gtoks ws).
Notation rtoks := (rtoks ws).
Notation rstoks := (rstoks ws).
Notation btoks := (btoks ws).
Notation bstoks := (bstoks ws).
Notation itoks := (itoks ws).
Notation vtoks := (vtoks ws).

(* ---- str.rstrip ---- *)
Lemma rstrip_nil_blank : forall s, rstrip s = [] -> blank s = true.
Proof.
  induction s as [|c s IH]; simpl; intro H; [reflexivity|].
  destruct (rstrip s) eqn:E; [|discriminate].
  destruct (ws c); [|discriminate]. simpl. apply IH. reflexivity.
Qed.

Lemma blank_rstrip : forall s, blank (rstrip s) = blank s.
Proof.
  induction s as [|c s IH]; simpl; [reflexivity|].
  destruct (rstrip s) as [|n l] eqn:E.
  - rewrite (rstrip_nil_blank s E). destruct (ws c) eqn:W; simpl; rewrite ?W; reflexivity.
  - change (blank (c :: n :: l)) with (ws c && blank (n :: l)). rewrite IH. reflexivity.
Qed.

Lemma rstrip_idem : forall s, rstrip (rstrip s) = rstrip s.
Proof.
  induction s as [|c s IH]; simpl; [reflexivity|].
  destruct (rstrip s) as [|n l] eqn:E.
  - destruct (ws c) eqn:W; simpl; rewrite ?W; reflexivity.
  - change (rstrip (c :: n :: l)) with (match rstrip (n :: l) with [] => if ws c then [] else [c] | r => c :: r end).
    rewrite IH. reflexivity.
Qed.

Lemma ptoks_rstrip : forall p, ptoks (set_ptext p (rstrip (ptext p))) = ptoks p.
Proof.
  destruct p; simpl; [|reflexivity].
  rewrite blank_rstrip. unfold strip_. rewrite rstrip_idem. reflexivity.
Qed.

Lemma ptoks_blank : forall p, blank (ptext p) = true -> ptoks p = [].
Proof. destruct p; simpl; intro H; [rewrite H|]; reflexivity. Qed.

Lemma gtoks_app : forall a b, gtoks (a ++ b) = gtoks a ++ gtoks b.
Proof. intros. unfold FmtModel.gtoks. apply flat_map_app. Qed.

Lemma grstrip_toks : forall g, gtoks (grstrip g) = gtoks g.
Proof.
  induction g as [|p g IH]; [reflexivity|].
  simpl FmtModel.grstrip. destruct (grstrip g) as [|p0 l] eqn:E.
  - assert (Hg : gtoks g = []) by (rewrite <- IH; reflexivity).
    change (gtoks (p :: g)) with (ptoks p ++ gtoks g). rewrite Hg, app_nil_r.
    destruct (rstrip (ptext p)) eqn:R.
    + rewrite (ptoks_blank p (rstrip_nil_blank _ R)). reflexivity.
    + rewrite <- R. change (gtoks [set_ptext p (rstrip (ptext p))]) with (ptoks (set_ptext p (rstrip (ptext p))) ++ []).
      rewrite app_nil_r. apply ptoks_rstrip.
  - change (gtoks (p :: p0 :: l)) with (ptoks p ++ gtoks (p0 :: l)). rewrite IH. reflexivity.
Qed.

Lemma gempty_toks : forall g, gempty g = true -> gtoks g = [].
Proof.
  unfold gempty. induction g as [|p g IH]; simpl; intro H; [reflexivity|].
  destruct (ptext p ++ flat g) eqn:E; [|discriminate].
  apply app_eq_nil in E. destruct E as [E1 E2].
  rewrite ptoks_blank by (rewrite E1; reflexivity). simpl. apply IH. rewrite E2. reflexivity.
Qed.

Lemma gljust_toks : forall g w, gtoks (gljust g w) = gtoks g.
Proof.
  intros. unfold gljust. destruct (w - glen g); [reflexivity|].
  rewrite gtoks_app. simpl. apply app_nil_r.
Qed.

Lemma gjoin_toks : forall sep ss, gtoks (gjoin sep ss) = flat_map gtoks ss.
Proof.
  induction ss as [|s ss IH]; [reflexivity|].
  destruct ss as [|s' ss'].
  - simpl. symmetry. apply app_nil_r.
  - change (gjoin sep (s :: s' :: ss')) with (s ++ GLit sep :: gjoin sep (s' :: ss')).
    rewrite gtoks_app. change (gtoks (GLit sep :: gjoin sep (s' :: ss'))) with (gtoks (gjoin sep (s' :: ss'))).
    rewrite IH. reflexivity.
Qed.

Lemma filter_truthy_toks : forall ss, flat_map gtoks (filter (fun s => negb (gempty s)) ss) = flat_map gtoks ss.
Proof.
  induction ss as [|s ss IH]; [reflexivity|]. simpl.
  destruct (gempty s) eqn:E; simpl.
  - rewrite (gempty_toks s E). exact IH.
  - rewrite IH. reflexivity.
Qed.

Lemma map_prefix_toks : forall p ss, flat_map gtoks (map (fun x => GLit p :: x) ss) = flat_map gtoks ss.
Proof. induction ss as [|s ss IH]; [reflexivity|]. simpl. rewrite IH. reflexivity. Qed.

(* ---- lists of items ---- *)
Lemma as_strs_toks : forall l ss, as_strs l = Some ss -> flat_map itoks l = flat_map gtoks ss.
Proof.
  induction l as [|i l IH]; simpl; intros ss H; [inv H; reflexivity|].
  destruct i; try discriminate. destruct (as_strs l) eqn:E; simpl in H; [|discriminate]. inv H.
  simpl. rewrite (IH _ eq_refl). reflexivity.
Qed.
Lemma as_rows_toks : forall l rs, as_rows l = Some rs -> flat_map itoks l = rstoks rs.
Proof.
  induction l as [|i l IH]; simpl; intros rs H; [inv H; reflexivity|].
  destruct i; try discriminate. destruct (as_rows l) eqn:E; simpl in H; [|discriminate]. inv H.
  simpl. rewrite (IH _ eq_refl). reflexivity.
Qed.
Lemma as_blocks_toks : forall l bs, as_blocks l = Some bs -> flat_map itoks l = bstoks bs.
Proof.
  induction l as [|i l IH]; simpl; intros bs H; [inv H; reflexivity|].
  destruct i; try discriminate. destruct (as_blocks l) eqn:E; simpl in H; [|discriminate]. inv H.
  simpl. rewrite (IH _ eq_refl). reflexivity.
Qed.
Lemma as_rowss_toks : forall l rs, as_rowss l = Some rs -> flat_map itoks l = flat_map rstoks rs.
Proof.
  induction l as [|i l IH]; simpl; intros rs H; [inv H; reflexivity|].
  destruct i; try discriminate. destruct (as_rowss l) eqn:E; simpl in H; [|discriminate]. inv H.
  simpl. rewrite (IH _ eq_refl). reflexivity.
Qed.

Lemma get_strs_toks : forall ov ss, get_strs ov = Some ss -> exists v, ov = Some v /\ vtoks v = flat_map gtoks ss.
Proof.
  intros [v|] ss H; [|discriminate]. destruct v; try discriminate. simpl in H.
  eexists; split; [reflexivity|]. simpl. apply as_strs_toks. exact H.
Qed.
Lemma get_rows_toks : forall ov rs, get_rows ov = Some rs -> exists v, ov = Some v /\ vtoks v = rstoks rs.
Proof.
  intros [v|] rs H; [|discriminate]. destruct v; try discriminate. simpl in H.
  eexists; split; [reflexivity|]. simpl. apply as_rows_toks. exact H.
Qed.
Lemma get_blocks_toks : forall ov bs, get_blocks ov = Some bs -> exists v, ov = Some v /\ vtoks v = bstoks bs.
Proof.
  intros [v|] bs H; [|discriminate]. destruct v; try discriminate. simpl in H.
  eexists; split; [reflexivity|]. simpl. apply as_blocks_toks. exact H.
Qed.

Lemma vrows_toks : forall l, vtoks (vrows l) = rstoks l.
Proof. unfold vrows. simpl. induction l as [|r l IH]; [reflexivity|]. simpl. rewrite IH. reflexivity. Qed.
Lemma vblocks_toks : forall l, vtoks (vblocks l) = bstoks l.
Proof. unfold vblocks. simpl. induction l as [|r l IH]; [reflexivity|]. simpl. rewrite IH. reflexivity. Qed.
Lemma vstrs_toks : forall l, vtoks (vstrs l) = flat_map gtoks l.
Proof. unfold vstrs. simpl. induction l as [|r l IH]; [reflexivity|]. simpl. rewrite IH. reflexivity. Qed.
Lemma vrowss_toks : forall l, flat_map itoks (map IRows l) = flat_map rstoks l.
Proof. induction l as [|r l IH]; [reflexivity|]. simpl. rewrite IH. reflexivity. Qed.

Lemma item_of_toks : forall v i, item_of v = Some i -> itoks i = vtoks v.
Proof.
  destruct v; simpl; intros i H; try (inv H; reflexivity); try discriminate.
  destruct (as_rows l) eqn:E; simpl in H; [|discriminate]. inv H. simpl.
  symmetry. apply as_rows_toks. exact E.
Qed.

Lemma items_of_toks : forall vs li, items_of vs = Some li -> flat_map itoks li = flat_map vtoks vs.
Proof.
  induction vs as [|v vs IH]; simpl; intros li H; [inv H; reflexivity|].
  destruct (item_of v) eqn:E1; [|discriminate]. destruct (items_of vs) eqn:E2; [|discriminate]. inv H.
  simpl. rewrite (item_of_toks _ _ E1), (IH _ eq_refl). reflexivity.
Qed.

(* ---- rows and blocks ---- *)
Lemma rstoks_app : forall a b, rstoks (a ++ b) = rstoks a ++ rstoks b.
Proof. intros. unfold FmtModel.rstoks. apply flat_map_app. Qed.
Lemma bstoks_app : forall a b, bstoks (a ++ b) = bstoks a ++ bstoks b.
Proof. intros. unfold FmtModel.bstoks. apply flat_map_app. Qed.

Lemma indent_rows_toks : forall l, rstoks (indent_rows l) = rstoks l.
Proof. induction l as [|r l IH]; [reflexivity|]. simpl. rewrite IH. reflexivity. Qed.
Lemma indent_block_toks : forall b, btoks (indent_block b) = btoks b.
Proof. intros. unfold FmtModel.btoks, indent_block. simpl. rewrite !indent_rows_toks. reflexivity. Qed.
Lemma indent_blocks_toks : forall l, bstoks (indent_blocks l) = bstoks l.
Proof. induction l as [|b l IH]; [reflexivity|]. simpl. rewrite IH, indent_block_toks. reflexivity. Qed.

Lemma intersperse_go_toks : forall sep, rstoks sep = [] ->
  forall secs acc, rstoks (intersperse_go sep acc secs) = rstoks acc ++ flat_map rstoks secs.
Proof.
  intros sep Hs. induction secs as [|s secs IH]; intro acc; simpl.
  - symmetry. apply app_nil_r.
  - destruct s as [|r s'].
    + rewrite IH. reflexivity.
    + rewrite IH. destruct acc as [|a acc'].
      * reflexivity.
      * rewrite !rstoks_app, Hs. simpl. rewrite <- app_assoc. reflexivity.
Qed.
Lemma intersperse_toks : forall sep secs, rstoks sep = [] -> rstoks (intersperse sep secs) = flat_map rstoks secs.
Proof. intros. unfold intersperse. rewrite intersperse_go_toks by assumption. reflexivity. Qed.

Lemma pad_cols_toks : forall iw ic all r cols i, gtoks (pad_cols iw ic all r i cols) = flat_map gtoks cols.
Proof.
  induction cols as [|c cols IH]; intro i; [reflexivity|].
  simpl. rewrite gtoks_app, gljust_toks, IH. reflexivity.
Qed.
Lemma columnize_block_toks : forall iw ic all b, rstoks (columnize_block ws iw ic all b) = btoks b.
Proof.
  intros. unfold columnize_block, FmtModel.btoks. rewrite !rstoks_app. f_equal. f_equal.
  unfold FmtModel.rstoks, FmtModel.rtoks. simpl. rewrite !app_nil_r, grstrip_toks. apply pad_cols_toks.
Qed.
Lemma columnize_toks : forall iw ic bs rs, columnize ws iw ic bs = Some rs -> flat_map rstoks rs = bstoks bs.
Proof.
  intros iw ic bs rs H. unfold columnize in H. dm H. inv H.
  clear Heqb. generalize bs at 1. intro all. induction bs as [|b bs IH]; [reflexivity|].
  simpl. rewrite IH, columnize_block_toks. reflexivity.
Qed.

Lemma has_cols_false_toks : forall r, has_cols r = false -> rtoks r = [].
Proof. intros r H. unfold has_cols in H. unfold FmtModel.rtoks. destruct (rcols r); [reflexivity|discriminate]. Qed.

Lemma drop_leading_toks : forall l, rstoks (drop_leading_empty l) = rstoks l.
Proof.
  induction l as [|r l IH]; [reflexivity|]. simpl. destruct (has_cols r) eqn:E; [reflexivity|].
  rewrite IH, (has_cols_false_toks r E). reflexivity.
Qed.
Lemma drop_trailing_toks : forall l, rstoks (drop_trailing_empty l) = rstoks l.
Proof.
  induction l as [|r l IH]; [reflexivity|]. simpl. destruct (drop_trailing_empty l) as [|r0 l0] eqn:E.
  - assert (Hl : rstoks l = []) by (rewrite <- IH; reflexivity). rewrite Hl.
    destruct (has_cols r) eqn:C; [reflexivity|]. rewrite (has_cols_false_toks r C). reflexivity.
  - change (rstoks (r :: r0 :: l0)) with (rtoks r ++ rstoks (r0 :: l0)). rewrite IH. reflexivity.
Qed.
Lemma strip_comment_lines_toks : forall l, rstoks (strip_comment_lines l) = rstoks l.
Proof. intros. unfold strip_comment_lines. rewrite drop_trailing_toks. apply drop_leading_toks. Qed.

Lemma ibc_toks : forall l, rstoks (fst (ibc_go l)) = rstoks l.
Proof.
  induction l as [|r l IH]; [reflexivity|]. simpl. destruct (ibc_go l) as [res pi]. simpl in IH.
  destruct (row_blank r || seqb (rname r) name_comment); simpl; rewrite IH; reflexivity.
Qed.
Lemma dedent_toks : forall l pi pb, rstoks (dedent_go pi pb l) = rstoks l.
Proof.
  induction l as [|r l IH]; intros; [reflexivity|]. simpl.
  destruct ((rindent r <? pi) && negb pb && negb (row_blank r)); simpl; rewrite IH; reflexivity.
Qed.

Lemma render_row_toks : forall iw r t, render_row ws iw r = Some t -> gtoks t = rtoks r.
Proof.
  intros iw r t H. unfold render_row in H. unfold FmtModel.rtoks.
  destruct (rcols r) as [|c [|c' cs]]; try discriminate; apply some_inj in H; rewrite <- H, grstrip_toks; simpl; rewrite ?app_nil_r; reflexivity.
Qed.
Lemma render_rows_toks : forall iw rows t, render_rows ws iw rows = Some t -> gtoks t = rstoks rows.
Proof.
  induction rows as [|r rows IH]; simpl; intros t H; [inv H; reflexivity|].
  destruct (render_row ws iw r) eqn:E1; [|discriminate]. destruct (render_rows ws iw rows) eqn:E2; [|discriminate].
  inv H. rewrite gtoks_app. change (gtoks (GLit [10%N] :: g0)) with (gtoks g0).
  rewrite (render_row_toks _ _ _ E1), (IH _ eq_refl). reflexivity.
Qed.

(* ---- atoms ---- *)
Notation atoks := (atoks ws).
Notation astoks := (astoks ws).

Lemma astoks_app : forall args a b, astoks args (a ++ b) = astoks args a ++ astoks args b.
Proof. intros. unfold FmtModel.astoks. apply flat_map_app. Qed.

Lemma vfst_vsnd : forall v, vfst ws v ++ vsnd ws v = vtoks v.
Proof.
  destruct v; simpl; try apply app_nil_r; [|reflexivity].
  destruct l as [|[] [|[] [|]]]; simpl; rewrite ?app_nil_r; reflexivity.
Qed.

Lemma falsy_toks : forall v, truthy v = false -> vtoks v = [] /\ vfst ws v = [] /\ vsnd ws v = [].
Proof.
  destruct v; simpl; intro H; try discriminate.
  - apply negb_false_iff in H. rewrite (gempty_toks s H). auto.
  - destruct l; [auto|discriminate].
Qed.

Lemma atoms_eqb_eq : forall a b, atoms_eqb a b = true -> a = b.
Proof.
  induction a as [|[i p] a IH]; destruct b as [|[j q] b]; simpl; intro H; try discriminate; [reflexivity|].
  apply andb_true_iff in H. destruct H as [H1 H2]. unfold atom_eqb in H1. simpl in H1.
  apply andb_true_iff in H1. destruct H1 as [H1 H3]. apply Nat.eqb_eq in H1. subst j.
  rewrite (IH b H2). destruct p, q; try discriminate; reflexivity.
Qed.

Lemma astoks_without : forall args i vi l, nth_error args i = Some vi -> truthy vi = false ->
  astoks args (without_arg i l) = astoks args l.
Proof.
  intros args i vi l Hn Hf. destruct (falsy_toks vi Hf) as [F1 [F2 F3]].
  induction l as [|[j p] l IH]; [reflexivity|]. simpl.
  destruct (j =? i) eqn:E; simpl.
  - apply Nat.eqb_eq in E. subst j. rewrite IH. unfold FmtModel.atoks. simpl. rewrite Hn.
    destruct p; rewrite ?F1, ?F2, ?F3; reflexivity.
  - rewrite IH. reflexivity.
Qed.

Lemma astoks_insert : forall args i vi l, nth_error args i = Some vi -> truthy vi = false ->
  astoks args (insert_arg i l) = astoks args l.
Proof.
  intros args i vi l Hn Hf. destruct (falsy_toks vi Hf) as [F1 _].
  assert (Hi : atoks args (i, PWhole) = []) by (unfold FmtModel.atoks; simpl; rewrite Hn; exact F1).
  induction l as [|a l IH]; simpl.
  - rewrite Hi. reflexivity.
  - destruct (i <? fst a); simpl; [rewrite Hi; reflexivity|rewrite IH; reflexivity].
Qed.

Lemma astoks_seq : forall args pre,
  astoks (pre ++ args) (map (fun i => (i, PWhole)) (seq (length pre) (length args))) = flat_map vtoks args.
Proof.
  induction args as [|a args IH]; intro pre; [reflexivity|].
  simpl. unfold FmtModel.atoks at 1. simpl.
  rewrite nth_error_app2 by lia. rewrite Nat.sub_diag. simpl. f_equal.
  specialize (IH (pre ++ [a])). rewrite <- app_assoc in IH. simpl in IH.
  rewrite app_length in IH. simpl in IH. rewrite Nat.add_1_r in IH. exact IH.
Qed.

Lemma o_app_some : forall a b l, o_app a b = Some l -> exists x y, a = Some x /\ b = Some y /\ l = x ++ y.
Proof. intros [x|] [y|] l H; simpl in H; try discriminate. inv H. eauto. Qed.

Lemma normalise_toks_n : forall args n l, length l <= n -> astoks args (normalise l) = astoks args l.
Proof.
  intros args. induction n as [|n IH]; intros [|a [|b r]] Hl; try reflexivity; simpl in Hl; try lia.
  change (normalise (a :: b :: r)) with
    (if is_fst a && is_snd b && (fst a =? fst b) then (fst a, PWhole) :: normalise r else a :: normalise (b :: r)).
  destruct (is_fst a && is_snd b && (fst a =? fst b)) eqn:E.
  - apply andb_true_iff in E. destruct E as [E E3]. apply andb_true_iff in E. destruct E as [E1 E2].
    apply Nat.eqb_eq in E3. destruct a as [i p], b as [j q]. simpl in *. subst j.
    unfold is_fst in E1. unfold is_snd in E2. simpl in *. destruct p; try discriminate. destruct q; try discriminate.
    rewrite IH by lia. unfold FmtModel.atoks. simpl. destruct (nth_error args i); [|reflexivity].
    rewrite app_assoc, vfst_vsnd. reflexivity.
  - change (astoks args (a :: normalise (b :: r))) with (atoks args a ++ astoks args (normalise (b :: r))).
    rewrite IH by (simpl; lia). reflexivity.
Qed.
Lemma normalise_toks : forall args l, astoks args (normalise l) = astoks args l.
Proof. intros. apply (normalise_toks_n args (length l)). lia. Qed.

(* ---- the DSL: the tokens of the result are the tokens of the arguments listed by [etoks] ---- *)
Lemma ceval_truthy_false : forall args i, ceval args (CTruthy i) = Some false ->
  exists vi, nth_error args i = Some vi /\ truthy vi = false.
Proof. intros args i H. simpl in H. destruct (nth_error args i); simpl in H; [|discriminate]. inv H. eauto. Qed.

Lemma eval_toks : forall iw args e v l,
  eval ws iw args e = Some v -> etoks (length args) e = Some l -> vtoks v = astoks args l.
Proof.
  intros iw args. induction e; intros v l Hev Het; simpl in Hev, Het; unfold option_map in Hev.
  - (* EArg *) inv Het. simpl. unfold FmtModel.atoks. simpl. rewrite Hev. symmetry. apply app_nil_r.
  - (* EArgs *) inv Het. dm Hev. inv Hev. simpl. rewrite (items_of_toks _ _ Heqo). symmetry. apply (astoks_seq args []).
  - (* ELit *) inv Hev. inv Het. reflexivity.
  - (* ENil *) inv Hev. inv Het. reflexivity.
  - (* ECons *) apply o_app_some in Het. destruct Het as [x [y [H1 [H2 ->]]]].
    dm Hev. dm Hev. dm Hev. dm Hev. inv Hev. simpl.
    rewrite (item_of_toks _ _ Heqo1), astoks_app, <- (IHe1 _ _ eq_refl H1), <- (IHe2 _ _ eq_refl H2). reflexivity.
  - (* EAdd *) apply o_app_some in Het. destruct Het as [x [y [H1 [H2 ->]]]].
    dm Hev. dm Hev; dm Hev; dm Hev; inv Hev; rewrite astoks_app, <- (IHe1 _ _ eq_refl H1), <- (IHe2 _ _ eq_refl H2); simpl.
    + apply gtoks_app.
    + apply flat_map_app.
  - (* EJoin *) dm Hev. inv Hev. apply get_strs_toks in Heqo. destruct Heqo as [v [E T]].
    rewrite <- (IHe _ _ E Het), T. simpl. apply gjoin_toks.
  - (* EFilterTruthy *) dm Hev. inv Hev. apply get_strs_toks in Heqo. destruct Heqo as [v [E T]].
    rewrite <- (IHe _ _ E Het), T, vstrs_toks. apply filter_truthy_toks.
  - (* EMapPrefix *) dm Hev. inv Hev. apply get_strs_toks in Heqo. destruct Heqo as [v [E T]].
    rewrite <- (IHe _ _ E Het), T, vstrs_toks. apply map_prefix_toks.
  - (* ERstrip *) dm Hev. dm Hev. inv Hev. rewrite <- (IHe _ _ eq_refl Het). simpl. apply grstrip_toks.
  - (* EFst *) inv Het. repeat dm Hev. inv Hev. unfold FmtModel.astoks, FmtModel.atoks. simpl. rewrite Heqo. simpl.
    symmetry. apply app_nil_r.
  - (* ESnd *) inv Het. repeat dm Hev. inv Hev. unfold FmtModel.astoks, FmtModel.atoks. simpl. rewrite Heqo. simpl.
    symmetry. apply app_nil_r.
  - (* EBodyHdr *) inv Het. repeat dm Hev. inv Hev. unfold FmtModel.astoks, FmtModel.atoks. simpl. rewrite Heqo. simpl.
    rewrite app_nil_r. apply (vrows_toks h).
  - (* EBodyBlocks *) inv Het. repeat dm Hev. inv Hev. unfold FmtModel.astoks, FmtModel.atoks. simpl. rewrite Heqo. simpl.
    rewrite app_nil_r. apply (vblocks_toks b).
  - (* EBodyMk *) apply o_app_some in Het. destruct Het as [x [y [H1 [H2 ->]]]].
    dm Hev. dm Hev. inv Hev. apply get_rows_toks in Heqo. destruct Heqo as [v1 [E1 T1]].
    apply get_blocks_toks in Heqo0. destruct Heqo0 as [v2 [E2 T2]].
    rewrite astoks_app, <- (IHe1 _ _ E1 H1), <- (IHe2 _ _ E2 H2), T1, T2. reflexivity.
  - (* ERow *) dm Hev. inv Hev. apply get_strs_toks in Heqo. destruct Heqo as [v [E T]].
    rewrite <- (IHe _ _ E Het), T. reflexivity.
  - (* EBlock *) apply o_app_some in Het. destruct Het as [x [yz [H1 [H23 ->]]]].
    apply o_app_some in H23. destruct H23 as [y [z [H2 [H3 ->]]]].
    dm Hev. dm Hev. dm Hev. dm Hev. inv Hev.
    apply get_rows_toks in Heqo. destruct Heqo as [v1 [E1 T1]].
    apply get_rows_toks in Heqo1. destruct Heqo1 as [v3 [E3 T3]].
    rewrite !astoks_app, <- (IHe1 _ _ E1 H1), <- (IHe2 _ _ eq_refl H2), <- (IHe3 _ _ E3 H3), T1, T3. reflexivity.
  - (* EIndentRows *) dm Hev. inv Hev. apply get_rows_toks in Heqo. destruct Heqo as [v [E T]].
    rewrite <- (IHe _ _ E Het), T, vrows_toks. apply indent_rows_toks.
  - (* EIndentBlocks *) dm Hev. inv Hev. apply get_blocks_toks in Heqo. destruct Heqo as [v [E T]].
    rewrite <- (IHe _ _ E Het), T, vblocks_toks. apply indent_blocks_toks.
  - (* EIntersperse *) destruct (etoks (length args) e1) as [s|] eqn:Es; [|discriminate].
    destruct s; simpl in Het; [|discriminate].
    dm Hev. dm Hev. dm Hev. dm Hev. inv Hev.
    apply get_rows_toks in Heqo. destruct Heqo as [v1 [E1 T1]].
    pose proof (IHe1 _ _ E1 eq_refl) as S1. rewrite T1 in S1. simpl in S1.
    rewrite vrows_toks, (intersperse_toks _ _ S1), <- (IHe2 _ _ eq_refl Het). simpl.
    symmetry. apply as_rowss_toks. exact Heqo1.
  - (* EColumnize *) dm Hev. dm Hev. inv Hev. apply get_blocks_toks in Heqo. destruct Heqo as [v [E T]].
    rewrite <- (IHe _ _ E Het), T. simpl. rewrite vrowss_toks. apply (columnize_toks _ _ _ _ Heqo0).
  - (* EStripComments *) dm Hev. inv Hev. apply get_rows_toks in Heqo. destruct Heqo as [v [E T]].
    rewrite <- (IHe _ _ E Het), T, vrows_toks. apply strip_comment_lines_toks.
  - (* EPrependFirst *) apply o_app_some in Het. destruct Het as [x [y [H1 [H2 ->]]]].
    dm Hev. dm Hev. dm Hev. inv Hev.
    apply get_rows_toks in Heqo. destruct Heqo as [v1 [E1 T1]].
    apply get_blocks_toks in Heqo0. destruct Heqo0 as [v2 [E2 T2]].
    rewrite astoks_app, <- (IHe1 _ _ E1 H1), <- (IHe2 _ _ E2 H2), T1, T2, vblocks_toks.
    simpl. unfold FmtModel.btoks. simpl. rewrite rstoks_app, <- !app_assoc. reflexivity.
  - (* EIf *) destruct (etoks (length args) e1) as [x|] eqn:Ex; [|discriminate].
    destruct (etoks (length args) e2) as [y|] eqn:Ey; [|discriminate].
    destruct (ceval args c) as [[|]|] eqn:Ec; [| |discriminate].
    + assert (l = x) as ->.
      { destruct (atoms_eqb x y); [inv Het; reflexivity|]. destruct c; try discriminate.
        destruct (atoms_eqb (without_arg i x) y); [inv Het; reflexivity|discriminate]. }
      apply (IHe1 _ _ Hev eq_refl).
    + destruct (atoms_eqb x y) eqn:Exy.
      * inv Het. apply atoms_eqb_eq in Exy. subst y. apply (IHe2 _ _ Hev eq_refl).
      * destruct c; try discriminate. destruct (atoms_eqb (without_arg i x) y) eqn:Ew; [|discriminate]. inv Het.
        apply atoms_eqb_eq in Ew. subst y. apply ceval_truthy_false in Ec. destruct Ec as [vi [Hn Hf]].
        rewrite (IHe2 _ _ Hev eq_refl). apply (astoks_without _ _ _ _ Hn Hf).
  - (* EAssert *) destruct (ceval args c) as [[|]|] eqn:Ec; try discriminate.
    assert (Hplain : forall l', etoks (length args) e = Some l' -> vtoks v = astoks args l')
      by (intros l' Hl'; apply (IHe _ _ Hev Hl')).
    destruct c; try (apply Hplain; exact Het). destruct c; try (apply Hplain; exact Het).
    destruct (etoks (length args) e) as [l'|] eqn:El; simpl in Het; [|discriminate]. inv Het.
    simpl in Ec. destruct (nth_error args i) as [vi|] eqn:En; simpl in Ec; [|discriminate].
    assert (Hf : truthy vi = false) by (destruct (truthy vi); [discriminate|reflexivity]).
    rewrite (Hplain _ eq_refl). symmetry. apply (astoks_insert _ _ _ _ En Hf).
  - (* EIndentBlanks *) dm Hev. inv Hev. apply get_rows_toks in Heqo. destruct Heqo as [v [E T]].
    rewrite <- (IHe _ _ E Het), T, vrows_toks. apply ibc_toks.
  - (* EDedentBlanks *) dm Hev. inv Hev. apply get_rows_toks in Heqo. destruct Heqo as [v [E T]].
    rewrite <- (IHe _ _ E Het), T, vrows_toks. apply dedent_toks.
  - (* ERender *) dm Hev. dm Hev. inv Hev. apply get_rows_toks in Heqo. destruct Heqo as [v [E T]].
    rewrite <- (IHe _ _ E Het), T. simpl. apply (render_rows_toks _ _ _ Heqo0).
Qed.


(* ---- trees ---- *)
Section TreeInd.
  Variable P : tree -> Prop.
  Hypothesis Hleaf : forall sy tx, P (Leaf sy tx).
  Hypothesis Hnode : forall p cs, Forall P cs -> P (Node p cs).
  Fixpoint tree_ind2 (t : tree) : P t :=
    match t with
    | Leaf sy tx => Hleaf sy tx
    | Node p cs => Hnode p cs ((fix go (cs : list tree) : Forall P cs :=
                                  match cs with
                                  | [] => Forall_nil P
                                  | c :: cs' => Forall_cons c (tree_ind2 c) (go cs')
                                  end) cs)
    end.
End TreeInd.

Definition format_list (f : tree -> option value) : list tree -> option (list value) :=
  fix go (cs : list tree) : option (list value) :=
    match cs with
    | [] => Some []
    | c :: cs' => match f c, go cs' with
                  | Some v, Some vs => Some (v :: vs)
                  | _, _ => None
                  end
    end.

Lemma format_node : forall iw tbl p cs,
  format ws iw tbl (Node p cs) =
  match nth_error tbl p with
  | None => None
  | Some h => match format_list (format ws iw tbl) cs with
              | Some vs => if length vs =? length (hrhs h) then eval ws iw vs (hexpr h) else None
              | None => None
              end
  end.
Proof. intros. simpl. destruct (nth_error tbl p); reflexivity. Qed.

Lemma format_list_spec : forall f cs vs, format_list f cs = Some vs -> Forall2 (fun c v => f c = Some v) cs vs.
Proof.
  induction cs as [|c cs IH]; simpl; intros vs H; [inv H; constructor|].
  destruct (f c) eqn:E1; [|discriminate]. destruct (format_list f cs) eqn:E2; [|discriminate]. inv H.
  constructor; [exact E1|apply IH; reflexivity].
Qed.

Lemma expected_kept : forall (f : tree -> list (str * str)) cs vs,
  Forall2 (fun c v => vtoks v = f c) cs vs ->
  forall rhs pre, length vs = length rhs ->
  astoks (pre ++ vs) (expected_from (length pre) rhs) = kept_toks f rhs cs.
Proof.
  intros f cs vs H. induction H as [|c v cs vs Hcv H IH]; intros rhs pre Hl.
  - destruct rhs; [reflexivity|discriminate].
  - destruct rhs as [|s rhs]; [discriminate|]. simpl in Hl. injection Hl as Hl.
    specialize (IH rhs (pre ++ [v]) Hl). rewrite <- app_assoc in IH. simpl in IH.
    rewrite app_length in IH. simpl in IH. rewrite Nat.add_1_r in IH.
    simpl. destruct (droppable s).
    + exact IH.
    + simpl. rewrite IH. f_equal. unfold FmtModel.atoks. simpl.
      rewrite nth_error_app2 by lia. rewrite Nat.sub_diag. simpl. exact Hcv.
Qed.

Lemma nth_error_forallb : forall (A : Type) (f : A -> bool) l n x, forallb f l = true -> nth_error l n = Some x -> f x = true.
Proof. intros A f l n x H Hn. rewrite forallb_forall in H. apply H. eapply nth_error_In. exact Hn. Qed.

Theorem format_toks : forall iw tbl, table_toks_ok tbl = true ->
  forall t v, format ws iw tbl t = Some v -> vtoks v = tree_toks ws tbl t.
Proof.
  intros iw tbl Hok. induction t as [sy tx|p cs IH] using tree_ind2; intros v H.
  - simpl in H. inv H. simpl. apply app_nil_r.
  - rewrite format_node in H. simpl. destruct (nth_error tbl p) as [h|] eqn:Eh; [|discriminate].
    destruct (format_list (format ws iw tbl) cs) as [vs|] eqn:El; [|discriminate].
    destruct (length vs =? length (hrhs h)) eqn:En; [|discriminate]. apply Nat.eqb_eq in En.
    pose proof (nth_error_forallb _ _ _ _ _ Hok Eh) as Hh. unfold handler_toks_ok in Hh.
    destruct (etoks (length (hrhs h)) (hexpr h)) as [l|] eqn:Et; [|discriminate].
    apply atoms_eqb_eq in Hh. rewrite <- En in Et.
    rewrite (eval_toks _ _ _ _ _ H Et), <- normalise_toks, Hh.
    apply (expected_kept (tree_toks ws tbl) cs vs) with (pre := []); [|exact En].
    apply format_list_spec in El. clear - El IH.
    induction El as [|c v cs vs Hcv El IHl]; constructor.
    + inv IH. apply H1. exact Hcv.
    + apply IHl. inv IH. assumption.
Qed.

(* for trees that follow the table, [tree_toks] is the plain left-to-right list of the leaves, minus
   Indent / Dedent / "\n" and white-space-only tokens *)
Lemma tree_wf_node : forall tbl p cs, tree_wf tbl (Node p cs) ->
  exists h, nth_error tbl p = Some h /\ map (root_sym tbl) cs = map Some (hrhs h) /\ Forall (tree_wf tbl) cs.
Proof.
  intros tbl p cs H. simpl in H. destruct (nth_error tbl p) as [h|]; [|contradiction].
  destruct H as [H1 H2]. exists h. split; [reflexivity|]. split; [exact H1|].
  clear H1. induction cs as [|c cs IH]; [constructor|]. constructor; [apply H2|apply IH; apply H2].
Qed.

Lemma kept_leaves : forall tbl, droppable_terminal tbl = true ->
  forall cs rhs,
  Forall (fun t => tree_wf tbl t -> (forall s, root_sym tbl t = Some s -> droppable s = false) ->
                   tree_toks ws tbl t = leaf_toks ws t) cs ->
  Forall (tree_wf tbl) cs -> map (root_sym tbl) cs = map Some rhs ->
  kept_toks (tree_toks ws tbl) rhs cs = flat_map (leaf_toks ws) cs.
Proof.
  intros tbl Hd. induction cs as [|c cs IHc]; intros rhs HI Hw Hm; [reflexivity|].
  destruct rhs as [|s rhs]; [discriminate|]. simpl in Hm. injection Hm as Hs Hm.
  inv HI. inv Hw. simpl. rewrite (IHc rhs H2 H4 Hm). f_equal.
  destruct (droppable s) eqn:Ed.
  - destruct c as [sy tx|p' cs'].
    + simpl in Hs. inv Hs. simpl. rewrite Ed. reflexivity.
    + simpl in Hs. destruct (nth_error tbl p') as [h'|] eqn:E'; [|discriminate]. simpl in Hs. inv Hs.
      unfold droppable_terminal in Hd. pose proof (nth_error_forallb _ _ _ _ _ Hd E') as Hn.
      simpl in Hn. rewrite Ed in Hn. discriminate.
  - apply H1; [exact H3|]. intros s' Hs'. rewrite Hs in Hs'. inv Hs'. exact Ed.
Qed.

Theorem tree_toks_leaves : forall tbl, droppable_terminal tbl = true ->
  forall t, tree_wf tbl t -> (forall s, root_sym tbl t = Some s -> droppable s = false) ->
  tree_toks ws tbl t = leaf_toks ws t.
Proof.
  intros tbl Hd. induction t as [sy tx|p cs IH] using tree_ind2; intros Hwf Hr.
  - simpl. rewrite (Hr sy eq_refl). reflexivity.
  - apply tree_wf_node in Hwf. destruct Hwf as [h [Eh [Hm Hw]]]. simpl. rewrite Eh.
    apply (kept_leaves tbl Hd cs (hrhs h) IH Hw Hm).
Qed.


Theorem format_text_toks : forall iw tbl, table_toks_ok tbl = true ->
  forall t s, format_text ws iw tbl t = Some s ->
  exists g, format ws iw tbl t = Some (VStr g) /\ flat g = s /\ gtoks g = tree_toks ws tbl t.
Proof.
  intros iw tbl Hok t s H. unfold format_text in H.
  destruct (format ws iw tbl t) as [[g| | | |]|] eqn:E; try discriminate. inv H.
  exists g. split; [reflexivity|]. split; [reflexivity|]. apply (format_toks iw tbl Hok t _ E).
Qed.

End Toks.

(* ---- Part 2: idempotence of the normalisation passes (partial results towards fmt (fmt t) = fmt t) ---- *)
Lemma ibc_go_idem : forall l, ibc_go (fst (ibc_go l)) = ibc_go l.
Proof.
  induction l as [|r l IH]; [reflexivity|].
  simpl. destruct (ibc_go l) as [res pi] eqn:E. simpl in IH.
  destruct (row_blank r || seqb (rname r) name_comment) eqn:B; simpl; rewrite IH.
  - unfold row_blank in *. simpl. rewrite B. reflexivity.
  - rewrite B. reflexivity.
Qed.
Lemma indent_blanks_idem : forall l,
  indent_blanks_and_comments (indent_blanks_and_comments l) = indent_blanks_and_comments l.
Proof. intros. unfold indent_blanks_and_comments. rewrite ibc_go_idem. reflexivity. Qed.

Lemma grstrip_idem : forall ws g, grstrip ws (grstrip ws g) = grstrip ws g.
Proof.
  intros ws. induction g as [|p g IH]; [reflexivity|].
  simpl. destruct (grstrip ws g) as [|p0 l] eqn:E.
  - destruct (rstrip ws (ptext p)) as [|c t] eqn:R; [reflexivity|].
    simpl. assert (Hp : ptext (set_ptext p (c :: t)) = c :: t) by (destruct p; reflexivity).
    rewrite Hp, <- R, rstrip_idem, R. destruct p; reflexivity.
  - change (grstrip ws (p :: p0 :: l)) with
      (match grstrip ws (p0 :: l) with
       | [] => match rstrip ws (ptext p) with [] => [] | t => [set_ptext p t] end
       | r => p :: r end).
    rewrite IH. reflexivity.
Qed.

Lemma dedent_go_idem : forall l pi pb, dedent_go pi pb (dedent_go pi pb l) = dedent_go pi pb l.
Proof.
  induction l as [|r l IH]; intros pi pb; [reflexivity|].
  simpl. destruct ((rindent r <? pi) && negb pb && negb (row_blank r)) eqn:C.
  - simpl. rewrite andb_false_r. simpl. rewrite Nat.ltb_irrefl. simpl. rewrite IH. reflexivity.
  - simpl. rewrite C, IH. reflexivity.
Qed.
Lemma add_blank_rows_idem : forall l,
  add_blank_rows_on_dedent (add_blank_rows_on_dedent l) = add_blank_rows_on_dedent l.
Proof. intros. apply dedent_go_idem. Qed.

(* ---- Part 3: totality on the string fragment (partial result towards format_total) ---- *)
Definition is_vstr (v : value) : Prop := exists g, v = VStr g.
Definition has_skind (v : value) (k : skind) : Prop :=
  match k with KStr => exists g, v = VStr g | KStrs => exists ss, v = vstrs ss end.

Lemma as_strs_map : forall ss, as_strs (map IStr ss) = Some ss.
Proof. induction ss as [|s ss IH]; [reflexivity|]. simpl. rewrite IH. reflexivity. Qed.

Lemma get_strs_vstrs : forall ss, get_strs (Some (vstrs ss)) = Some ss.
Proof. intros. unfold vstrs. simpl. apply as_strs_map. Qed.

Lemma items_of_vstrs : forall args, Forall is_vstr args -> exists ss, items_of args = Some (map IStr ss).
Proof.
  induction 1 as [|v args [g ->] H IH]; [exists []; reflexivity|].
  destruct IH as [ss E]. exists (g :: ss). simpl. rewrite E. reflexivity.
Qed.

Lemma nth_vstr : forall args i, Forall is_vstr args -> i < length args -> exists g, nth_error args i = Some (VStr g).
Proof.
  intros args i H. revert i. induction H as [|v args [g ->] H IH]; intros i Hi; simpl in Hi; [lia|].
  destruct i; [exists g; reflexivity|]. apply IH. lia.
Qed.

Lemma scond_total : forall args c, Forall is_vstr args -> scond (length args) c = true -> exists b, ceval args c = Some b.
Proof.
  intros args c Ha. induction c; simpl; intro H.
  - apply Nat.ltb_lt in H. destruct (nth_vstr _ _ Ha H) as [g E]. rewrite E. simpl. eauto.
  - destruct (IHc H) as [b E]. rewrite E. simpl. eauto.
  - apply andb_true_iff in H. destruct H as [H1 H2]. destruct (IHc1 H1) as [b1 E1]. rewrite E1.
    destruct b1; [apply IHc2; exact H2|eauto].
  - apply Nat.ltb_lt in H. destruct (nth_vstr _ _ Ha H) as [g E]. rewrite E. eauto.
  - apply Nat.ltb_lt in H. destruct (nth_vstr _ _ Ha H) as [g E]. rewrite E. eauto.
  - discriminate.
Qed.

Lemma sty_total : forall ws iw args, Forall is_vstr args ->
  forall e k, sty (length args) e = Some k -> exists v, eval ws iw args e = Some v /\ has_skind v k.
Proof.
  intros ws iw args Ha. induction e; intros k H; simpl in H; try discriminate.
  - destruct (i <? length args) eqn:E; [|discriminate]. inv H. apply Nat.ltb_lt in E.
    destruct (nth_vstr _ _ Ha E) as [g Eg]. exists (VStr g). simpl. split; [exact Eg|eauto].
  - inv H. destruct (items_of_vstrs _ Ha) as [ss E]. exists (vstrs ss). simpl. rewrite E. simpl. split; [reflexivity|exists ss; reflexivity].
  - inv H. eexists. split; [reflexivity|]. simpl. eauto.
  - inv H. eexists. split; [reflexivity|]. exists []. reflexivity.
  - destruct (sty (length args) e1) as [[|]|]; try discriminate. destruct (sty (length args) e2) as [[|]|]; try discriminate. inv H.
    destruct (IHe1 _ eq_refl) as [v1 [E1 [g ->]]]. destruct (IHe2 _ eq_refl) as [v2 [E2 [ss ->]]].
    simpl. rewrite E1, E2. simpl. eexists. split; [reflexivity|]. exists (g :: ss). reflexivity.
  - destruct (sty (length args) e1) as [[|]|]; try discriminate; destruct (sty (length args) e2) as [[|]|]; try discriminate; inv H.
    + destruct (IHe1 _ eq_refl) as [v1 [E1 [g1 ->]]]. destruct (IHe2 _ eq_refl) as [v2 [E2 [g2 ->]]].
      simpl. rewrite E1, E2. eexists. split; [reflexivity|]. simpl. eauto.
    + destruct (IHe1 _ eq_refl) as [v1 [E1 [s1 ->]]]. destruct (IHe2 _ eq_refl) as [v2 [E2 [s2 ->]]].
      simpl. rewrite E1, E2. unfold vstrs. eexists. split; [reflexivity|]. exists (s1 ++ s2). unfold vstrs. rewrite map_app. reflexivity.
  - destruct (sty (length args) e) as [[|]|]; try discriminate. inv H.
    destruct (IHe _ eq_refl) as [v [E [ss ->]]]. simpl. rewrite E, get_strs_vstrs. simpl.
    eexists. split; [reflexivity|]. simpl. eexists; reflexivity.
  - destruct (sty (length args) e) as [[|]|]; try discriminate. inv H.
    destruct (IHe _ eq_refl) as [v [E [ss ->]]]. simpl. rewrite E, get_strs_vstrs. simpl.
    eexists. split; [reflexivity|]. simpl. eexists; reflexivity.
  - destruct (sty (length args) e) as [[|]|]; try discriminate. inv H.
    destruct (IHe _ eq_refl) as [v [E [ss ->]]]. simpl. rewrite E, get_strs_vstrs. simpl.
    eexists. split; [reflexivity|]. simpl. eexists; reflexivity.
  - destruct (sty (length args) e) as [[|]|]; try discriminate. inv H.
    destruct (IHe _ eq_refl) as [v [E [g ->]]]. simpl. rewrite E. eexists. split; [reflexivity|]. simpl. eauto.
  - destruct (scond (length args) c) eqn:Ec; [|discriminate].
    destruct (sty (length args) e1) as [x|]; [|discriminate]. destruct (sty (length args) e2) as [y|]; [|discriminate].
    destruct (skind_eqb x y) eqn:Ek; [|discriminate]. inv H.
    assert (y = k) as -> by (destruct k, y; try discriminate; reflexivity).
    destruct (scond_total _ _ Ha Ec) as [b Eb]. simpl. rewrite Eb. destruct b; [apply IHe1|apply IHe2]; reflexivity.
Qed.

Lemma forallb_Forall : forall (A : Type) (f : A -> bool) l, forallb f l = true -> Forall (fun x => f x = true) l.
Proof. intros. apply Forall_forall. apply forallb_forall. assumption. Qed.

Theorem format_total_strings : forall ws iw tbl t, str_tree tbl t = true -> exists g, format ws iw tbl t = Some (VStr g).
Proof.
  intros ws iw tbl. induction t as [sy tx|p cs IH] using tree_ind2; intro H.
  - simpl. eauto.
  - rewrite format_node. simpl in H. destruct (nth_error tbl p) as [h|]; [|discriminate].
    apply andb_true_iff in H. destruct H as [H H3]. apply andb_true_iff in H. destruct H as [H1 H2].
    apply Nat.eqb_eq in H2. apply forallb_Forall in H3.
    assert (Hl : exists vs, format_list (format ws iw tbl) cs = Some vs /\ Forall is_vstr vs /\ length vs = length cs).
    { clear H2. induction cs as [|c cs IHc]; [exists []; repeat split; constructor|].
      inversion IH as [|c' cs' Hc Hcs]; subst. inversion H3 as [|c'' cs'' Sc Scs]; subst.
      destruct (Hc Sc) as [g Eg]. destruct (IHc Hcs Scs) as [vs [E [F L]]].
      exists (VStr g :: vs). simpl. rewrite Eg, E. repeat split; [constructor; [exists g; reflexivity|exact F]|simpl; rewrite L; reflexivity]. }
    destruct Hl as [vs [E [F L]]]. rewrite E. rewrite L, H2, Nat.eqb_refl.
    unfold str_handler in H1. destruct (sty (length (hrhs h)) (hexpr h)) as [[|]|] eqn:Es; try discriminate.
    rewrite <- H2, <- L in Es. destruct (sty_total ws iw vs F _ _ Es) as [v [Ev [g ->]]]. exists g. exact Ev.
Qed.

(* ---- a small instance: the hypotheses are satisfiable and the statement is not vacuous ---- *)
Definition toy_ws (c : N) : bool := (c =? 32)%N.
Definition toy_fmt_table : list handler :=
  [ mkHandler [97]%N [[88]; [73;110;100;101;110;116]; [89]]%N
      (EAdd (EAdd (EArg 0) (ELit [32;32]%N)) (ERstrip (EArg 2))) ].
Definition toy_tree : tree :=
  Node 0 [Leaf [88]%N [120]%N; Leaf [73;110;100;101;110;116]%N [32;32]%N; Leaf [89]%N [121;32]%N].

Lemma toy_fmt_example_proof :
  table_toks_ok toy_fmt_table = true /\ droppable_terminal toy_fmt_table = true /\
  tree_wf toy_fmt_table toy_tree /\
  format_text toy_ws 2 toy_fmt_table toy_tree = Some [120; 32; 32; 121]%N /\
  leaf_toks toy_ws toy_tree = [([88], [120]); ([89], [121])]%N.
Proof. repeat split; vm_compute; auto. Qed.
