(* Gallina mirror of compiler/front_end/tokenizer.py (definitions only).

   tokenize(text) = for each line of text.splitlines():
       _tokenize_line (longest match over literals then regexes, ties to the earlier pattern)
       comment-only / blank lines: tokens + newline token, no Indent/Dedent processing
       other lines: Indent / Dedent* / "Bad indentation" from the leading white space, tokens, newline token
     then one Dedent per still-open level at (last_line + 1, 1).

   Strings are lists of code points; positions are 1-based (line, column) pairs
   with the token's end column exclusive, exactly as parser_types.SourceLocation. *)
From Coq Require Import NArith List Bool Arith PeanoNat.
Import ListNotations.
Require Import EmbossV.Lex.Regex.

Record token := mkTok { sym : str; text : str; line : nat; c0 : nat; c1 : nat }.

(* The pattern table; regenerated from tokenizer.py on every run.
   [wsr] = the code points for which Python's str.isspace() holds (what lstrip() removes;
   the same set is used for \s inside the regexes by the translator). *)
Record table := mkTable {
  lits : list str;
  pats : list (re * option str);
  wsr : list (N * N)
}.

Definition is_ws (T : table) (c : N) : bool := in_ranges (wsr T) c.

(* ---- fixed symbols of tokenize() ---- *)
Definition indent_sym : str := [73;110;100;101;110;116]%N.          (* Indent *)
Definition dedent_sym : str := [68;101;100;101;110;116]%N.          (* Dedent *)
Definition newline_sym : str := [34;92;110;34]%N.                   (* "\n" (4 characters) *)
Definition comment_sym : str := [67;111;109;109;101;110;116]%N.     (* Comment *)

Fixpoint str_eqb (a b : str) : bool :=
  match a, b with
  | [], [] => true
  | x :: a', y :: b' => (x =? y)%N && str_eqb a' b'
  | _, _ => false
  end.

Fixpoint prefixb (p s : str) : bool :=
  match p, s with
  | [], _ => true
  | x :: p', y :: s' => (x =? y)%N && prefixb p' s'
  | _ :: _, [] => false
  end.

(* ---- str.splitlines() ---- *)
Definition is_break (c : N) : bool :=
  match c with
  | 10 | 11 | 12 | 13 | 28 | 29 | 30 | 133 | 8232 | 8233 => true
  | _ => false
  end%N.

Fixpoint splitlines (s : str) : list str :=
  match s with
  | [] => []
  | c :: s' =>
      if is_break c then
        [] :: match s' with
              | d :: s'' => if ((c =? 13) && (d =? 10))%N then splitlines s'' else splitlines s'
              | [] => []
              end
      else match splitlines s' with
           | [] => [[c]]
           | l :: ls => (c :: l) :: ls
           end
  end.

(* ---- one pattern of the table, literals and regexes seen uniformly ---- *)
Inductive pattern := PLit (l : str) | PRe (r : re) (s : option str).

Definition quote (l : str) : str := (34 :: l ++ [34])%N.

Definition all_pats (T : table) : list pattern :=
  map PLit (lits T) ++ map (fun p => PRe (fst p) (snd p)) (pats T).

(* what the pattern consumes at the start of s: str.startswith / re.match (LONGEST match assumed) *)
Definition pat_len (p : pattern) (s : str) : option nat :=
  match p with
  | PLit l => if prefixb l s then Some (length l) else None
  | PRe r _ => longest r s
  end.

Definition pat_sym (p : pattern) : option str :=
  match p with
  | PLit l => Some (quote l)
  | PRe _ s => s
  end.

(* `len(candidate) > len(best_candidate)`: strictly longer wins *)
Definition best_step (s : str) (acc : nat * option str) (p : pattern) : nat * option str :=
  match pat_len p s with
  | Some n => if fst acc <? n then (n, pat_sym p) else acc
  | None => acc
  end.

Definition best (T : table) (s : str) : nat * option str :=
  fold_left (best_step s) (all_pats T) (0, None).

(* ---- _tokenize_line ---- *)
Inductive line_result := LOk (ts : list token) | LErr (off : nat) | LFuel.

Fixpoint tl_loop (T : table) (fuel ln off : nat) (s : str) : line_result :=
  match s with
  | [] => LOk []
  | _ :: _ =>
      match fuel with
      | 0 => LFuel
      | S fuel' =>
          match best T s with
          | (0, _) => LErr off
          | (S _ as n, osym) =>
              match tl_loop T fuel' ln (off + n) (skipn n s) with
              | LOk ts =>
                  LOk (match osym with
                       | Some sy => mkTok sy (firstn n s) ln (S off) (S (off + n)) :: ts
                       | None => ts
                       end)
              | e => e
              end
          end
      end
  end.

Definition tokenize_line (T : table) (ln : nat) (L : str) : line_result :=
  tl_loop T (length L) ln 0 L.

(* ---- Indent / Dedent ---- *)
Fixpoint take_ws (T : table) (L : str) : str :=
  match L with
  | c :: L' => if is_ws T c then c :: take_ws T L' else []
  | [] => []
  end.

Definition newline_tok (ln : nat) (L : str) : token :=
  mkTok newline_sym [10%N] ln (S (length L)) (S (length L)).
Definition indent_tok (ln : nat) (top lw : str) : token :=
  mkTok indent_sym (skipn (length top) lw) ln (S (length top)) (S (length lw)).
Definition dedent_tok (ln col : nat) : token := mkTok dedent_sym [] ln col col.

Definition all_comment (ts : list token) : bool :=
  forallb (fun t => str_eqb (sym t) comment_sym) ts.

(* the stack has its top at the head *)
Fixpoint pop_until (ln : nat) (lw : str) (st : list str) : option (list token * list str) :=
  match st with
  | [] => None
  | x :: st' =>
      if str_eqb lw x then Some ([], st)
      else match pop_until ln lw st' with
           | None => None
           | Some (ds, st'') => Some (dedent_tok ln (S (length lw)) :: ds, st'')
           end
  end.

Inductive indent_result := IOk (pre : list token) (st : list str) | IBad | IEmpty.

Definition indent_step (ln : nat) (st : list str) (lw : str) : indent_result :=
  match st with
  | [] => IEmpty
  | top :: _ =>
      if str_eqb lw top then IOk [] st
      else if prefixb top lw then IOk [indent_tok ln top lw] (lw :: st)
      else match pop_until ln lw st with
           | Some (ds, st') => IOk ds st'
           | None => IBad
           end
  end.

(* ---- tokenize ---- *)
Inductive result :=
| Toks (ts : list token)
| ErrToken (ln a b : nat)       (* "Unrecognized token" at (ln,a)-(ln,b) *)
| ErrIndent (ln a b : nat)      (* "Bad indentation"    at (ln,a)-(ln,b) *)
| ErrInternal.                  (* out of fuel / empty stack: proved unreachable *)

Definition prepend (xs : list token) (r : result) : result :=
  match r with Toks ys => Toks (xs ++ ys) | e => e end.

Fixpoint tok_lines (T : table) (ln : nat) (st : list str) (lines : list str) : result :=
  match lines with
  | [] => Toks (repeat (dedent_tok (S ln) 1) (pred (length st)))
  | L :: rest =>
      match tokenize_line T (S ln) L with
      | LFuel => ErrInternal
      | LErr off => ErrToken (S ln) (S off) (S (S off))
      | LOk lts =>
          if all_comment lts then
            prepend (lts ++ [newline_tok (S ln) L]) (tok_lines T (S ln) st rest)
          else
            match indent_step (S ln) st (take_ws T L) with
            | IEmpty => ErrInternal
            | IBad => ErrIndent (S ln) 1 (S (length (take_ws T L)))
            | IOk pre st' =>
                prepend (pre ++ lts ++ [newline_tok (S ln) L]) (tok_lines T (S ln) st' rest)
            end
      end
  end.

Definition tokenize_lines (T : table) (lines : list str) : result := tok_lines T 0 [[]] lines.
Definition tokenize (T : table) (s : str) : result := tokenize_lines T (splitlines s).
