(* str.splitlines(): the lines and the terminators rebuild the text; lines contain no terminator. *)
From Coq Require Import NArith List Bool Lia Arith PeanoNat.
Import ListNotations.
Require Import EmbossV.Lex.Regex EmbossV.Lex.Tokenizer EmbossV.Lex.Spec.

Fixpoint join (ls ts : list str) : str :=
  match ls, ts with
  | l :: ls', t :: ts' => l ++ t ++ join ls' ts'
  | _, _ => []
  end.

Lemma splitlines_nil : forall s, splitlines s = [] -> s = [].
Proof.
  intros [|c s]; simpl; auto. destruct (is_break c); [discriminate|].
  destruct (splitlines s); discriminate.
Qed.

Definition split_ok (s : str) : Prop :=
  exists terms,
    length terms = length (splitlines s) /\
    join (splitlines s) terms = s /\
    Forall no_break (splitlines s) /\
    Forall (fun t => is_terminator t \/ t = []) terms.

Lemma split_ok_nil : split_ok [].
Proof. exists []. simpl. repeat split; constructor. Qed.

Lemma split_ok_break : forall w rest, is_terminator w -> split_ok rest ->
  splitlines (w ++ rest) = [] :: splitlines rest -> split_ok (w ++ rest).
Proof.
  intros w rest Hw (terms & Hl & Hj & Hn & Ht) E. exists (w :: terms). rewrite E. simpl.
  repeat split; auto.
  - rewrite Hj. auto.
  - constructor; auto. constructor.
Qed.

Lemma splitlines_rebuild_proof : forall s, split_ok s.
Proof.
  intros s. remember (length s) as n eqn:En. revert s En.
  induction n as [n IH] using (well_founded_induction lt_wf). intros s En.
  destruct s as [|c s']; [apply split_ok_nil|].
  destruct (is_break c) eqn:Eb.
  - destruct s' as [|d s''].
    + exists [[c]]. simpl. rewrite Eb. simpl. split; [auto|]. split; [auto|]. split.
      * constructor; constructor.
      * constructor; [|constructor]. left. right. exists c. auto.
    + destruct ((c =? 13) && (d =? 10))%N eqn:Ecr.
      * apply andb_prop in Ecr as [E1 E2]. apply N.eqb_eq in E1, E2. subst c d.
        change (13%N :: 10%N :: s'') with ([13%N; 10%N] ++ s''). apply split_ok_break.
        -- left. auto.
        -- apply (IH (length s'')); auto. subst n. simpl. lia.
        -- reflexivity.
      * change (c :: d :: s'') with ([c] ++ d :: s''). apply split_ok_break.
        -- right. exists c. auto.
        -- apply (IH (length (d :: s''))); auto. subst n. simpl. lia.
        -- simpl. rewrite Eb, Ecr. reflexivity.
  - assert (Hs' : split_ok s') by (apply (IH (length s')); auto; subst n; simpl; lia).
    destruct Hs' as (terms & Hl & Hj & Hn & Ht).
    unfold split_ok. simpl. rewrite Eb. destruct (splitlines s') as [|l ls] eqn:Es.
    + apply splitlines_nil in Es. subst s'. exists [[]]. simpl. split; [auto|]. split; [auto|]. split.
      * constructor; [|constructor]. constructor; [auto|constructor].
      * constructor; [|constructor]. right. auto.
    + destruct terms as [|t ts]; [discriminate|]. exists (t :: ts). simpl in *.
      repeat split; auto.
      * rewrite Hj. auto.
      * inversion Hn; subst. constructor; auto. constructor; auto.
Qed.
