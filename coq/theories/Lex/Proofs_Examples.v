(* Witnesses: statements the faithful model refutes, and satisfiability of the guards. *)
From Coq Require Import NArith List Bool Lia Arith.
Import ListNotations.
Require Import EmbossV.Lex.Regex EmbossV.Lex.Tokenizer EmbossV.Lex.Spec.

(* a two-row table: [a-z]+ -> W ; ' '+ -> skipped *)
Definition toy_table : table :=
  mkTable [] [(Plus (Chr false [(97, 122)%N]), Some [87%N]); (Plus (Chr false [(32, 32)%N]), None)] [(32, 32)%N].

Lemma toy_guards_proof : reserved_free toy_table = true /\ skips_only_ws toy_table = true.
Proof. split; reflexivity. Qed.

(* "a\n b" : the block opened on the last line is closed by a Dedent placed on line 3 of a 2-line text *)
Definition eof_witness : str := [97; 10; 32; 98]%N.

Lemma toy_tokenizes_proof :
  tokenize toy_table eof_witness =
  Toks [mkTok [87%N] [97%N] 1 1 2; mkTok newline_sym [10%N] 1 2 2;
        mkTok indent_sym [32%N] 2 1 2; mkTok [87%N] [98%N] 2 2 3; mkTok newline_sym [10%N] 2 3 3;
        mkTok dedent_sym [] 3 1 1].
Proof. vm_compute. reflexivity. Qed.

(* the unguarded position statement is false: a non-newline token lies outside the text *)
Lemma eof_dedent_refuted_proof :
  exists T s ts t, reserved_free T = true /\ tokenize T s = Toks ts /\ In t ts /\
                   sym t <> newline_sym /\ length (splitlines s) < line t.
Proof.
  exists toy_table, eof_witness. eexists. exists (mkTok dedent_sym [] 3 1 1).
  split; [reflexivity|]. split; [apply toy_tokenizes_proof|]. split; [simpl; tauto|].
  split; [discriminate|]. vm_compute. lia.
Qed.

(* the newline token's text "\n" is not the (empty) source slice at its zero-width location;
   here the text "a" contains no newline character at all *)
Lemma newline_text_refuted_proof :
  exists T s ts t L, reserved_free T = true /\ tokenize T s = Toks ts /\ In t ts /\
                     nth_error (splitlines s) (line t - 1) = Some L /\ ~ slice_of L t.
Proof.
  exists toy_table, [97%N]. eexists. exists (mkTok newline_sym [10%N] 1 2 2), [97%N].
  split; [reflexivity|]. split; [vm_compute; reflexivity|]. split; [simpl; tauto|].
  split; [reflexivity|]. unfold slice_of. simpl. intros (_ & H & _). discriminate.
Qed.
