(* C11, token level (definitions only): the criterion "same token sequence up to white space,
   blank lines and surrounding blanks in token texts", and a mirror of
   format_emb.sanity_check_format_result / _collapse_newline_tokens. *)
From Coq Require Import NArith List Bool Arith.
Import ListNotations.
Require Import EmbossV.Lex.Regex EmbossV.Lex.Tokenizer.

(* str.strip() *)
Fixpoint drop_ws (T : table) (w : str) : str :=
  match w with
  | c :: w' => if is_ws T c then drop_ws T w' else w
  | [] => []
  end.
Definition strip (T : table) (w : str) : str := rev (drop_ws T (rev (drop_ws T w))).

Definition is_newline (t : token) : bool := str_eqb (sym t) newline_sym.

(* _collapse_newline_tokens: itertools.groupby on the symbol; a run of newline tokens becomes its
   first token, and is dropped entirely when nothing has been emitted yet *)
Fixpoint collapse_go (started prev_nl : bool) (ts : list token) : list token :=
  match ts with
  | [] => []
  | t :: ts' =>
      if is_newline t then
        if prev_nl then collapse_go started true ts'
        else if started then t :: collapse_go true true ts'
        else collapse_go false true ts'
      else t :: collapse_go true false ts'
  end.
Definition collapse (ts : list token) : list token := collapse_go false false ts.

Definition tok_equiv (T : table) (a b : token) : Prop :=
  sym a = sym b /\ strip T (text a) = strip T (text b).
Definition tok_equivb (T : table) (a b : token) : bool :=
  str_eqb (sym a) (sym b) && str_eqb (strip T (text a)) (strip T (text b)).

(* THE CRITERION: after collapsing newline runs (leading ones entirely), same symbols and same
   texts modulo surrounding white space, position by position, same length *)
Definition fmt_equiv (T : table) (o f : list token) : Prop :=
  Forall2 (tok_equiv T) (collapse o) (collapse f).

Fixpoint forall2b {A} (p : A -> A -> bool) (a b : list A) : bool :=
  match a, b with
  | [], [] => true
  | x :: a', y :: b' => p x y && forall2b p a' b'
  | _, _ => false
  end.
Definition fmt_equivb (T : table) (o f : list token) : bool :=
  forall2b (tok_equivb T) (collapse o) (collapse f).

(* sanity_check_format_result (after fix 7fc177c):
     for i in range(min(len(o_tokens), len(f_tokens))): first differing position -> "Symbol i differs"
     then, if the lengths differ -> "Symbol count differs: len(o) vs len(f)"; otherwise no error *)
Inductive sc_result := ScOk | ScBug (i : nat) | ScCount (a b : nat).

Fixpoint first_mismatch (T : table) (i : nat) (o f : list token) : option nat :=
  match o, f with
  | a :: o', b :: f' => if tok_equivb T a b then first_mismatch T (S i) o' f' else Some i
  | _, _ => None
  end.

Definition sanity_tokens (T : table) (o f : list token) : sc_result :=
  match first_mismatch T 0 (collapse o) (collapse f) with
  | Some i => ScBug i
  | None =>
      if length (collapse o) =? length (collapse f) then ScOk
      else ScCount (length (collapse o)) (length (collapse f))
  end.

Inductive sanity := SanOrigNotTokenizable | SanFmtNotTokenizable | SanRes (r : sc_result).

Definition sanity_check (T : table) (formatted original : str) : sanity :=
  match tokenize T original with
  | Toks o => match tokenize T formatted with
              | Toks f => SanRes (sanity_tokens T o f)
              | _ => SanFmtNotTokenizable
              end
  | _ => SanOrigNotTokenizable
  end.

(* the whole check on texts, with the verified criterion *)
Inductive fmt_verdict := FvEquiv | FvDiffer | FvOrigNotTokenizable | FvFmtNotTokenizable.
Definition fmt_check (T : table) (original formatted : str) : fmt_verdict :=
  match tokenize T original with
  | Toks o => match tokenize T formatted with
              | Toks f => if fmt_equivb T o f then FvEquiv else FvDiffer
              | _ => FvFmtNotTokenizable
              end
  | _ => FvOrigNotTokenizable
  end.
