(* C11 (definitions only): the rendered line as a list of pieces vs the tokenizer model of C10.
   [pieces_fit T g]: at the start of every piece of the (normalised) line the tokenizer's longest-first choice
   ([Tokenizer.best]) is exactly that piece -- a token piece is matched with its own symbol, a literal piece
   (the blanks the formatter wrote) is skipped as white space.  Decidable; evaluated per produced line. *)
From Coq Require Import NArith List Bool Arith PeanoNat.
Import ListNotations.
Require Import EmbossV.Lex.Regex EmbossV.Lex.Tokenizer EmbossV.Lex.FmtModel.

(* drop empty pieces, merge adjacent literal pieces (the tokenizer skips a run of blanks at once) *)
Fixpoint gnorm (g : gstr) : gstr :=
  match g with
  | [] => []
  | p :: g' =>
      match ptext p with
      | [] => gnorm g'
      | _ => match p, gnorm g' with
             | GLit a, GLit b :: r => GLit (a ++ b) :: r
             | _, r => p :: r
             end
      end
  end.

Definition osym_eqb (a b : option str) : bool :=
  match a, b with Some x, Some y => seqb x y | None, None => true | _, _ => false end.
Definition best_is (T : table) (s : str) (n : nat) (o : option str) : bool :=
  let (m, o') := best T s in (m =? n) && osym_eqb o' o.

Fixpoint pieces_fit (T : table) (g : gstr) : bool :=
  match g with
  | [] => true
  | p :: g' =>
      negb (match ptext p with [] => true | _ => false end) &&
      best_is T (flat g) (length (ptext p)) (match p with GTok sy _ => Some sy | GLit _ => None end) &&
      pieces_fit T g'
  end.

(* the tokens the pieces stand for, with the columns _tokenize_line gives them *)
Fixpoint piece_tokens (ln off : nat) (g : gstr) : list token :=
  match g with
  | [] => []
  | GTok sy tx :: g' => mkTok sy tx ln (S off) (S (off + length tx)) :: piece_tokens ln (off + length tx) g'
  | GLit tx :: g' => piece_tokens ln (off + length tx) g'
  end.

(* (symbol, stripped text) of the non-blank tokens: the currency of format_preserves_tokens *)
Definition tokens_toks (ws : N -> bool) (ts : list token) : list (str * str) :=
  flat_map (fun t => ptoks ws (GTok (sym t) (text t))) ts.

(* the lines of a rendered text: split at the newline pieces _render_rows_to_text wrote *)
Definition is_nl (p : piece) : bool := match p with GLit [10%N] => true | _ => false end.
Fixpoint glines (g : gstr) : list gstr :=
  match g with
  | [] => [[]]
  | p :: g' => match glines g' with
               | l :: ls => if is_nl p then [] :: l :: ls else (p :: l) :: ls
               | [] => [[p]]
               end
  end.

(* harness glue: every line of a formatted text fits, and the tokens the pieces stand for *)
Definition text_fits (T : table) (g : gstr) : bool := forallb (fun l => pieces_fit T (gnorm l)) (glines g).
Definition text_piece_tokens (g : gstr) : list (str * str) :=
  flat_map (fun l => map (fun t => (sym t, text t)) (piece_tokens 0 0 (gnorm l))) (glines g).
