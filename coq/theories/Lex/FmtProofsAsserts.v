(* C11: derivation of the tree hypothesis [asserts_ok] of format_total (proofs about Lex/FmtAsserts.v).
   Part 1: a regex that passes [ends_line] matches, whenever it matches a prefix of a line, the whole line.
   Part 2: a Documentation-like token swallows its line; in every token list of the tokenizer model it is
           immediately followed by the newline token (tokenize_doc_then_newline).
   Part 3: trees of the grammar whose leaf symbols satisfy that token fact satisfy asserts_ok
           (asserts_ok_followed), given the static check [asserts_guarded] of the handler table.
   Part 4: the two combined (asserts_ok_tokenized) and format_total without the tree hypothesis. *)
From Coq Require Import NArith List Bool Arith PeanoNat Lia.
Import ListNotations.
Require Import EmbossV.Lex.Regex EmbossV.Lex.Tokenizer EmbossV.Lex.Spec.
Require Import EmbossV.Lex.Proofs_Line EmbossV.Lex.Proofs_Split EmbossV.Lex.Proofs_Lines.
Require Import EmbossV.Lex.FmtModel EmbossV.Lex.FmtProofs EmbossV.Lex.FmtTyping EmbossV.Lex.FmtProofsTotal.
Require Import EmbossV.Lex.FmtAsserts.

(* ---------- Part 1: regular expressions ---------- *)
Definition no_nl (s : str) : Prop := Forall (fun c => c <> 10%N) s.

Lemma no_nl_skipn : forall n s, no_nl s -> no_nl (skipn n s).
Proof.
  induction n as [|n IH]; intros s H; [exact H|]. destruct s as [|c s]; [exact H|].
  simpl. apply IH. inversion H; assumption.
Qed.

Lemma all_but_nl_mem : forall neg rs c, all_but_nl neg rs = true -> c <> 10%N -> cls_mem neg rs c = true.
Proof.
  intros neg rs c H Hc. unfold all_but_nl in H. apply andb_prop in H. destruct H as [Hneg H]. subst neg.
  unfold cls_mem. destruct (in_ranges rs c) eqn:E; [|reflexivity]. exfalso.
  unfold in_ranges in E. apply existsb_exists in E. destruct E as [r [Hin Hr]].
  rewrite forallb_forall in H. apply H in Hin. apply andb_prop in Hin. destruct Hin as [H1 H2].
  apply N.eqb_eq in H1. apply N.eqb_eq in H2. rewrite H1, H2 in Hr.
  apply andb_prop in Hr. destruct Hr as [A B]. apply N.leb_le in A. apply N.leb_le in B. apply Hc. lia.
Qed.

Lemma star_chr_all : forall neg rs w, Forall (fun c => cls_mem neg rs c = true) w ->
  forall rest, matches (Star (Chr neg rs)) w rest.
Proof.
  induction 1 as [|x l Hx Hl IH]; intros rest; [constructor|].
  change (x :: l) with ([x] ++ l). apply MStarS; [constructor; exact Hx|apply IH].
Qed.

Lemma star_chr_inv : forall a w rest, matches a w rest ->
  forall neg rs, a = Star (Chr neg rs) -> Forall (fun c => cls_mem neg rs c = true) w.
Proof.
  induction 1; intros neg0 rs0 E; try discriminate.
  - constructor.
  - injection E as E. subst a. apply Forall_app. split.
    + inversion H; subst. constructor; [assumption|constructor].
    + apply IHmatches2. reflexivity.
Qed.

Lemma ends_line_sound : forall r, ends_line r = true ->
  forall w rest, matches r w rest -> no_nl rest -> matches r (w ++ rest) [].
Proof.
  induction r; simpl; intros He w rest Hm Hn; try discriminate.
  - apply matches_eol in Hm. destruct Hm as [Hw Hr]. subst. constructor.
  - apply matches_cat in Hm. destruct Hm as (w1 & w2 & Hw & H1 & H2). subst w.
    rewrite <- app_assoc. apply matches_cat. exists w1, (w2 ++ rest). split; [reflexivity|].
    rewrite app_nil_r. split; [exact H1|]. apply IHr2; assumption.
  - apply andb_prop in He. destruct He as [E1 E2]. apply matches_alt in Hm. apply matches_alt.
    destruct Hm as [Hm|Hm]; [left; apply IHr1|right; apply IHr2]; assumption.
  - destruct r; try discriminate.
    pose proof (star_chr_inv _ _ _ Hm _ _ eq_refl) as Hw.
    apply star_chr_all. apply Forall_app. split; [exact Hw|].
    eapply Forall_impl; [|exact Hn]. intros c Hc. simpl. apply all_but_nl_mem; assumption.
Qed.

Lemma pref_full : forall r s n, ends_line r = true -> no_nl s -> pref r s n -> pref r s (length s).
Proof.
  intros r s n He Hn [Hle Hm]. split; [lia|]. rewrite firstn_all, skipn_all.
  pose proof (ends_line_sound r He _ _ Hm (no_nl_skipn n s Hn)) as X. rewrite firstn_skipn in X. exact X.
Qed.

(* the longest match of such a regex on a line is the whole line *)
Lemma longest_ends_line : forall r s n, ends_line r = true -> no_nl s -> longest r s = Some n -> n = length s.
Proof.
  intros r s n He Hn H. apply longest_some in H. destruct H as [Hp Hmax].
  pose proof (Hmax _ (pref_full _ _ _ He Hn Hp)) as H1. destruct Hp as [H2 _]. lia.
Qed.

(* ---------- Part 2: the tokenizer ---------- *)
Lemma seqb_str_eqb : forall a b, seqb a b = str_eqb a b.
Proof. reflexivity. Qed.

Lemma seqb_neq : forall a b, a <> b -> seqb a b = false.
Proof. intros a b H. destruct (seqb a b) eqn:E; [|reflexivity]. apply seqb_eq in E. contradiction. Qed.

Lemma best_sym_full : forall T d s n, sym_ends_line T d = true -> no_nl s -> best T s = (n, Some d) -> n = length s.
Proof.
  intros T d s n Hs Hn Hb. apply best_spec in Hb.
  destruct Hb as [(_ & Ho & _)|(Hpos & before & p & after & Hps & Ha & Hsym & Hall & _)]; [discriminate|].
  assert (Hin : In p (all_pats T)) by (rewrite Hps; apply in_or_app; right; left; reflexivity).
  unfold sym_ends_line in Hs. apply andb_prop in Hs. destruct Hs as [Hl Hp].
  pose proof Hin as Hin'. unfold all_pats in Hin'. apply in_app_or in Hin'.
  destruct Hin' as [Hi|Hi]; apply in_map_iff in Hi; destruct Hi as (x & Hx1 & Hx); subst p.
  - simpl in Hsym. injection Hsym as Hq. rewrite forallb_forall in Hl. apply Hl in Hx.
    rewrite Hq, str_eqb_refl in Hx. discriminate.
  - simpl in Hsym, Ha. rewrite forallb_forall in Hp. apply Hp in Hx. rewrite Hsym, str_eqb_refl in Hx.
    pose proof (pref_full _ _ _ Hx Hn Ha) as Hf.
    assert (Hge : length s <= n) by (apply (Hall _ _ Hin); exact Hf).
    destruct Ha as [Hle _]. lia.
Qed.

Lemma fs_app : forall d n a b, followed_strict d n a = true -> followed_strict d n b = true ->
  followed_strict d n (a ++ b) = true.
Proof.
  induction a as [|x a IH]; simpl; intros b Ha Hb; [exact Hb|].
  apply andb_prop in Ha. destruct Ha as [H1 H2]. rewrite (IH _ H2 Hb), andb_true_r.
  destruct (seqb x d); [|reflexivity]. destruct a; [discriminate|]. exact H1.
Qed.

Lemma fs_none : forall d n l, Forall (fun x => seqb x d = false) l -> followed_strict d n l = true.
Proof. induction 1 as [|x l Hx Hl IH]; simpl; [reflexivity|]. rewrite Hx, IH. reflexivity. Qed.

Lemma fs_followed : forall d n l, followed_strict d n l = true -> followed d n l = true.
Proof.
  induction l as [|x l IH]; simpl; intro H; [reflexivity|]. apply andb_prop in H. destruct H as [H1 H2].
  rewrite (IH H2), andb_true_r. destruct (seqb x d); [|reflexivity]. destruct l; [discriminate|exact H1].
Qed.

(* one line: a token with symbol d is the last token of its line, so the newline token comes next *)
Lemma line_toks_sym_last : forall T d nl ln off s ts, sym_ends_line T d = true -> seqb nl d = false ->
  line_toks T ln off s ts -> no_nl s -> followed_strict d nl (map sym ts ++ [nl]) = true.
Proof.
  intros T d nl ln off s ts Hs Hnd H. induction H as [off|off s n sy ts Hne Hb Hpos Hrest IH|off s n ts Hne Hb Hpos Hrest IH]; intros Hn.
  - simpl. rewrite Hnd. reflexivity.
  - cbn [map sym app followed_strict]. rewrite (IH (no_nl_skipn _ _ Hn)), andb_true_r.
    destruct (seqb sy d) eqn:E; [|reflexivity]. apply seqb_eq in E. subst sy.
    pose proof (best_sym_full _ _ _ _ Hs Hn Hb) as En. subst n. rewrite skipn_all in Hrest.
    inversion Hrest; subst; try congruence. simpl. apply seqb_refl.
  - apply IH. apply no_nl_skipn. exact Hn.
Qed.

Lemma reserved_neq : forall d, reserved d = false -> d <> indent_sym /\ d <> dedent_sym /\ d <> newline_sym.
Proof.
  intros d H. unfold reserved in H. apply orb_false_iff in H. destruct H as [H H3].
  apply orb_false_iff in H. destruct H as [H1 H2].
  apply str_eqb_neq in H1. apply str_eqb_neq in H2. apply str_eqb_neq in H3. auto.
Qed.

Lemma tok_lines_sym_then_newline : forall T d, sym_ends_line T d = true -> reserved d = false ->
  forall lines ln st ts, Forall no_nl lines -> tok_lines T ln st lines = Toks ts ->
  followed_strict d newline_sym (map sym ts) = true.
Proof.
  intros T d Hs Hr. destruct (reserved_neq d Hr) as (Ni & Nd & Nn).
  assert (Si : seqb indent_sym d = false) by (apply seqb_neq; congruence).
  assert (Sd : seqb dedent_sym d = false) by (apply seqb_neq; congruence).
  assert (Sn : seqb newline_sym d = false) by (apply seqb_neq; congruence).
  induction lines as [|L rest IH]; intros ln st ts Hn H; simpl in H.
  - injection H as H. subst ts. apply fs_none. apply Forall_forall. intros x Hx.
    apply in_map_iff in Hx. destruct Hx as (t & Ht & Hin). apply repeat_spec in Hin. subst. exact Sd.
  - inversion Hn as [|L' rest' HnL Hnrest]; subst.
    destruct (tokenize_line T (S ln) L) as [lts|e|] eqn:El; try discriminate.
    assert (Hline : followed_strict d newline_sym (map sym (lts ++ [newline_tok (S ln) L])) = true).
    { rewrite map_app. simpl. apply (line_toks_sym_last T d newline_sym (S ln) 0 L lts Hs Sn); [|exact HnL].
      apply tokenize_line_ok. exact El. }
    destruct (all_comment lts) eqn:Ec.
    + destruct (tok_lines T (S ln) st rest) as [ts2| | |] eqn:Er; simpl in H; try discriminate.
      injection H as H. subst ts. rewrite map_app. apply fs_app; [exact Hline|]. eapply IH; eauto.
    + destruct (indent_step (S ln) st (take_ws T L)) as [pre st1| |] eqn:Ei; try discriminate.
      apply indent_step_ok in Ei.
      destruct (tok_lines T (S ln) st1 rest) as [ts2| | |] eqn:Er; simpl in H; try discriminate.
      injection H as H. subst ts. rewrite map_app. apply fs_app; [|eapply IH; eauto].
      rewrite map_app. apply fs_app; [|exact Hline].
      apply fs_none. apply Forall_forall. intros x Hx. apply in_map_iff in Hx. destruct Hx as (t & Ht & Hin).
      destruct (pre_shape_syms _ _ _ _ _ _ Ei Hin) as (_ & _ & _ & [Hd|(top & _ & _ & Hi)]); subst; assumption.
Qed.

Lemma no_break_no_nl : forall L, no_break L -> no_nl L.
Proof.
  intros L H. eapply Forall_impl; [|exact H]. intros c Hc E. subst c. simpl in Hc. discriminate.
Qed.

(* THE TOKEN-LEVEL FACT, for every text: in the token list of the tokenizer model, each token whose symbol d is
   yielded only by line-swallowing patterns is immediately followed by the newline token *)
Theorem tokenize_sym_then_newline_proof : forall T d s ts, sym_ends_line T d = true -> reserved d = false ->
  tokenize T s = Toks ts -> followed_strict d newline_sym (map sym ts) = true.
Proof.
  intros T d s ts Hs Hr H. unfold tokenize, tokenize_lines in H.
  apply (tok_lines_sym_then_newline T d Hs Hr (splitlines s) 0 [[]] ts); [|exact H].
  destruct (splitlines_rebuild_proof s) as (terms & _ & _ & Hnb & _).
  eapply Forall_impl; [|exact Hnb]. intros L HL. apply no_break_no_nl. exact HL.
Qed.

(* ---------- Part 3: trees ---------- *)
Lemma tree_syms_node : forall p cs, tree_syms (Node p cs) = flat_map tree_syms cs.
Proof. reflexivity. Qed.
Lemma leaves_terminal_node : forall tbl p cs, leaves_terminal tbl (Node p cs) = forallb (leaves_terminal tbl) cs.
Proof. reflexivity. Qed.
Lemma asserts_ok_node : forall tbl p cs,
  asserts_ok tbl (Node p cs) =
  match nth_error tbl p with
  | Some h => forallb (cond_ok tbl cs) (asserted (hexpr h)) && forallb (asserts_ok tbl) cs
  | None => false
  end.
Proof. reflexivity. Qed.
Lemma tree_syms_leaves : forall t, tree_syms t = map fst (tree_leaves t).
Proof.
  induction t as [sy tx|p cs IH] using tree_ind2; [reflexivity|].
  change (flat_map tree_syms cs = map fst (flat_map tree_leaves cs)).
  induction IH as [|c cs Hc Hcs IHl]; [reflexivity|]. simpl. rewrite map_app, Hc, IHl. reflexivity.
Qed.

Lemma followed_app_l : forall d n a b, followed d n (a ++ b) = true -> followed d n a = true.
Proof.
  induction a as [|x a IH]; simpl; intros b H; [reflexivity|]. apply andb_prop in H. destruct H as [H1 H2].
  rewrite (IH _ H2), andb_true_r. destruct (seqb x d); [|reflexivity]. destruct a; [reflexivity|exact H1].
Qed.
Lemma followed_app_r : forall d n a b, followed d n (a ++ b) = true -> followed d n b = true.
Proof.
  induction a as [|x a IH]; simpl; intros b H; [exact H|]. apply andb_prop in H. destruct H as [_ H2]. apply IH. exact H2.
Qed.
Lemma followed_adj : forall d n x y c, followed d n (x ++ d :: c :: y) = true -> seqb c n = true.
Proof.
  intros d n x y c H. apply followed_app_r in H. simpl in H. rewrite seqb_refl in H.
  apply andb_prop in H. destruct H as [H _]. exact H.
Qed.

Lemma last_opt_app : forall (A : Type) (l : list A) x, last_opt l = Some x -> exists l', l = l' ++ [x].
Proof.
  induction l as [|a l IH]; simpl; intros x H; [discriminate|]. destruct l as [|b l].
  - injection H as H. subst. exists []. reflexivity.
  - destruct (IH _ H) as [l' E]. exists (a :: l'). rewrite E. reflexivity.
Qed.

Lemma map_eq_snoc : forall (A B C : Type) (f : A -> C) (g : B -> C) l' x cs,
  map f cs = map g (l' ++ [x]) -> exists cs' c, cs = cs' ++ [c] /\ f c = g x.
Proof.
  induction l' as [|a l' IH]; intros x cs H.
  - destruct cs as [|c [|c2 cs]]; try discriminate. simpl in H. injection H as H. exists [], c. split; [reflexivity|exact H].
  - destruct cs as [|c cs]; [discriminate|]. simpl in H. injection H as _ H.
    destruct (IH _ _ H) as (cs' & c' & E & F). subst cs. exists (c :: cs'), c'. split; [reflexivity|exact F].
Qed.

Lemma map_eq_nth : forall (A B C : Type) (f : A -> C) (g : B -> C) cs rhs j a,
  map f cs = map g rhs -> nth_error rhs j = Some a -> exists c, nth_error cs j = Some c /\ f c = g a.
Proof.
  induction cs as [|c cs IH]; intros rhs j a H Hn; destruct rhs as [|r rhs]; try discriminate.
  - destruct j; discriminate.
  - simpl in H. injection H as H0 H. destruct j as [|j]; simpl in Hn.
    + injection Hn as Hn. subst. exists c. split; [reflexivity|exact H0].
    + apply (IH _ _ _ H Hn).
Qed.

Lemma nth_split2 : forall (A : Type) (l : list A) j a b,
  nth_error l j = Some a -> nth_error l (S j) = Some b -> exists pre post, l = pre ++ a :: b :: post.
Proof.
  induction l as [|x l IH]; intros j a b Ha Hb; [destruct j; discriminate|].
  destruct j as [|j].
  - simpl in Ha. injection Ha as Ha. subst. destruct l as [|y l]; [discriminate|]. simpl in Hb. injection Hb as Hb. subst.
    exists [], l. reflexivity.
  - simpl in Ha. change (nth_error l (S j) = Some b) in Hb. destruct (IH _ _ _ Ha Hb) as (pre & post & E).
    exists (x :: pre), post. rewrite E. reflexivity.
Qed.

Section Trees.
Variable tbl : list handler.
Variables d n : str.

Lemma root_terminal_leaf : forall t s, tree_wf tbl t -> root_sym tbl t = Some s -> is_terminal tbl s = true ->
  exists tx, t = Leaf s tx.
Proof.
  intros [sy tx|p cs] s Hw Hr Ht.
  - simpl in Hr. injection Hr as Hr. subst. eauto.
  - apply tree_wf_node in Hw. destruct Hw as [h [Eh _]]. simpl in Hr. rewrite Eh in Hr. simpl in Hr.
    injection Hr as Hr. subst s. rewrite (lhs_not_terminal _ _ _ Eh) in Ht. discriminate.
Qed.

Lemma root_nonterminal_node : forall t s, tree_wf tbl t -> leaves_terminal tbl t = true -> root_sym tbl t = Some s ->
  is_terminal tbl s = false ->
  exists p cs h, t = Node p cs /\ nth_error tbl p = Some h /\ hlhs h = s /\
                 map (root_sym tbl) cs = map Some (hrhs h) /\ Forall (tree_wf tbl) cs /\
                 forallb (leaves_terminal tbl) cs = true.
Proof.
  intros [sy tx|p cs] s Hw Hl Hr Ht.
  - simpl in Hr. injection Hr as Hr. subst. simpl in Hl. rewrite Hl in Ht. discriminate.
  - pose proof Hw as Hw'. apply tree_wf_node in Hw'. destruct Hw' as [h [Eh [Hm Hws]]].
    simpl in Hr. rewrite Eh in Hr. simpl in Hr. injection Hr as Hr.
    exists p, cs, h. repeat split; assumption.
Qed.

Lemma ends_with_sound : forall fuel s t, ends_with tbl fuel d s = true ->
  tree_wf tbl t -> leaves_terminal tbl t = true -> root_sym tbl t = Some s ->
  exists pre, tree_syms t = pre ++ [d].
Proof.
  induction fuel as [|f IH]; intros s t He Hw Hl Hr.
  - simpl in He. destruct (is_terminal tbl s) eqn:Et; [|discriminate].
    destruct (root_terminal_leaf t s Hw Hr Et) as [tx E]. subst t. apply seqb_eq in He. subst s. exists []. reflexivity.
  - simpl in He. destruct (is_terminal tbl s) eqn:Et.
    + destruct (root_terminal_leaf t s Hw Hr Et) as [tx E]. subst t. apply seqb_eq in He. subst s. exists []. reflexivity.
    + destruct (root_nonterminal_node t s Hw Hl Hr Et) as (p & cs & h & E & Eh & Hs & Hm & Hws & Hls). subst t.
      pose proof (nth_error_forallb _ _ _ _ _ He Eh) as Hh. simpl in Hh. rewrite Hs, seqb_refl in Hh.
      destruct (last_opt (hrhs h)) as [x|] eqn:El; [|discriminate].
      destruct (last_opt_app _ _ _ El) as [l' E]. rewrite E in Hm.
      destruct (map_eq_snoc _ _ _ _ _ _ _ _ Hm) as (cs' & c & Ec & Rc). subst cs.
      apply Forall_app in Hws. destruct Hws as [_ Hwc]. inversion Hwc as [|c0 l0 Wc _]; subst.
      rewrite forallb_app in Hls. apply andb_prop in Hls. destruct Hls as [_ Lc]. simpl in Lc. rewrite andb_true_r in Lc.
      destruct (IH x c Hh Wc Lc Rc) as [pre Ep].
      rewrite tree_syms_node, flat_map_app. simpl. rewrite app_nil_r, Ep.
      exists (flat_map tree_syms cs' ++ pre). rewrite app_assoc. reflexivity.
Qed.

Lemma opt_starts_sound : forall s t, opt_starts_not tbl n s = true ->
  tree_wf tbl t -> leaves_terminal tbl t = true -> root_sym tbl t = Some s ->
  empty_node tbl t = true \/ exists x rest, tree_syms t = x :: rest /\ seqb x n = false.
Proof.
  intros s t Ho Hw Hl Hr. unfold opt_starts_not in Ho. apply andb_prop in Ho. destruct Ho as [Hnt Ho].
  apply negb_true_iff in Hnt.
  destruct (root_nonterminal_node t s Hw Hl Hr Hnt) as (p & cs & h & E & Eh & Hs & Hm & Hws & Hls). subst t.
  pose proof (nth_error_forallb _ _ _ _ _ Ho Eh) as Hh. simpl in Hh. rewrite Hs, seqb_refl in Hh.
  destruct (hrhs h) as [|x rhs] eqn:Er.
  - left. destruct cs; [|discriminate]. simpl. rewrite Eh. destruct (hexpr h); try discriminate.
    destruct s0; [reflexivity|discriminate].
  - right. destruct cs as [|c cs]; [discriminate|]. simpl in Hm. injection Hm as Rc _.
    apply andb_prop in Hh. destruct Hh as [Tx Nx]. apply negb_true_iff in Nx.
    inversion Hws as [|c0 l0 Wc _]; subst.
    destruct (root_terminal_leaf c x Wc Rc Tx) as [tx E]. subst c.
    exists x, (flat_map tree_syms cs). split; [reflexivity|exact Nx].
Qed.

Hypothesis Hg : asserts_guarded tbl d n = true.

(* trees of the grammar whose leaf symbols have "a successor of d is n" satisfy the assert hypothesis *)
Theorem asserts_ok_followed_proof : forall t, tree_wf tbl t -> leaves_terminal tbl t = true ->
  followed d n (tree_syms t) = true -> asserts_ok tbl t = true.
Proof.
  induction t as [sy tx|p cs IH] using tree_ind2; intros Hw Hl Hf; [reflexivity|].
  apply tree_wf_node in Hw. destruct Hw as [h [Eh [Hm Hws]]].
  rewrite leaves_terminal_node in Hl. rewrite tree_syms_node in Hf.
  rewrite asserts_ok_node, Eh. apply andb_true_iff. split.
  - apply forallb_forall. intros c Hc.
    pose proof (nth_error_forallb _ _ _ _ _ Hg Eh) as Hh. simpl in Hh. rewrite forallb_forall in Hh. specialize (Hh c Hc).
    unfold assert_guarded in Hh. destruct c; try discriminate. destruct c; try discriminate. destruct i as [|j]; [discriminate|].
    destruct (nth_error (hrhs h) j) as [a|] eqn:Ea; [|discriminate].
    destruct (nth_error (hrhs h) (S j)) as [b|] eqn:Eb; [|discriminate].
    apply andb_prop in Hh. destruct Hh as [H1 H2].
    destruct (map_eq_nth _ _ _ _ _ _ _ _ _ Hm Ea) as [ca [Eca Rca]].
    destruct (map_eq_nth _ _ _ _ _ _ _ _ _ Hm Eb) as [cb [Ecb Rcb]].
    unfold cond_ok. rewrite Ecb.
    destruct (nth_split2 _ _ _ _ _ Eca Ecb) as (pre & post & E). subst cs.
    apply Forall_app in Hws. destruct Hws as [_ Hws]. inversion Hws as [|x1 l1 Wa Hws']; subst.
    inversion Hws' as [|x2 l2 Wb _]; subst.
    rewrite forallb_app in Hl. apply andb_prop in Hl. destruct Hl as [_ Hl]. simpl in Hl.
    apply andb_prop in Hl. destruct Hl as [La Hl]. apply andb_prop in Hl. destruct Hl as [Lb _].
    destruct (ends_with_sound _ _ _ H1 Wa La Rca) as [xa Exa].
    destruct (opt_starts_sound _ _ H2 Wb Lb Rcb) as [He|(x & rest & Ex & Nx)]; [exact He|exfalso].
    rewrite flat_map_app in Hf. simpl in Hf. rewrite Exa, Ex in Hf.
    assert (Hf' : followed d n ((flat_map tree_syms pre ++ xa) ++ d :: x :: (rest ++ flat_map tree_syms post)) = true).
    { rewrite <- Hf. f_equal. simpl. rewrite <- !app_assoc. reflexivity. }
    apply followed_adj in Hf'. rewrite Hf' in Nx. discriminate.
  - apply forallb_forall. intros c Hc. rewrite Forall_forall in IH. apply (IH c Hc).
    + rewrite Forall_forall in Hws. apply Hws. exact Hc.
    + rewrite forallb_forall in Hl. apply Hl. exact Hc.
    + destruct (in_split _ _ Hc) as (l1 & l2 & E). subst cs. rewrite flat_map_app in Hf. simpl in Hf.
      apply followed_app_r in Hf. apply followed_app_l in Hf. exact Hf.
Qed.
End Trees.

(* ---------- Part 4: the hypothesis asserts_ok derived; format_total for parse trees over tokenizer output ---------- *)
Theorem asserts_ok_tokenized_proof : forall T tbl d s ts t,
  sym_ends_line T d = true -> reserved d = false -> asserts_guarded tbl d newline_sym = true ->
  tokenize T s = Toks ts -> tree_gwf tbl t -> tree_syms t = map sym ts ->
  asserts_ok tbl t = true.
Proof.
  intros T tbl d s ts t Hs Hr Hg Ht [Hw Hl] Hy.
  apply (asserts_ok_followed_proof tbl d newline_sym Hg t Hw Hl). rewrite Hy. apply fs_followed.
  apply (tokenize_sym_then_newline_proof T d s ts Hs Hr Ht).
Qed.

Theorem format_total_tokenized_proof : forall ws iw T tbl d,
  table_typed_ok tbl = true -> asserts_guarded tbl d newline_sym = true ->
  sym_ends_line T d = true -> reserved d = false ->
  forall s ts t, tokenize T s = Toks ts -> tree_gwf tbl t -> tree_syms t = map sym ts ->
  exists v, format ws iw tbl t = Some v.
Proof.
  intros ws iw T tbl d Hty Hg Hs Hr s ts t Ht Hw Hy.
  apply (format_total_proof ws iw tbl Hty t Hw). apply (asserts_ok_tokenized_proof T tbl d s ts t Hs Hr Hg Ht Hw Hy).
Qed.

Theorem format_text_total_tokenized_proof : forall ws iw T tbl d,
  table_typed_ok tbl = true -> asserts_guarded tbl d newline_sym = true ->
  sym_ends_line T d = true -> reserved d = false ->
  forall s ts t r, tokenize T s = Toks ts -> tree_gwf tbl t -> tree_syms t = map sym ts ->
  root_sym tbl t = Some r -> sym_ty tbl (infer tbl) r = Some TStr ->
  exists txt, format_text ws iw tbl t = Some txt.
Proof.
  intros ws iw T tbl d Hty Hg Hs Hr s ts t r Ht Hw Hy Hroot Hstr.
  apply (format_text_total_proof ws iw tbl Hty t r Hw); [|exact Hroot|exact Hstr].
  apply (asserts_ok_tokenized_proof T tbl d s ts t Hs Hr Hg Ht Hw Hy).
Qed.

(* ---------- the hypotheses are satisfiable: a toy lexer and grammar with the doc-line shape ---------- *)
(* patterns: D.* -> "Doc" (swallows the line), C -> "Com", white space skipped;
   grammar: 0: line -> doc com? nl   (handler: assert not com?; doc)
            1: doc -> Doc   2: com? -> Com   3: com? -> (empty, returns "")   *)
Definition toy_lex : table :=
  mkTable [] [(Cat (Chr false [(68, 68)]) (Star (Chr true [(10, 10)])), Some [68]);
              (Chr false [(67, 67)], Some [67]);
              (Cat (Chr false [(32, 32)]) (Star (Chr false [(32, 32)])), None)]%N [(32, 32)]%N.
Definition toy_doc_table : list handler :=
  [mkHandler [108] [[100]; [99]; newline_sym] (EAssert (CNot (CTruthy 1)) (EArg 0));
   mkHandler [100] [[68]] (EArg 0);
   mkHandler [99] [[67]] (EArg 0);
   mkHandler [99] [] (ELit [])]%N.
Definition toy_doc_tree : tree :=
  Node 0 [Node 1 [Leaf [68] [68; 32; 67]]; Node 3 []; Leaf newline_sym [10]]%N.

Lemma toy_doc_example_proof :
  sym_ends_line toy_lex [68]%N = true /\ reserved [68]%N = false /\
  asserts_guarded toy_doc_table [68]%N newline_sym = true /\
  (exists ts, tokenize toy_lex [68; 32; 67]%N = Toks ts /\ tree_syms toy_doc_tree = map sym ts) /\
  tree_gwf toy_doc_table toy_doc_tree /\ asserts_ok toy_doc_table toy_doc_tree = true.
Proof.
  split; [vm_compute; reflexivity|]. split; [vm_compute; reflexivity|]. split; [vm_compute; reflexivity|].
  split; [eexists; split; vm_compute; reflexivity|].
  split; [apply tree_gwfb_sound_proof; vm_compute; reflexivity|vm_compute; reflexivity].
Qed.
