(* C11, handler level: idempotence results about Lex/FmtModel.v.
   Part 1: _columnize.  Part 2: the two whole-file passes of _module compose to an idempotent function.
   Part 3: the show_line_types rendering carries the same tokens. *)
From Coq Require Import NArith List Bool Arith PeanoNat Lia.
Import ListNotations.
Require Import EmbossV.Lex.Regex EmbossV.Lex.FmtModel EmbossV.Lex.FmtProofs EmbossV.Lex.FmtShow.

(* ---------- Part 1: _columnize ---------- *)
(* the width a cell is padded to: the second loop of _columnize *)
Definition target_width (iw ic : nat) (all : list block) (r : row) (i : nat) : nat :=
  match col_width iw ic (rname r) i all with
  | 0 => 0
  | S w => (S w - col_adjust iw ic r i) + (if single_sep (rname r) i then 1 else 2)
  end.

(* the cells after padding, before they are joined *)
Fixpoint pad_cells (iw ic : nat) (all : list block) (r : row) (i : nat) (cols : list gstr) : list gstr :=
  match cols with
  | [] => []
  | c :: cols' => gljust c (target_width iw ic all r i) :: pad_cells iw ic all r (S i) cols'
  end.

(* every cell from position i on is at least as long as the width computed for its column *)
Fixpoint cells_padded (iw ic : nat) (all : list block) (r : row) (i : nat) (cols : list gstr) : Prop :=
  match cols with
  | [] => True
  | c :: cols' => target_width iw ic all r i <= glen c /\ cells_padded iw ic all r (S i) cols'
  end.

Lemma pad_cols_cells : forall iw ic all r cols i, pad_cols iw ic all r i cols = concat (pad_cells iw ic all r i cols).
Proof.
  induction cols as [|c cols IH]; intro i; [reflexivity|]. simpl. rewrite IH. unfold target_width.
  destruct (col_width iw ic (rname r) i all); reflexivity.
Qed.

Lemma gljust_noop : forall g w, w <= glen g -> gljust g w = g.
Proof. intros g w H. unfold gljust. replace (w - glen g) with 0 by lia. reflexivity. Qed.

Lemma glen_gljust : forall g w, glen (gljust g w) = Nat.max (glen g) w.
Proof.
  intros g w. unfold gljust. destruct (w - glen g) as [|k] eqn:E; [lia|].
  unfold glen in *. assert (F : forall a b, flat (a ++ b) = flat a ++ flat b).
  { induction a as [|p a IH]; intro b; [reflexivity|]. simpl. rewrite IH, app_assoc. reflexivity. }
  rewrite F, app_length. simpl. rewrite app_nil_r. unfold spaces. rewrite repeat_length. lia.
Qed.

Lemma gljust_idem : forall g w, gljust (gljust g w) w = gljust g w.
Proof. intros. apply gljust_noop. rewrite glen_gljust. lia. Qed.

Lemma pad_cells_padded : forall iw ic all r cols i, cells_padded iw ic all r i (pad_cells iw ic all r i cols).
Proof.
  induction cols as [|c cols IH]; intro i; [exact I|]. simpl. split; [rewrite glen_gljust; lia|apply IH].
Qed.

Lemma pad_cells_noop : forall iw ic all r cols i, cells_padded iw ic all r i cols -> pad_cells iw ic all r i cols = cols.
Proof.
  induction cols as [|c cols IH]; intros i H; [reflexivity|]. simpl in *. destruct H as [H1 H2].
  rewrite (gljust_noop _ _ H1), (IH _ H2). reflexivity.
Qed.

(* padding cells that are already padded to the computed widths changes nothing *)
Lemma pad_cells_idem : forall iw ic all r cols i,
  pad_cells iw ic all r i (pad_cells iw ic all r i cols) = pad_cells iw ic all r i cols.
Proof. intros. apply pad_cells_noop. apply pad_cells_padded. Qed.

Theorem columnize_block_padded : forall ws iw ic all b,
  cells_padded iw ic all (bheader b) 0 (rcols (bheader b)) ->
  columnize_block ws iw ic all b =
  bprefix b ++ [mkRow (rname (bheader b)) [grstrip ws (concat (rcols (bheader b)))] (rindent (bheader b))] ++ bbody b.
Proof. intros ws iw ic all b H. unfold columnize_block. rewrite pad_cols_cells, (pad_cells_noop _ _ _ _ _ _ H). reflexivity. Qed.

(* _columnize looks at the cells only through their texts: blocks that agree up to the provenance of the
   characters are aligned to the same widths *)
Definition row_flat (r : row) : str * list str * nat := (rname r, map flat (rcols r), rindent r).
Lemma col_width_flat : forall iw ic name i bs bs',
  map (fun b => row_flat (bheader b)) bs = map (fun b => row_flat (bheader b)) bs' ->
  col_width iw ic name i bs = col_width iw ic name i bs'.
Proof.
  induction bs as [|b bs IH]; destruct bs' as [|b' bs']; simpl; intro H; try discriminate; [reflexivity|].
  unfold row_flat in H. injection H as Hn Hc Hi Hrest. rewrite (IH _ Hrest), Hn.
  destruct (seqb (rname (bheader b')) name); [|reflexivity].
  assert (Hnth : option_map glen (nth_error (rcols (bheader b)) i) = option_map glen (nth_error (rcols (bheader b')) i)).
  { pose proof (f_equal (fun l => option_map (@length N) (nth_error l i)) Hc) as X. simpl in X.
    rewrite !nth_error_map in X. destruct (nth_error (rcols (bheader b)) i), (nth_error (rcols (bheader b')) i); unfold glen; simpl in *; congruence. }
  unfold col_adjust. rewrite Hi.
  destruct (nth_error (rcols (bheader b)) i), (nth_error (rcols (bheader b')) i); simpl in Hnth; try discriminate; [|reflexivity].
  injection Hnth as ->. reflexivity.
Qed.

(* ---------- Part 2: the whole-file passes of _module ---------- *)
Lemma row_eta : forall r, mkRow (rname r) (rcols r) (rindent r) = r.
Proof. destruct r; reflexivity. Qed.

Lemma ibc_go_dedent_stable : forall A q, ibc_go A = (A, q) ->
  forall pi pb, ibc_go (dedent_go pi pb A) = (dedent_go pi pb A, q).
Proof.
  induction A as [|r rest IH]; intros q H pi pb; [exact H|].
  simpl in H. destruct (ibc_go rest) as [res q0] eqn:E.
  assert (Hq : res = rest /\ q = (if row_blank r || seqb (rname r) name_comment then q0 else rindent r) /\
               (row_blank r || seqb (rname r) name_comment = true -> rindent r = q0)).
  { destruct (row_blank r || seqb (rname r) name_comment).
    - injection H as H1 H2 H3. split; [exact H2|]. split; [symmetry; exact H3|]. intros _. rewrite <- H1 at 1. reflexivity.
    - injection H as H2 H3. split; [exact H2|]. split; [symmetry; exact H3|]. discriminate. }
  destruct Hq as [-> [Hq Hb]].
  assert (Hin : ibc_go (r :: dedent_go (rindent r) (row_blank r) rest) = (r :: dedent_go (rindent r) (row_blank r) rest, q)).
  { simpl. rewrite (IH q0 eq_refl). destruct (row_blank r || seqb (rname r) name_comment) eqn:B.
    - rewrite <- (Hb eq_refl), row_eta, Hq. rewrite (Hb eq_refl). reflexivity.
    - rewrite Hq. reflexivity. }
  simpl dedent_go. destruct ((rindent r <? pi) && negb pb && negb (row_blank r)) eqn:C; [|exact Hin].
  change (ibc_go (mkRow name_dedent_space [] (rindent r) :: r :: dedent_go (rindent r) (row_blank r) rest))
    with (let (res, pi0) := ibc_go (r :: dedent_go (rindent r) (row_blank r) rest) in
          (mkRow name_dedent_space [] pi0 :: res, pi0)).
  rewrite Hin. assert (rindent r = q) as ->; [|reflexivity].
  rewrite Hq. destruct (row_blank r || seqb (rname r) name_comment) eqn:B; [apply Hb; reflexivity|reflexivity].
Qed.

Definition final_passes (rows : list row) : list row := add_blank_rows_on_dedent (indent_blanks_and_comments rows).

Lemma indent_blanks_after_dedent : forall l, indent_blanks_and_comments (final_passes l) = final_passes l.
Proof.
  intro l. unfold final_passes, indent_blanks_and_comments, add_blank_rows_on_dedent.
  rewrite (ibc_go_dedent_stable (fst (ibc_go l)) (snd (ibc_go l))); [reflexivity|].
  rewrite ibc_go_idem. destruct (ibc_go l); reflexivity.
Qed.

Theorem final_passes_idem : forall l, final_passes (final_passes l) = final_passes l.
Proof.
  intro l. unfold final_passes at 1. rewrite indent_blanks_after_dedent. unfold final_passes. apply add_blank_rows_idem.
Qed.

(* ---------- Part 3: show_line_types ---------- *)
Lemma render_rows_show_toks : forall ws iw w rows t, render_rows_show ws iw w rows = Some t ->
  exists u, render_rows ws iw rows = Some u /\ gtoks ws t = gtoks ws u.
Proof.
  induction rows as [|r rows IH]; simpl; intros t H; [inv H; exists []; split; reflexivity|].
  destruct (render_row ws iw r) eqn:E1; [|discriminate]. destruct (render_rows_show ws iw w rows) eqn:E2; [|discriminate]. inv H.
  destruct (IH _ eq_refl) as [u [Eu Tu]]. rewrite Eu. eexists. split; [reflexivity|].
  change (gtoks ws (GLit (ljust_str (rname r) w ++ [124%N]) :: g ++ GLit [10%N] :: g0)) with (gtoks ws (g ++ GLit [10%N] :: g0)).
  rewrite !gtoks_app. change (gtoks ws (GLit [10%N] :: g0)) with (gtoks ws g0). change (gtoks ws (GLit [10%N] :: u)) with (gtoks ws u).
  rewrite Tu. reflexivity.
Qed.
