(* Executable glue for the C10 correspondence harness: results with N positions,
   boolean equality, and the table comparison used by the generated instance file. *)
From Coq Require Import NArith List Bool Arith.
Import ListNotations.
Require Import EmbossV.Lex.Regex EmbossV.Lex.Tokenizer.

Inductive xresult :=
| XToks (ts : list (str * str * N * N * N))      (* symbol, text, line, start column, end column *)
| XErrToken (ln a b : N)
| XErrIndent (ln a b : N)
| XErrInternal.

Definition xtok (t : token) : str * str * N * N * N :=
  (sym t, text t, N.of_nat (line t), N.of_nat (c0 t), N.of_nat (c1 t)).

Definition xresult_of (r : result) : xresult :=
  match r with
  | Toks ts => XToks (map xtok ts)
  | ErrToken ln a b => XErrToken (N.of_nat ln) (N.of_nat a) (N.of_nat b)
  | ErrIndent ln a b => XErrIndent (N.of_nat ln) (N.of_nat a) (N.of_nat b)
  | ErrInternal => XErrInternal
  end.

Definition run_tokenize (T : table) (s : str) : xresult := xresult_of (tokenize T s).

Definition xtok_eqb (a b : str * str * N * N * N) : bool :=
  match a, b with
  | (s1, t1, l1, a1, b1), (s2, t2, l2, a2, b2) =>
      str_eqb s1 s2 && str_eqb t1 t2 && (l1 =? l2)%N && (a1 =? a2)%N && (b1 =? b2)%N
  end.

Fixpoint list_eqb {A} (f : A -> A -> bool) (a b : list A) : bool :=
  match a, b with
  | [], [] => true
  | x :: a', y :: b' => f x y && list_eqb f a' b'
  | _, _ => false
  end.

Definition xresult_eqb (a b : xresult) : bool :=
  match a, b with
  | XToks x, XToks y => list_eqb xtok_eqb x y
  | XErrToken l1 a1 b1, XErrToken l2 a2 b2
  | XErrIndent l1 a1 b1, XErrIndent l2 a2 b2 => (l1 =? l2)%N && (a1 =? a2)%N && (b1 =? b2)%N
  | XErrInternal, XErrInternal => true
  | _, _ => false
  end.

(* splitlines alone (also compared with Python) *)
Definition run_splitlines (s : str) : list str := splitlines s.
Definition lines_eqb (a b : list str) : bool := list_eqb str_eqb a b.

(* longest match alone: (regex index in the table, input) -> option length *)
Definition run_longest (T : table) (c : N * str) : option N :=
  match nth_error (pats T) (N.to_nat (fst c)) with
  | Some (r, _) => option_map N.of_nat (longest r (snd c))
  | None => Some 999999%N
  end.
Definition optN_eqb (a b : option N) : bool :=
  match a, b with
  | Some x, Some y => (x =? y)%N
  | None, None => true
  | _, _ => false
  end.
