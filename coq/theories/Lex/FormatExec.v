(* Executable glue for the C11 harness. *)
From Coq Require Import NArith List Bool Arith.
Import ListNotations.
Require Import EmbossV.Lex.Regex EmbossV.Lex.Tokenizer EmbossV.Lex.Format.

Definition run_fmt (T : table) (p : str * str) : fmt_verdict * sanity :=
  (fmt_check T (fst p) (snd p), sanity_check T (snd p) (fst p)).

Definition verdict_eqb (a b : fmt_verdict) : bool :=
  match a, b with
  | FvEquiv, FvEquiv | FvDiffer, FvDiffer | FvOrigNotTokenizable, FvOrigNotTokenizable
  | FvFmtNotTokenizable, FvFmtNotTokenizable => true
  | _, _ => false
  end.

Definition sanity_eqb (a b : sanity) : bool :=
  match a, b with
  | SanOrigNotTokenizable, SanOrigNotTokenizable | SanFmtNotTokenizable, SanFmtNotTokenizable => true
  | SanRes ScOk, SanRes ScOk => true
  | SanRes (ScCount a b), SanRes (ScCount c d) => (a =? c) && (b =? d)
  | SanRes (ScBug i), SanRes (ScBug j) => i =? j
  | _, _ => false
  end.

Definition fmt_res_eqb (a b : fmt_verdict * sanity) : bool :=
  verdict_eqb (fst a) (fst b) && sanity_eqb (snd a) (snd b).
