(* Proofs about the line loop of tokenize(): per-line decomposition of the token list,
   positions, cover, newline tokens, Indent/Dedent stack discipline, error results. *)
From Coq Require Import NArith List Bool Lia Arith PeanoNat.
Import ListNotations.
Require Import EmbossV.Lex.Regex EmbossV.Lex.Tokenizer EmbossV.Lex.Spec EmbossV.Lex.Proofs_Line.

(* ---- the loop without the final Dedents, exposing the final stack ---- *)
Inductive sres :=
| SOk (body : list token) (st : list str)
| SErrToken (ln a b : nat)
| SErrIndent (ln a b : nat)
| SErrInternal.

Definition sprepend (xs : list token) (r : sres) : sres :=
  match r with SOk ys st => SOk (xs ++ ys) st | e => e end.

Fixpoint tok_state (T : table) (ln : nat) (st : list str) (lines : list str) : sres :=
  match lines with
  | [] => SOk [] st
  | L :: rest =>
      match tokenize_line T (S ln) L with
      | LFuel => SErrInternal
      | LErr off => SErrToken (S ln) (S off) (S (S off))
      | LOk lts =>
          if all_comment lts then
            sprepend (lts ++ [newline_tok (S ln) L]) (tok_state T (S ln) st rest)
          else
            match indent_step (S ln) st (take_ws T L) with
            | IEmpty => SErrInternal
            | IBad => SErrIndent (S ln) 1 (S (length (take_ws T L)))
            | IOk pre st' =>
                sprepend (pre ++ lts ++ [newline_tok (S ln) L]) (tok_state T (S ln) st' rest)
            end
      end
  end.

Definition finish (n : nat) (r : sres) : result :=
  match r with
  | SOk body st => Toks (body ++ repeat (dedent_tok (S n) 1) (pred (length st)))
  | SErrToken ln a b => ErrToken ln a b
  | SErrIndent ln a b => ErrIndent ln a b
  | SErrInternal => ErrInternal
  end.

Lemma finish_sprepend : forall n xs r, finish n (sprepend xs r) = prepend xs (finish n r).
Proof. intros n xs [body st| | |]; simpl; auto. rewrite app_assoc. auto. Qed.

Lemma tok_lines_state : forall T lines ln st,
  tok_lines T ln st lines = finish (ln + length lines) (tok_state T ln st lines).
Proof.
  intros T. induction lines as [|L rest IH]; intros ln st; simpl.
  - rewrite Nat.add_0_r. auto.
  - replace (ln + S (length rest)) with (S ln + length rest) by lia.
    destruct (tokenize_line T (S ln) L); auto.
    destruct (all_comment ts).
    + rewrite finish_sprepend, IH. auto.
    + destruct (indent_step (S ln) st (take_ws T L)); auto.
      rewrite finish_sprepend, IH. auto.
Qed.

Lemma sprepend_sprepend : forall a b r, sprepend a (sprepend b r) = sprepend (a ++ b) r.
Proof. intros a b [body st| | |]; simpl; auto. rewrite app_assoc. auto. Qed.

Lemma tok_state_app : forall T l1 l2 ln st,
  tok_state T ln st (l1 ++ l2) =
  match tok_state T ln st l1 with
  | SOk b1 st1 => sprepend b1 (tok_state T (ln + length l1) st1 l2)
  | e => e
  end.
Proof.
  intros T. induction l1 as [|L rest IH]; intros l2 ln st; simpl.
  - rewrite Nat.add_0_r. destruct (tok_state T ln st l2); auto.
  - replace (ln + S (length rest)) with (S ln + length rest) by lia.
    destruct (tokenize_line T (S ln) L); auto.
    destruct (all_comment ts).
    + rewrite IH. destruct (tok_state T (S ln) st rest); simpl; auto.
      apply sprepend_sprepend.
    + destruct (indent_step (S ln) st (take_ws T L)); auto.
      rewrite IH. destruct (tok_state T (S ln) st0 rest); simpl; auto.
      apply sprepend_sprepend.
Qed.

(* line numbers of the body tokens *)
Lemma line_toks_line : forall T ln off s ts t, line_toks T ln off s ts -> In t ts -> line t = ln.
Proof.
  intros T ln off s ts t H Hin. apply line_toks_at in H. rewrite Forall_forall in H.
  apply H in Hin. destruct Hin; auto.
Qed.

Lemma pop_until_spec : forall ln lw st ds st1,
  pop_until ln lw st = Some (ds, st1) ->
  ds = repeat (dedent_tok ln (S (length lw))) (length ds) /\
  exists tl, st1 = lw :: tl /\ length st = length ds + length st1 /\
  exists popped, st = popped ++ st1 /\ length popped = length ds /\ ~ In lw popped.
Proof.
  intros ln lw. induction st as [|x st IH]; intros ds st1 H; simpl in H; [discriminate|].
  destruct (str_eqb lw x) eqn:E.
  - injection H as <- <-. apply str_eqb_eq in E. subst x. split; auto.
    exists st. split; auto. split; auto. exists []. simpl. auto.
  - destruct (pop_until ln lw st) as [[ds' st'']|] eqn:Ep; [|discriminate].
    injection H as <- <-. destruct (IH _ _ eq_refl) as (Hd & tl & -> & Hl & popped & Hp & Hpl & Hni).
    split; [simpl; f_equal; auto|]. exists tl. split; auto. split; [simpl in Hl |- *; lia|].
    exists (x :: popped). simpl. rewrite Hp at 1. split; auto. split; auto.
    intros [Hx|Hx]; auto. apply str_eqb_neq in E. congruence.
Qed.

Lemma pop_until_none : forall ln lw st, pop_until ln lw st = None <-> ~ In lw st.
Proof.
  intros ln lw. induction st as [|x st IH]; simpl.
  - split; auto.
  - destruct (str_eqb lw x) eqn:E.
    + apply str_eqb_eq in E. subst. split; [discriminate|]. intros H. exfalso. apply H. auto.
    + apply str_eqb_neq in E. destruct (pop_until ln lw st) as [[ds st']|].
      * split; [discriminate|]. intros H. exfalso. apply H. right.
        destruct (in_dec (list_eq_dec N.eq_dec) lw st); auto. apply IH in n. discriminate.
      * split; auto. intros _ [H|H]; [congruence|]. apply IH in H; auto.
Qed.

(* the tokens emitted in front of a significant line *)
Inductive pre_shape (ln : nat) (st : list str) (lw : str) : list token -> list str -> Prop :=
| PS_same : forall tl, st = lw :: tl -> pre_shape ln st lw [] st
| PS_indent : forall top tl, st = top :: tl -> lw <> top -> is_prefix top lw ->
    pre_shape ln st lw [indent_tok ln top lw] (lw :: st)
| PS_dedent : forall k popped tl, st = popped ++ lw :: tl -> length popped = k -> 0 < k ->
    ~ In lw popped ->
    pre_shape ln st lw (repeat (dedent_tok ln (S (length lw))) k) (lw :: tl).

Lemma indent_step_ok : forall ln st lw pre st1,
  indent_step ln st lw = IOk pre st1 -> pre_shape ln st lw pre st1.
Proof.
  intros ln st lw pre st1 H. unfold indent_step in H. destruct st as [|top tl]; [discriminate|].
  destruct (str_eqb lw top) eqn:E.
  - injection H as <- <-. apply str_eqb_eq in E. subst. eapply PS_same; eauto.
  - destruct (prefixb top lw) eqn:Ep.
    + injection H as <- <-. eapply PS_indent; eauto.
      * apply str_eqb_neq; auto.
      * apply prefixb_spec; auto.
    + destruct (pop_until ln lw (top :: tl)) as [[ds st']|] eqn:Epop; [|discriminate].
      injection H as <- <-. apply pop_until_spec in Epop.
      destruct Epop as (Hd & tl' & -> & Hl & popped & Hp & Hpl & Hni).
      rewrite Hd, Hp. apply (PS_dedent ln (popped ++ lw :: tl') lw (length ds) popped tl'); auto.
      destruct popped as [|p0 popped]; simpl in *; [|lia].
      injection Hp as -> _. rewrite str_eqb_refl in E. discriminate.
Qed.

Lemma indent_step_bad : forall ln top tl lw,
  indent_step ln (top :: tl) lw = IBad <-> ~ is_prefix top lw /\ ~ In lw (top :: tl).
Proof.
  intros ln top tl lw. unfold indent_step.
  destruct (str_eqb lw top) eqn:E.
  - apply str_eqb_eq in E. subst. split; [discriminate|]. intros [_ H]. exfalso. apply H. left; auto.
  - destruct (prefixb top lw) eqn:Ep.
    + apply prefixb_spec in Ep. split; [discriminate|]. intros [H _]. contradiction.
    + assert (Hnp : ~ is_prefix top lw).
      { intros H. apply prefixb_spec in H. congruence. }
      destruct (pop_until ln lw (top :: tl)) as [[ds st']|] eqn:Epop.
      * split; [discriminate|]. intros [_ H]. apply (pop_until_none ln) in H. congruence.
      * apply pop_until_none in Epop. split; auto.
Qed.

(* ---- stacks always end with the empty indentation ---- *)
Definition stack_ok (st : list str) : Prop := exists upper, st = upper ++ [[]].

Lemma pre_shape_stack_ok : forall ln st lw pre st1,
  stack_ok st -> pre_shape ln st lw pre st1 -> stack_ok st1.
Proof.
  intros ln st lw pre st1 [upper Hu] H.
  assert (G : forall (a b u : list str), a ++ b = u ++ [[]] -> b <> [] -> exists u', b = u' ++ [[]]).
  { induction a as [|x a IHa]; intros b u Hab Hb; simpl in Hab.
    - exists u; auto.
    - destruct u as [|y u]; simpl in Hab.
      + injection Hab as _ Hab. destruct a; destruct b; try discriminate. congruence.
      + injection Hab as _ Hab. eapply IHa; eauto. }
  inversion H as [tl E|top tl E Hn Hp|k popped tl E Hk Hpos Hni].
  - exists upper. subst. auto.
  - exists (lw :: upper). rewrite Hu. reflexivity.
  - apply (G popped (lw :: tl) upper); [rewrite <- E; auto|discriminate].
Qed.

(* ---- run_stack over the emitted tokens ---- *)
Lemma indent_dedent_neq : str_eqb dedent_sym indent_sym = false /\ str_eqb newline_sym indent_sym = false
  /\ str_eqb newline_sym dedent_sym = false /\ str_eqb indent_sym dedent_sym = false.
Proof. repeat split; reflexivity. Qed.

Lemma run_stack_skip : forall xs st X,
  Forall (fun t => str_eqb (sym t) indent_sym = false /\ str_eqb (sym t) dedent_sym = false) xs ->
  run_stack st (xs ++ X) = run_stack st X.
Proof.
  induction xs as [|t xs IH]; intros st X H; simpl; auto.
  inversion H as [|? ? [H1 H2] H3]; subst. rewrite H1, H2. auto.
Qed.

Lemma lexical_not_indent : forall t, is_lexical t = true ->
  str_eqb (sym t) indent_sym = false /\ str_eqb (sym t) dedent_sym = false.
Proof.
  intros t H. unfold is_lexical in H. apply andb_prop in H as [H H3]. apply andb_prop in H as [H1 H2].
  apply negb_true_iff in H1, H2. auto.
Qed.

Lemma run_stack_dedents : forall k popped st ln col X,
  length popped = k -> st <> [] ->
  run_stack (popped ++ st) (repeat (dedent_tok ln col) k ++ X) = run_stack st X.
Proof.
  induction k as [|k IH]; intros popped st ln col X Hl Hne.
  - destruct popped; [|discriminate]. auto.
  - destruct popped as [|p popped]; [discriminate|]. injection Hl as Hl. simpl.
    destruct (popped ++ st) eqn:E.
    + apply app_eq_nil in E. destruct E. contradiction.
    + rewrite <- E. apply IH; auto.
Qed.

Lemma pre_shape_run : forall ln st lw pre st1 X,
  pre_shape ln st lw pre st1 -> run_stack st (pre ++ X) = run_stack st1 X.
Proof.
  intros ln st lw pre st1 X H. inversion H; subst; auto.
  - simpl. destruct H2 as [t ->]. rewrite skipn_app_exact. auto.
  - apply run_stack_dedents; auto. discriminate.
Qed.

Lemma pre_shape_top : forall ln st lw pre st1, pre_shape ln st lw pre st1 -> exists tl, st1 = lw :: tl.
Proof. intros ln st lw pre st1 H. inversion H; subst; eauto. Qed.

Lemma pre_shape_syms : forall ln st lw pre st1 t,
  pre_shape ln st lw pre st1 -> In t pre ->
  line t = ln /\ is_lexical t = false /\ sym t <> newline_sym /\
  ((t = dedent_tok ln (S (length lw))) \/
   (exists top, is_prefix top lw /\ lw <> top /\ t = indent_tok ln top lw)).
Proof.
  intros ln st lw pre st1 t H Hin. inversion H; subst.
  - destruct Hin.
  - destruct Hin as [<-|[]]. simpl. repeat split; auto; [discriminate|]. right. eauto.
  - apply repeat_spec in Hin. subst. simpl. repeat split; auto. discriminate.
Qed.

Section Lines.
  Variable T : table.
  Hypothesis Hrf : reserved_free T = true.

  Lemma line_tokens_skip : forall ln L lts, tokenize_line T ln L = LOk lts ->
    Forall (fun t => str_eqb (sym t) indent_sym = false /\ str_eqb (sym t) dedent_sym = false)
           (lts ++ [newline_tok ln L]).
  Proof.
    intros ln L lts H. apply Forall_app. split.
    - apply tokenize_line_ok in H. apply (line_toks_lexical _ _ _ _ _ Hrf) in H.
      eapply Forall_impl; [|exact H]. intros t Ht. apply lexical_not_indent; auto.
    - constructor; [|constructor]. simpl. split; reflexivity.
  Qed.

  Lemma tok_state_run : forall lines ln st body st' X,
    stack_ok st -> tok_state T ln st lines = SOk body st' ->
    stack_ok st' /\ run_stack st (body ++ X) = run_stack st' X.
  Proof.
    induction lines as [|L rest IH]; intros ln st body st' X Hok H; simpl in H.
    - injection H as <- <-. auto.
    - destruct (tokenize_line T (S ln) L) as [lts|e|] eqn:El; try discriminate.
      destruct (all_comment lts) eqn:Ec.
      + destruct (tok_state T (S ln) st rest) as [b2 st2| | |] eqn:Er; try discriminate.
        simpl in H. injection H as <- <-. destruct (IH _ _ _ _ X Hok Er) as [Hok' Hrun].
        split; auto. rewrite <- app_assoc, run_stack_skip; auto. apply line_tokens_skip; auto.
      + destruct (indent_step (S ln) st (take_ws T L)) as [pre st1| |] eqn:Ei; try discriminate.
        apply indent_step_ok in Ei.
        destruct (tok_state T (S ln) st1 rest) as [b2 st2| | |] eqn:Er; try discriminate.
        simpl in H. injection H as <- <-.
        assert (Hok1 : stack_ok st1) by (eapply pre_shape_stack_ok; eauto).
        destruct (IH _ _ _ _ X Hok1 Er) as [Hok' Hrun]. split; auto.
        rewrite <- !app_assoc. rewrite (pre_shape_run _ _ _ _ _ _ Ei).
        rewrite (app_assoc lts), run_stack_skip; auto. apply line_tokens_skip; auto.
  Qed.
End Lines.

Lemma run_stack_eof : forall upper ln col,
  run_stack (upper ++ [[]]) (repeat (dedent_tok ln col) (length upper)) = Some [[]].
Proof.
  intros upper ln col. rewrite <- (app_nil_r (repeat _ _)). rewrite run_stack_dedents; auto. discriminate.
Qed.

Lemma run_stack_counts : forall ts st st',
  run_stack st ts = Some st' ->
  length st + count_sym indent_sym ts = length st' + count_sym dedent_sym ts.
Proof.
  unfold count_sym. induction ts as [|t ts IH]; intros st st' H; simpl in H.
  - injection H as <-. simpl. lia.
  - simpl. destruct (str_eqb (sym t) indent_sym) eqn:Ei.
    + apply str_eqb_eq in Ei. assert (Ed : str_eqb (sym t) dedent_sym = false) by (rewrite Ei; reflexivity).
      rewrite Ed. destruct st as [|top tl]; [discriminate|]. apply IH in H. simpl in *. lia.
    + destruct (str_eqb (sym t) dedent_sym) eqn:Ed.
      * destruct st as [|x [|y tl]]; try discriminate. apply IH in H. simpl in *. lia.
      * apply IH in H. lia.
Qed.

(* ---- no internal error ---- *)
Lemma tok_state_no_internal : forall T lines ln st,
  st <> [] -> tok_state T ln st lines <> SErrInternal.
Proof.
  intros T. induction lines as [|L rest IH]; intros ln st Hne; simpl; [discriminate|].
  destruct (tokenize_line T (S ln) L) as [lts|e|] eqn:El; try discriminate.
  - destruct (all_comment lts).
    + specialize (IH (S ln) st Hne). destruct (tok_state T (S ln) st rest); simpl; congruence.
    + destruct (indent_step (S ln) st (take_ws T L)) as [pre st1| |] eqn:Ei; try discriminate.
      * apply indent_step_ok in Ei. apply pre_shape_top in Ei. destruct Ei as [tl ->].
        specialize (IH (S ln) (take_ws T L :: tl)).
        destruct (tok_state T (S ln) (take_ws T L :: tl) rest); simpl; try congruence.
        intros _. apply IH; [discriminate|auto].
      * unfold indent_step in Ei. destruct st; [contradiction|].
        destruct (str_eqb (take_ws T L) s); [discriminate|].
        destruct (prefixb s (take_ws T L)); [discriminate|].
        destruct (pop_until (S ln) (take_ws T L) (s :: st)) as [[? ?]|]; discriminate.
  - exfalso. eapply tokenize_line_no_fuel; eauto.
Qed.
