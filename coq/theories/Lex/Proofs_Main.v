(* The C10 theorems about [tokenize], derived from the per-line decomposition. *)
From Coq Require Import NArith List Bool Lia Arith PeanoNat.
Import ListNotations.
Require Import EmbossV.Lex.Regex EmbossV.Lex.Tokenizer EmbossV.Lex.Spec.
Require Import EmbossV.Lex.Proofs_Line EmbossV.Lex.Proofs_Lines.

(* ---- list helpers ---- *)
Lemma nth_error_split3 : forall (A : Type) (l : list A) n x,
  nth_error l n = Some x -> l = firstn n l ++ x :: skipn (S n) l /\ length (firstn n l) = n.
Proof.
  induction l as [|y l IH]; intros [|n] x H; simpl in *; try discriminate.
  - injection H as ->. auto.
  - destruct (IH _ _ H) as [E1 E2]. split; [f_equal; auto|auto].
Qed.

Lemma filter_none : forall (A : Type) (f : A -> bool) l, (forall x, In x l -> f x = false) -> filter f l = [].
Proof.
  induction l as [|x l IH]; intros H; simpl; auto.
  rewrite (H x) by (left; auto). apply IH. intros y Hy. apply H. right; auto.
Qed.

Lemma filter_all : forall (A : Type) (f : A -> bool) l, (forall x, In x l -> f x = true) -> filter f l = l.
Proof.
  induction l as [|x l IH]; intros H; simpl; auto.
  rewrite (H x) by (left; auto). f_equal. apply IH. intros y Hy. apply H. right; auto.
Qed.

Lemma take_ws_split : forall T L, exists rest, L = take_ws T L ++ rest /\ all_ws T (take_ws T L).
Proof.
  intros T. induction L as [|c L IH]; simpl.
  - exists []. split; auto. constructor.
  - destruct (is_ws T c) eqn:E.
    + destruct IH as (rest & H1 & H2). exists rest. split; [simpl; f_equal; auto|constructor; auto].
    + exists (c :: L). split; auto. constructor.
Qed.

Lemma take_ws_maximal : forall T L rest, L = take_ws T L ++ rest ->
  match rest with [] => True | c :: _ => is_ws T c = false end.
Proof.
  intros T. induction L as [|c L IH]; intros rest H; simpl in H.
  - destruct rest; auto. discriminate.
  - destruct (is_ws T c) eqn:E.
    + simpl in H. injection H as H. apply IH; auto.
    + simpl in H. subst rest. auto.
Qed.

Lemma all_comment_false : forall ts, all_comment ts = false <-> significant ts.
Proof.
  unfold significant. induction ts as [|t ts IH]; simpl.
  - split; [discriminate|]. intros (t & [] & _).
  - destruct (str_eqb (sym t) comment_sym) eqn:E; simpl.
    + rewrite IH. apply str_eqb_eq in E. split.
      * intros (x & Hx & Hs). eauto.
      * intros (x & [<-|Hx] & Hs); [congruence|eauto].
    + apply str_eqb_neq in E. split; auto. intros _. exists t. auto.
Qed.

Section Main.
  Variable T : table.

  (* ---- structure ---- *)
  Lemma tok_state_range : forall lines ln st body st',
    tok_state T ln st lines = SOk body st' ->
    forall t, In t body -> ln < line t <= ln + length lines.
  Proof.
    induction lines as [|L rest IH]; intros ln st body st' H t Hin; simpl in H.
    - injection H as <- <-. destruct Hin.
    - destruct (tokenize_line T (S ln) L) as [lts|e|] eqn:El; try discriminate.
      assert (Hl : forall x, In x (lts ++ [newline_tok (S ln) L]) -> line x = S ln).
      { intros x Hx. apply in_app_or in Hx. destruct Hx as [Hx|[<-|[]]]; auto.
        eapply line_toks_line; eauto. apply tokenize_line_ok; eauto. }
      simpl. destruct (all_comment lts).
      + destruct (tok_state T (S ln) st rest) as [b2 st2| | |] eqn:Er; try discriminate.
        simpl in H. injection H as <- <-. apply in_app_or in Hin. destruct Hin as [Hin|Hin].
        * apply Hl in Hin. lia.
        * eapply IH in Hin; eauto. lia.
      + destruct (indent_step (S ln) st (take_ws T L)) as [pre st1| |] eqn:Ei; try discriminate.
        apply indent_step_ok in Ei.
        destruct (tok_state T (S ln) st1 rest) as [b2 st2| | |] eqn:Er; try discriminate.
        simpl in H. injection H as <- <-. apply in_app_or in Hin. destruct Hin as [Hin|Hin].
        * apply in_app_or in Hin. destruct Hin as [Hin|Hin].
          -- eapply pre_shape_syms in Hin; eauto. destruct Hin as [Hin _]. lia.
          -- apply Hl in Hin. lia.
        * eapply IH in Hin; eauto. lia.
  Qed.

  Lemma tok_state_err_line : forall lines ln st n a b,
    (tok_state T ln st lines = SErrIndent n a b \/ tok_state T ln st lines = SErrToken n a b) -> ln < n.
  Proof.
    induction lines as [|L rest IH]; intros ln st n a b H; simpl in H.
    - destruct H; discriminate.
    - destruct (tokenize_line T (S ln) L) as [lts|e|] eqn:El.
      + destruct (all_comment lts).
        * assert (ln' : S ln < n); [|lia]. apply (IH (S ln) st n a b).
          destruct (tok_state T (S ln) st rest); simpl in H; auto; destruct H; discriminate.
        * destruct (indent_step (S ln) st (take_ws T L)) as [pre st1| |].
          -- assert (ln' : S ln < n); [|lia]. apply (IH (S ln) st1 n a b).
             destruct (tok_state T (S ln) st1 rest); simpl in H; auto; destruct H; discriminate.
          -- destruct H as [H|H]; [|discriminate]. injection H as <- _ _. lia.
          -- destruct H; discriminate.
      + destruct H as [H|H]; [discriminate|]. injection H as <- _ _. lia.
      + destruct H; discriminate.
  Qed.

  Lemma tok_state_cons : forall ln st L rest,
    tok_state T ln st (L :: rest) =
    match tokenize_line T (S ln) L with
    | LFuel => SErrInternal
    | LErr off => SErrToken (S ln) (S off) (S (S off))
    | LOk lts =>
        if all_comment lts then
          sprepend (lts ++ [newline_tok (S ln) L]) (tok_state T (S ln) st rest)
        else
          match indent_step (S ln) st (take_ws T L) with
          | IEmpty => SErrInternal
          | IBad => SErrIndent (S ln) 1 (S (length (take_ws T L)))
          | IOk pre st' =>
              sprepend (pre ++ lts ++ [newline_tok (S ln) L]) (tok_state T (S ln) st' rest)
          end
    end.
  Proof. reflexivity. Qed.

  Definition line_piece (n : nat) (L : str) (st0 : list str) (pre lts : list token) (st1 : list str) : Prop :=
    tokenize_line T n L = LOk lts /\
    ((all_comment lts = true /\ pre = [] /\ st1 = st0) \/
     (all_comment lts = false /\ pre_shape n st0 (take_ws T L) pre st1)).

  Lemma tok_state_split : forall lines ln st body st' l L,
    tok_state T ln st lines = SOk body st' -> nth_error lines l = Some L ->
    exists before pre lts after st0 st1,
      body = before ++ (pre ++ lts ++ [newline_tok (S (ln + l)) L]) ++ after /\
      tok_state T ln st (firstn l lines) = SOk before st0 /\
      line_piece (S (ln + l)) L st0 pre lts st1 /\
      tok_state T (S (ln + l)) st1 (skipn (S l) lines) = SOk after st'.
  Proof.
    intros lines ln st body st' l L H Hn.
    destruct (nth_error_split3 _ _ _ _ Hn) as [E Hl].
    remember (firstn l lines) as l1 eqn:E1. remember (skipn (S l) lines) as l2 eqn:E2.
    rewrite E in H. rewrite tok_state_app in H.
    destruct (tok_state T ln st l1) as [before st0| | |] eqn:Eb; try discriminate.
    rewrite Hl in H. simpl in H.
    destruct (tokenize_line T (S (ln + l)) L) as [lts|e|] eqn:El; try discriminate.
    destruct (all_comment lts) eqn:Ec.
    - destruct (tok_state T (S (ln + l)) st0 l2) as [after st2| | |] eqn:Ea; try discriminate.
      simpl in H. injection H as <- <-.
      exists before, [], lts, after, st0, st0. simpl. repeat split; auto; left; auto.
    - destruct (indent_step (S (ln + l)) st0 (take_ws T L)) as [pre st1| |] eqn:Ei; try discriminate.
      apply indent_step_ok in Ei.
      destruct (tok_state T (S (ln + l)) st1 l2) as [after st2| | |] eqn:Ea; try discriminate.
      simpl in H. injection H as <- <-.
      exists before, pre, lts, after, st0, st1. rewrite <- !app_assoc. repeat split; auto; right; auto.
  Qed.

  Lemma tokenize_lines_inv : forall lines ts,
    tokenize_lines T lines = Toks ts ->
    exists body st', tok_state T 0 [[]] lines = SOk body st' /\
                     ts = body ++ repeat (dedent_tok (S (length lines)) 1) (pred (length st')).
  Proof.
    intros lines ts H. unfold tokenize_lines in H. rewrite tok_lines_state in H. simpl in H.
    destruct (tok_state T 0 [[]] lines) as [body st'| | |]; simpl in H; try discriminate.
    injection H as <-. eauto.
  Qed.

  (* where a token of the output comes from *)
  Inductive origin (lines : list str) (t : token) : Prop :=
  | O_eof : t = dedent_tok (S (length lines)) 1 -> origin lines t
  | O_newline : forall l L, nth_error lines l = Some L -> t = newline_tok (S l) L -> origin lines t
  | O_lex : forall l L lts, nth_error lines l = Some L -> tokenize_line T (S l) L = LOk lts -> In t lts ->
      origin lines t
  | O_dedent : forall l L, nth_error lines l = Some L ->
      t = dedent_tok (S l) (S (length (take_ws T L))) -> origin lines t
  | O_indent : forall l L top, nth_error lines l = Some L ->
      is_prefix top (take_ws T L) -> take_ws T L <> top ->
      t = indent_tok (S l) top (take_ws T L) -> origin lines t.

  Lemma token_origin : forall lines ts t,
    tokenize_lines T lines = Toks ts -> In t ts -> origin lines t.
  Proof.
    intros lines ts t H Hin. destruct (tokenize_lines_inv _ _ H) as (body & st' & Hs & ->).
    apply in_app_or in Hin. destruct Hin as [Hin|Hin].
    - pose proof (tok_state_range _ _ _ _ _ Hs t Hin) as Hr. simpl in Hr.
      destruct (nth_error lines (line t - 1)) as [L|] eqn:En.
      2:{ apply nth_error_None in En. lia. }
      destruct (tok_state_split _ _ _ _ _ _ _ Hs En) as (before & pre & lts & after & st0 & st1 & -> & Hb & [Hl Hp] & Ha).
      assert (Eln : S (0 + (line t - 1)) = line t) by lia. rewrite Eln in *.
      assert (Eln' : S (line t - 1) = line t) by lia.
      apply in_app_or in Hin. destruct Hin as [Hin|Hin].
      { pose proof (tok_state_range _ _ _ _ _ Hb t Hin) as Hr2. rewrite firstn_length in Hr2. lia. }
      apply in_app_or in Hin. destruct Hin as [Hin|Hin].
      2:{ pose proof (tok_state_range _ _ _ _ _ Ha t Hin) as Hr2. lia. }
      apply in_app_or in Hin. destruct Hin as [Hin|Hin].
      + destruct Hp as [(_ & -> & _)|[_ Hp]]; [destruct Hin|].
        eapply pre_shape_syms in Hin; eauto. destruct Hin as (_ & _ & _ & [Hd|(top & Hpre & Hne & Hi)]).
        * eapply (O_dedent lines t (line t - 1) L); eauto. rewrite Eln'. exact Hd.
        * eapply (O_indent lines t (line t - 1) L top); eauto. rewrite Eln'. exact Hi.
      + apply in_app_or in Hin. destruct Hin as [Hin|[Hin|[]]].
        * eapply (O_lex lines t (line t - 1) L lts); eauto. rewrite Eln'. auto.
        * eapply (O_newline lines t (line t - 1) L); eauto. rewrite Eln'. auto.
    - apply repeat_spec in Hin. apply O_eof. auto.
  Qed.

  (* ---- positions ---- *)
  Lemma lex_slice : forall n L lts t,
    tokenize_line T n L = LOk lts -> In t lts ->
    line t = n /\ slice_of L t /\ text t <> [] /\
    longest_first_choice (all_pats T) (skipn (c0 t - 1) L) (length (text t)) (Some (sym t)).
  Proof.
    intros n L lts t H Hin. apply tokenize_line_ok in H. apply line_toks_at in H.
    rewrite Forall_forall in H. apply H in Hin.
    destruct Hin as [Hl (k & _ & Hc0 & Hc1 & Hb & Hne & Htx & Hlf)].
    rewrite Nat.sub_0_r in *. simpl in Hb.
    unfold slice_of. replace (c0 t - 1) with k by lia.
    split; [auto|]. split; [|split; auto]. split; [lia|]. split; [auto|]. split; [lia|auto].
  Qed.

  Theorem positions_exact_proof : forall lines ts t,
    tokenize_lines T lines = Toks ts -> In t ts ->
    sym t <> newline_sym -> line t <= length lines ->
    1 <= line t /\ exists L, nth_error lines (line t - 1) = Some L /\ slice_of L t.
  Proof.
    intros lines ts t H Hin Hs Hl. destruct (token_origin _ _ _ H Hin) as [E|l L En E|l L lts En El Hi|l L En E|l L top En Hp Hne E].
    - subst t. simpl in Hl. lia.
    - subst t. simpl in Hs. congruence.
    - destruct (lex_slice _ _ _ _ El Hi) as (Hln & Hsl & _). rewrite Hln. simpl.
      rewrite Nat.sub_0_r. split; [lia|]. eauto.
    - subst t. simpl. rewrite Nat.sub_0_r. split; [lia|]. exists L. split; auto.
      destruct (take_ws_split T L) as (rest & HL & _).
      assert (HLl : length L = length (take_ws T L) + length rest) by (rewrite HL at 1; apply app_length).
      unfold slice_of. simpl. repeat split; try lia.
    - subst t. simpl. rewrite Nat.sub_0_r. split; [lia|]. exists L. split; auto.
      destruct (take_ws_split T L) as (rest & HL & _). destruct Hp as [x Hx].
      unfold slice_of. simpl. rewrite Nat.sub_0_r.
      assert (Hlen : length (skipn (length top) (take_ws T L)) = length x).
      { rewrite Hx at 1. rewrite skipn_app_exact. auto. }
      assert (Hlw : length (take_ws T L) = length top + length x) by (rewrite Hx at 1; apply app_length).
      assert (HLl : length L = length (take_ws T L) + length rest) by (rewrite HL at 1; apply app_length).
      repeat split; try lia.
      rewrite Hlen. rewrite HL at 2. rewrite Hx at 2. rewrite <- app_assoc, skipn_app_exact.
        rewrite firstn_app_exact. rewrite Hx at 1. apply skipn_app_exact.
  Qed.

  Theorem positions_beyond_proof : forall lines ts t,
    tokenize_lines T lines = Toks ts -> In t ts -> length lines < line t ->
    t = dedent_tok (S (length lines)) 1.
  Proof.
    intros lines ts t H Hin Hl. destruct (token_origin _ _ _ H Hin) as [E|l L En E|l L lts En El Hi|l L En E|l L top En Hp Hne E]; auto;
      assert (Hlt : l < length lines) by (apply nth_error_Some; congruence).
    - subst t. simpl in Hl. lia.
    - destruct (lex_slice _ _ _ _ El Hi) as (Hln & _). lia.
    - subst t. simpl in Hl. lia.
    - subst t. simpl in Hl. lia.
  Qed.

  Theorem longest_first_proof : forall lines ts t,
    tokenize_lines T lines = Toks ts -> In t ts -> is_lexical t = true ->
    exists L, nth_error lines (line t - 1) = Some L /\
      longest_first_choice (all_pats T) (skipn (c0 t - 1) L) (length (text t)) (Some (sym t)).
  Proof.
    intros lines ts t H Hin Hlex. destruct (token_origin _ _ _ H Hin) as [E|l L En E|l L lts En El Hi|l L En E|l L top En Hp Hne E];
      try (subst t; discriminate).
    destruct (lex_slice _ _ _ _ El Hi) as (Hln & _ & _ & Hlf). rewrite Hln. simpl. rewrite Nat.sub_0_r. eauto.
  Qed.

  (* ---- per-line theorems (need: no table symbol is Indent/Dedent/"\n") ---- *)
  Hypothesis Hrf : reserved_free T = true.

  Lemma lexical_sym_not_newline : forall t, is_lexical t = true -> sym t <> newline_sym.
  Proof.
    intros t H E. unfold is_lexical in H. rewrite E in H. simpl in H.
    rewrite ?andb_false_r in H. discriminate.
  Qed.

  Lemma line_tokens_lexical : forall n L lts t, tokenize_line T n L = LOk lts -> In t lts ->
    is_lexical t = true /\ line t = n.
  Proof.
    intros n L lts t H Hin. apply tokenize_line_ok in H. split.
    - apply (line_toks_lexical _ _ _ _ _ Hrf) in H. rewrite Forall_forall in H. auto.
    - eapply line_toks_line; eauto.
  Qed.

  Theorem newline_per_line_proof : forall lines ts l L,
    tokenize_lines T lines = Toks ts -> nth_error lines l = Some L ->
    exists pre post, ts = pre ++ newline_tok (S l) L :: post /\
      (forall t, In t pre -> line t < S l \/ (line t = S l /\ sym t <> newline_sym)) /\
      (forall t, In t post -> S l < line t).
  Proof.
    intros lines ts l L H En. destruct (tokenize_lines_inv _ _ H) as (body & st' & Hs & ->).
    destruct (tok_state_split _ _ _ _ _ _ _ Hs En) as (before & pre & lts & after & st0 & st1 & -> & Hb & [Hl Hp] & Ha).
    simpl in *.
    exists (before ++ pre ++ lts), (after ++ repeat (dedent_tok (S (length lines)) 1) (pred (length st'))).
    split; [rewrite <- !app_assoc; simpl; auto|]. split.
    - intros t Hin. apply in_app_or in Hin. destruct Hin as [Hin|Hin].
      + pose proof (tok_state_range _ _ _ _ _ Hb t Hin) as Hr. rewrite firstn_length in Hr. left. lia.
      + right. apply in_app_or in Hin. destruct Hin as [Hin|Hin].
        * destruct Hp as [(_ & -> & _)|[_ Hp]]; [destruct Hin|].
          eapply pre_shape_syms in Hin; eauto. destruct Hin as (H1 & _ & H2 & _). auto.
        * destruct (line_tokens_lexical _ _ _ _ Hl Hin) as [H1 H2]. split; auto.
          apply lexical_sym_not_newline; auto.
    - intros t Hin. apply in_app_or in Hin. destruct Hin as [Hin|Hin].
      + pose proof (tok_state_range _ _ _ _ _ Ha t Hin) as Hr. lia.
      + apply repeat_spec in Hin. subst t. simpl.
        assert (l < length lines) by (apply nth_error_Some; congruence). lia.
  Qed.

  Lemma lexical_on_line_eq : forall lines ts l L,
    tokenize_lines T lines = Toks ts -> nth_error lines l = Some L ->
    exists lts, tokenize_line T (S l) L = LOk lts /\ lexical_on_line (S l) ts = lts.
  Proof.
    intros lines ts l L H En. destruct (tokenize_lines_inv _ _ H) as (body & st' & Hs & ->).
    destruct (tok_state_split _ _ _ _ _ _ _ Hs En) as (before & pre & lts & after & st0 & st1 & -> & Hb & [Hl Hp] & Ha).
    simpl in *. exists lts. split; auto.
    assert (Hlt : l < length lines) by (apply nth_error_Some; congruence).
    unfold lexical_on_line, on_line. rewrite !filter_app.
    rewrite (filter_none _ _ before).
    2:{ intros t Hin. pose proof (tok_state_range _ _ _ _ _ Hb t Hin) as Hr. rewrite firstn_length in Hr.
        apply Nat.eqb_neq. lia. }
    rewrite (filter_none _ _ after).
    2:{ intros t Hin. pose proof (tok_state_range _ _ _ _ _ Ha t Hin) as Hr. apply Nat.eqb_neq. lia. }
    rewrite (filter_none _ _ (repeat _ _)).
    2:{ intros t Hin. apply repeat_spec in Hin. subst t. simpl. apply Nat.eqb_neq. lia. }
    rewrite (filter_all _ _ pre).
    2:{ intros t Hin. destruct Hp as [(_ & -> & _)|[_ Hp]]; [destruct Hin|].
        eapply pre_shape_syms in Hin; eauto. destruct Hin as (H1 & _). apply Nat.eqb_eq. auto. }
    rewrite (filter_all _ _ lts).
    2:{ intros t Hin. destruct (line_tokens_lexical _ _ _ _ Hl Hin) as [_ H2]. apply Nat.eqb_eq. auto. }
    simpl. rewrite Nat.eqb_refl. simpl. rewrite !app_nil_r.
    rewrite (filter_none _ _ pre).
    2:{ intros t Hin. destruct Hp as [(_ & -> & _)|[_ Hp]]; [destruct Hin|].
        eapply pre_shape_syms in Hin; eauto. destruct Hin as (_ & H1 & _). auto. }
    rewrite (filter_all _ _ lts).
    2:{ intros t Hin. destruct (line_tokens_lexical _ _ _ _ Hl Hin) as [H1 _]. auto. }
    reflexivity.
  Qed.

  Theorem tokens_cover_proof : forall lines ts l L,
    skips_only_ws T = true ->
    tokenize_lines T lines = Toks ts -> nth_error lines l = Some L ->
    line_cover T 1 L (lexical_on_line (S l) ts).
  Proof.
    intros lines ts l L Hsk H En. destruct (lexical_on_line_eq _ _ _ _ H En) as (lts & Hl & ->).
    apply tokenize_line_ok in Hl. eapply line_toks_cover; eauto.
  Qed.

  (* ---- Indent / Dedent ---- *)
  Lemma stack_ok_init : stack_ok [[]].
  Proof. exists []. auto. Qed.

  Theorem indent_balanced_proof : forall lines ts,
    tokenize_lines T lines = Toks ts ->
    run_stack [[]] ts = Some [[]] /\ count_sym indent_sym ts = count_sym dedent_sym ts.
  Proof.
    intros lines ts H. destruct (tokenize_lines_inv _ _ H) as (body & st' & Hs & ->).
    assert (Hrun : run_stack [[]] (body ++ repeat (dedent_tok (S (length lines)) 1) (pred (length st'))) = Some [[]]).
    { destruct (tok_state_run T Hrf _ _ _ _ _ (repeat (dedent_tok (S (length lines)) 1) (pred (length st'))) stack_ok_init Hs)
        as [[upper ->] Hrun].
      rewrite Hrun. rewrite app_length. simpl. rewrite Nat.add_1_r. simpl. apply run_stack_eof. }
    split; auto. apply run_stack_counts in Hrun. simpl in Hrun. lia.
  Qed.

  (* the open levels in front of the first lexical token of a significant line *)
  Theorem indent_mirror_proof : forall lines ts l L,
    tokenize_lines T lines = Toks ts -> nth_error lines l = Some L ->
    significant (lexical_on_line (S l) ts) ->
    exists P Q tl, ts = P ++ Q /\
      (forall t, In t P -> line t < S l \/ (line t = S l /\ is_lexical t = false)) /\
      (forall t, In t Q -> S l < line t \/ (line t = S l /\ (is_lexical t = true \/ sym t = newline_sym))) /\
      run_stack [[]] P = Some (take_ws T L :: tl).
  Proof.
    intros lines ts l L H En Hsig. destruct (lexical_on_line_eq _ _ _ _ H En) as (lts & Hl & E).
    rewrite E in Hsig. apply all_comment_false in Hsig.
    destruct (tokenize_lines_inv _ _ H) as (body & st' & Hs & ->).
    destruct (tok_state_split _ _ _ _ _ _ _ Hs En) as (before & pre & lts' & after & st0 & st1 & -> & Hb & [Hl' Hp] & Ha).
    simpl in *. rewrite Hl in Hl'. injection Hl' as <-.
    destruct Hp as [(Hc & _)|[_ Hp]]; [congruence|].
    destruct (pre_shape_top _ _ _ _ _ Hp) as [tl ->].
    exists (before ++ pre), (lts ++ [newline_tok (S l) L] ++ after ++ repeat (dedent_tok (S (length lines)) 1) (pred (length st'))), tl.
    split; [rewrite <- !app_assoc; auto|]. split; [|split].
    - intros t Hin. apply in_app_or in Hin. destruct Hin as [Hin|Hin].
      + pose proof (tok_state_range _ _ _ _ _ Hb t Hin) as Hr. rewrite firstn_length in Hr. left. lia.
      + right. eapply pre_shape_syms in Hin; eauto. destruct Hin as (H1 & H2 & _). auto.
    - assert (Hlt : l < length lines) by (apply nth_error_Some; congruence).
      intros t Hin. apply in_app_or in Hin. destruct Hin as [Hin|Hin].
      + right. destruct (line_tokens_lexical _ _ _ _ Hl Hin). auto.
      + apply in_app_or in Hin. destruct Hin as [[<-|[]]|Hin]; [right; simpl; auto|].
        left. apply in_app_or in Hin. destruct Hin as [Hin|Hin].
        * pose proof (tok_state_range _ _ _ _ _ Ha t Hin) as Hr. lia.
        * apply repeat_spec in Hin. subst t. simpl. lia.
    - destruct (tok_state_run T Hrf _ _ _ _ _ pre stack_ok_init Hb) as [_ Hrun].
      rewrite Hrun. rewrite <- (app_nil_r pre). rewrite (pre_shape_run _ _ _ _ _ [] Hp). auto.
  Qed.

  (* ---- errors ---- *)
  Theorem no_internal_error_proof : forall lines, tokenize_lines T lines <> ErrInternal.
  Proof.
    intros lines H. unfold tokenize_lines in H. rewrite tok_lines_state in H.
    pose proof (tok_state_no_internal T lines 0 [[]]) as Hn.
    destruct (tok_state T 0 [[]] lines); simpl in H; try discriminate. apply Hn; [discriminate|auto].
  Qed.

  Lemma finish_err_indent : forall n r ln a b, finish n r = ErrIndent ln a b <-> r = SErrIndent ln a b.
  Proof. intros n [body st|ln0 a0 b0|ln0 a0 b0|] ln a b; simpl; split; intros H; try discriminate; congruence. Qed.

  Lemma finish_err_token : forall n r ln a b, finish n r = ErrToken ln a b <-> r = SErrToken ln a b.
  Proof. intros n [body st|ln0 a0 b0|ln0 a0 b0|] ln a b; simpl; split; intros H; try discriminate; congruence. Qed.

  Lemma finish_toks : forall n r ts, finish n r = Toks ts -> exists body st, r = SOk body st.
  Proof. intros n [body st|ln0 a0 b0|ln0 a0 b0|] ts; simpl; intros H; try discriminate; eauto. Qed.

  (* the tokens of lines ls without the synthesised end-of-file Dedents *)
  Definition open_levels (ts : list token) (n : nat) : option (list str) :=
    run_stack [[]] (filter (fun t => line t <=? n) ts).

  Lemma open_levels_state : forall ls ts,
    tokenize_lines T ls = Toks ts ->
    exists body st, tok_state T 0 [[]] ls = SOk body st /\ open_levels ts (length ls) = Some st /\ st <> [].
  Proof.
    intros ls ts H. destruct (tokenize_lines_inv _ _ H) as (body & st' & Hs & ->).
    exists body, st'. split; auto. unfold open_levels. rewrite filter_app.
    rewrite (filter_all _ _ body).
    2:{ intros t Hin. pose proof (tok_state_range _ _ _ _ _ Hs t Hin). apply Nat.leb_le. lia. }
    rewrite (filter_none _ _ (repeat _ _)).
    2:{ intros t Hin. apply repeat_spec in Hin. subst t. apply Nat.leb_gt. simpl. lia. }
    destruct (tok_state_run T Hrf _ _ _ _ _ [] stack_ok_init Hs) as [[upper ->] Hrun].
    rewrite Hrun. simpl. split; auto. destruct upper; discriminate.
  Qed.

  Theorem bad_indent_iff_proof : forall ls L more ts,
    tokenize_lines T ls = Toks ts ->
    exists st, open_levels ts (length ls) = Some st /\
    (tokenize_lines T (ls ++ L :: more) = ErrIndent (S (length ls)) 1 (S (length (take_ws T L))) <->
     exists lts, tokenize_line T (S (length ls)) L = LOk lts /\ significant lts /\
                 ~ is_prefix (hd [] st) (take_ws T L) /\ ~ In (take_ws T L) st).
  Proof.
    intros ls L more ts H. destruct (open_levels_state _ _ H) as (body & st & Hs & Ho & Hne).
    exists st. split; auto.
    unfold tokenize_lines. rewrite tok_lines_state, finish_err_indent, tok_state_app, Hs.
    change (0 + length ls) with (length ls). rewrite tok_state_cons.
    destruct st as [|top tl]; [congruence|]. cbn [hd].
    destruct (tokenize_line T (S (length ls)) L) as [lts|e|] eqn:El.
    - destruct (all_comment lts) eqn:Ec.
      + split.
        * intros Hx. exfalso.
          destruct (tok_state T (S (length ls)) (top :: tl) more) eqn:Em; simpl in Hx; try discriminate.
          injection Hx as Hx _ _. pose proof (tok_state_err_line _ _ _ _ _ _ (or_introl Em)). lia.
        * intros (lts' & E & Hsig & _). injection E as <-. apply all_comment_false in Hsig. congruence.
      + destruct (indent_step (S (length ls)) (top :: tl) (take_ws T L)) as [pre st1| |] eqn:Ei.
        * split.
          -- intros Hx. exfalso.
             destruct (tok_state T (S (length ls)) st1 more) eqn:Em; simpl in Hx; try discriminate.
             injection Hx as Hx _ _. pose proof (tok_state_err_line _ _ _ _ _ _ (or_introl Em)). lia.
          -- intros (lts' & E & Hsig & Hnp & Hni).
             assert (Hb : indent_step (S (length ls)) (top :: tl) (take_ws T L) = IBad) by (apply indent_step_bad; auto).
             congruence.
        * split; auto. intros _. exists lts. split; auto. split; [apply all_comment_false; auto|].
          apply indent_step_bad in Ei. auto.
        * exfalso. unfold indent_step in Ei.
          destruct (str_eqb (take_ws T L) top); [discriminate|].
          destruct (prefixb top (take_ws T L)); [discriminate|].
          destruct (pop_until (S (length ls)) (take_ws T L) (top :: tl)) as [[? ?]|]; discriminate.
    - split; [discriminate|]. intros (lts' & E & _). discriminate.
    - split; [discriminate|]. intros (lts' & E & _). discriminate.
  Qed.

  (* an error is reported on the first offending line: everything before it tokenizes *)
  Theorem error_location_proof : forall lines n a b,
    (tokenize_lines T lines = ErrIndent n a b \/ tokenize_lines T lines = ErrToken n a b) ->
    exists ls L more ts, lines = ls ++ L :: more /\ n = S (length ls) /\ tokenize_lines T ls = Toks ts.
  Proof.
    intros lines n a b H. unfold tokenize_lines in *.
    assert (G : forall lines ln st,
      (tok_state T ln st lines = SErrIndent n a b \/ tok_state T ln st lines = SErrToken n a b) ->
      exists ls L more body st1, lines = ls ++ L :: more /\ n = S (ln + length ls) /\
                                 tok_state T ln st ls = SOk body st1).
    { clear lines H. induction lines as [|L rest IH]; intros ln st H; simpl in H.
      - destruct H; discriminate.
      - assert (Hhere : exists ls L0 more body st1, L :: rest = ls ++ L0 :: more /\ S ln = S (ln + length ls) /\
                  tok_state T ln st ls = SOk body st1).
        { exists [], L, rest, [], st. simpl. repeat split; auto. }
        assert (Hlater : forall xs st2,
                  (sprepend xs (tok_state T (S ln) st2 rest) = SErrIndent n a b \/
                   sprepend xs (tok_state T (S ln) st2 rest) = SErrToken n a b) ->
                  tok_state T ln st [L] = SOk xs st2 ->
                  exists ls L0 more body st1, L :: rest = ls ++ L0 :: more /\ n = S (ln + length ls) /\
                  tok_state T ln st ls = SOk body st1).
        { intros xs st2 Hx H1.
          assert (Hr : tok_state T (S ln) st2 rest = SErrIndent n a b \/ tok_state T (S ln) st2 rest = SErrToken n a b).
          { destruct (tok_state T (S ln) st2 rest); simpl in Hx; auto. destruct Hx; discriminate. }
          destruct (IH _ _ Hr) as (ls & L0 & more & body & st1 & -> & -> & Hs).
          exists (L :: ls), L0, more, (xs ++ body), st1.
          split; [reflexivity|]. split; [simpl; lia|].
          change (L :: ls) with ([L] ++ ls). rewrite tok_state_app, H1.
          replace (ln + length [L]) with (S ln) by (simpl; lia). rewrite Hs. reflexivity. }
        destruct (tokenize_line T (S ln) L) as [lts|e|] eqn:El.
        + destruct (all_comment lts) eqn:Ec.
          * eapply Hlater; eauto. simpl. rewrite El, Ec. simpl. rewrite app_nil_r. auto.
          * destruct (indent_step (S ln) st (take_ws T L)) as [pre st1| |] eqn:Ei.
            -- eapply Hlater; eauto. simpl. rewrite El, Ec, Ei. simpl. rewrite app_nil_r. auto.
            -- destruct H as [H|H]; [|discriminate]. injection H as <- _ _. auto.
            -- destruct H; discriminate.
        + destruct H as [H|H]; [discriminate|]. injection H as <- _ _. auto.
        + destruct H; discriminate. }
    rewrite tok_lines_state in H.
    assert (H' : tok_state T 0 [[]] lines = SErrIndent n a b \/ tok_state T 0 [[]] lines = SErrToken n a b).
    { destruct H as [H|H]; [left; apply finish_err_indent in H|right; apply finish_err_token in H]; auto. }
    destruct (G _ _ _ H') as (ls & L & more & body & st1 & -> & -> & Hs).
    exists ls, L, more. eexists. repeat split; auto. rewrite tok_lines_state, Hs. simpl. reflexivity.
  Qed.

  (* "Unrecognized token": the line tokenizes up to column a-1 and nothing in the table matches there *)
  Theorem unrecognized_token_proof : forall ls L more ts,
    tokenize_lines T ls = Toks ts ->
    forall a b, tokenize_lines T (ls ++ L :: more) = ErrToken (S (length ls)) a b ->
      b = S a /\ line_err T 0 L (a - 1) /\ 1 <= a.
  Proof.
    intros ls L more ts H a b. destruct (open_levels_state _ _ H) as (body & st & Hs & _ & _).
    unfold tokenize_lines. rewrite tok_lines_state, finish_err_token, tok_state_app, Hs.
    change (0 + length ls) with (length ls). rewrite tok_state_cons.
    destruct (tokenize_line T (S (length ls)) L) as [lts|e|] eqn:El.
    - intros Hx. exfalso. destruct (all_comment lts).
      + destruct (tok_state T (S (length ls)) st more) eqn:Em; simpl in Hx; try discriminate.
        injection Hx as Hx _ _. pose proof (tok_state_err_line _ _ _ _ _ _ (or_intror Em)). lia.
      + destruct (indent_step (S (length ls)) st (take_ws T L)); try discriminate.
        destruct (tok_state T (S (length ls)) st0 more) eqn:Em; simpl in Hx; try discriminate.
        injection Hx as Hx _ _. pose proof (tok_state_err_line _ _ _ _ _ _ (or_intror Em)). lia.
    - intros Hx. injection Hx as <- <-. simpl. rewrite Nat.sub_0_r.
      apply tokenize_line_err in El. repeat split; auto. lia.
    - discriminate.
  Qed.
End Main.
