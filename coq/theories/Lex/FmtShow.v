(* C11, handler level (definitions only): the second configuration of the formatter,
   format_emboss_parse_tree(tree, Config(indent_width, show_line_types=True)):
   _render_rows_to_text prefixes every line with  row.name.ljust(max_row_name_len) + "|".
   The handler DSL's ERender is the show_line_types=False rendering; the True variant is the same walk with
   the top-level ERender replaced by [render_rows_show] (fail closed when the root handler is not an ERender). *)
From Coq Require Import NArith List Bool Arith PeanoNat.
Import ListNotations.
Require Import EmbossV.Lex.Regex EmbossV.Lex.FmtModel.

Definition ljust_str (s : str) (w : nat) : str := s ++ repeat 32%N (w - length s).
Definition max_name_len (rows : list row) : nat := fold_right (fun r m => Nat.max (length (rname r)) m) 0 rows.

Fixpoint render_rows_show (ws : N -> bool) (iw w : nat) (rows : list row) : option gstr :=
  match rows with
  | [] => Some []
  | r :: rest => match render_row ws iw r, render_rows_show ws iw w rest with
                 | Some t, Some u => Some (GLit (ljust_str (rname r) w ++ [124%N]) :: t ++ GLit [10%N] :: u)
                 | _, _ => None
                 end
  end.

Fixpoint format_all (ws : N -> bool) (iw : nat) (tbl : list handler) (cs : list tree) : option (list value) :=
  match cs with
  | [] => Some []
  | c :: cs' => match format ws iw tbl c, format_all ws iw tbl cs' with
                | Some v, Some vs => Some (v :: vs)
                | _, _ => None
                end
  end.

Definition format_text_show (ws : N -> bool) (iw : nat) (tbl : list handler) (t : tree) : option str :=
  match t with
  | Leaf _ _ => None
  | Node p cs =>
      match nth_error tbl p with
      | Some h =>
          match hexpr h, format_all ws iw tbl cs with
          | ERender e', Some vs =>
              if length vs =? length (hrhs h) then
                match get_rows (eval ws iw vs e') with
                | Some rs => option_map flat (render_rows_show ws iw (max_name_len rs) rs)
                | None => None
                end
              else None
          | _, _ => None
          end
      | None => None
      end
  end.

