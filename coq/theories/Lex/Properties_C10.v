(* C10 — tokenization is lossless, position-accurate and classifies as documented.
   Every theorem is for ALL pattern tables T and ALL strings (lists of code points);
   the generated instance file applies them to the table regenerated from tokenizer.py. *)
From Coq Require Import NArith List Bool Arith.
Import ListNotations.
Require Import EmbossV.Lex.Regex EmbossV.Lex.Tokenizer EmbossV.Lex.Spec EmbossV.Lex.Class EmbossV.Lex.Instance.
Require Import EmbossV.Lex.Proofs_Line EmbossV.Lex.Proofs_Lines EmbossV.Lex.Proofs_Main EmbossV.Lex.Proofs_Split.
Require Import EmbossV.Lex.Proofs_Class EmbossV.Lex.Proofs_Number EmbossV.Lex.Proofs_Examples.

(* the matcher returns exactly the longest matching prefix (DESIGN Appendix B) *)
Theorem longest_spec : forall r s n,
  longest r s = Some n <->
  n <= length s /\ matches r (firstn n s) (skipn n s) /\
  forall m, n < m <= length s -> ~ matches r (firstn m s) (skipn m s).
Proof. exact longest_spec_proof. Qed.

(* lines and terminators rebuild the text; lines contain no terminator *)
Theorem splitlines_rebuild : forall s,
  exists terms, length terms = length (splitlines s) /\ join (splitlines s) terms = s /\
                Forall no_break (splitlines s) /\ Forall (fun t => is_terminator t \/ t = []) terms.
Proof. exact splitlines_rebuild_proof. Qed.

(* the lexical tokens of a line, in order, with white-space gaps, rebuild the line:
   every non-blank character lies in exactly one token *)
Theorem tokens_cover : forall T s ts l L,
  reserved_free T = true -> skips_only_ws T = true ->
  tokenize T s = Toks ts -> nth_error (splitlines s) l = Some L ->
  line_cover T 1 L (lexical_on_line (S l) ts).
Proof. intros T s ts l L Hrf Hsk. exact (tokens_cover_proof T Hrf (splitlines s) ts l L Hsk). Qed.

(* token text = source slice at the reported line and columns; exact guard: not a newline token,
   and not one of the synthesised end-of-file Dedents (line beyond the text) *)
Theorem positions_exact : forall T s ts t,
  tokenize T s = Toks ts -> In t ts -> sym t <> newline_sym -> line t <= length (splitlines s) ->
  1 <= line t /\ exists L, nth_error (splitlines s) (line t - 1) = Some L /\ slice_of L t.
Proof. intros T s. exact (positions_exact_proof T (splitlines s)). Qed.

Theorem positions_beyond_last_line : forall T s ts t,
  tokenize T s = Toks ts -> In t ts -> length (splitlines s) < line t ->
  t = dedent_tok (S (length (splitlines s))) 1.
Proof. intros T s. exact (positions_beyond_proof T (splitlines s)). Qed.

(* refuted without the guards (finding F16: end-of-file Dedent at (last_line+1, 1)) *)
Theorem positions_exact_refuted :
  exists T s ts t, reserved_free T = true /\ tokenize T s = Toks ts /\ In t ts /\
                   sym t <> newline_sym /\ length (splitlines s) < line t.
Proof. exact eof_dedent_refuted_proof. Qed.

Theorem newline_text_refuted :
  exists T s ts t L, reserved_free T = true /\ tokenize T s = Toks ts /\ In t ts /\
                     nth_error (splitlines s) (line t - 1) = Some L /\ ~ slice_of L t.
Proof. exact newline_text_refuted_proof. Qed.

(* each token is the longest match over the table, earliest pattern on ties *)
Theorem longest_first : forall T s ts t,
  tokenize T s = Toks ts -> In t ts -> is_lexical t = true ->
  exists L, nth_error (splitlines s) (line t - 1) = Some L /\
    longest_first_choice (all_pats T) (skipn (c0 t - 1) L) (length (text t)) (Some (sym t)).
Proof. intros T s. exact (longest_first_proof T (splitlines s)). Qed.

(* exactly one newline token per line, last among the line's tokens; tokens are in line order *)
Theorem newline_per_line : forall T s ts l L,
  reserved_free T = true ->
  tokenize T s = Toks ts -> nth_error (splitlines s) l = Some L ->
  exists pre post, ts = pre ++ newline_tok (S l) L :: post /\
    (forall t, In t pre -> line t < S l \/ (line t = S l /\ sym t <> newline_sym)) /\
    (forall t, In t post -> S l < line t).
Proof. intros T s ts l L Hrf. exact (newline_per_line_proof T Hrf (splitlines s) ts l L). Qed.

(* Indent/Dedent: replaying them never closes the outermost level, ends with all levels closed, counts equal *)
Theorem indent_balanced : forall T s ts,
  reserved_free T = true -> tokenize T s = Toks ts ->
  run_stack [[]] ts = Some [[]] /\ count_sym indent_sym ts = count_sym dedent_sym ts.
Proof. intros T s ts Hrf. exact (indent_balanced_proof T Hrf (splitlines s) ts). Qed.

(* ... and in front of the first lexical token of every significant line the open level is that
   line's leading white space *)
Theorem indent_mirror : forall T s ts l L,
  reserved_free T = true ->
  tokenize T s = Toks ts -> nth_error (splitlines s) l = Some L ->
  significant (lexical_on_line (S l) ts) ->
  exists P Q tl, ts = P ++ Q /\
    (forall t, In t P -> line t < S l \/ (line t = S l /\ is_lexical t = false)) /\
    (forall t, In t Q -> S l < line t \/ (line t = S l /\ (is_lexical t = true \/ sym t = newline_sym))) /\
    run_stack [[]] P = Some (take_ws T L :: tl).
Proof. intros T s ts l L Hrf. exact (indent_mirror_proof T Hrf (splitlines s) ts l L). Qed.

(* "Bad indentation" exactly when the leading white space neither extends the current level
   nor equals an open one *)
Theorem bad_indent_iff : forall T ls L more ts,
  reserved_free T = true ->
  tokenize_lines T ls = Toks ts ->
  exists st, open_levels ts (length ls) = Some st /\
  (tokenize_lines T (ls ++ L :: more) = ErrIndent (S (length ls)) 1 (S (length (take_ws T L))) <->
   exists lts, tokenize_line T (S (length ls)) L = LOk lts /\ significant lts /\
               ~ is_prefix (hd [] st) (take_ws T L) /\ ~ In (take_ws T L) st).
Proof. intros T ls L more ts Hrf. exact (bad_indent_iff_proof T Hrf ls L more ts). Qed.

(* an error is reported for the first offending line *)
Theorem error_location : forall T lines n a b,
  (tokenize_lines T lines = ErrIndent n a b \/ tokenize_lines T lines = ErrToken n a b) ->
  exists ls L more ts, lines = ls ++ L :: more /\ n = S (length ls) /\ tokenize_lines T ls = Toks ts.
Proof. exact error_location_proof. Qed.

(* "Unrecognized token" at column a: longest-first tokenization reaches offset a-1, where nothing matches *)
Theorem unrecognized_token : forall T ls L more ts,
  reserved_free T = true ->
  tokenize_lines T ls = Toks ts ->
  forall a b, tokenize_lines T (ls ++ L :: more) = ErrToken (S (length ls)) a b ->
    b = S a /\ line_err T 0 L (a - 1) /\ 1 <= a.
Proof. intros T ls L more ts Hrf. exact (unrecognized_token_proof T Hrf ls L more ts). Qed.

(* the fuel and the stack never run out *)
Theorem no_internal_error : forall T s, tokenize T s <> ErrInternal.
Proof. intros T s. exact (no_internal_error_proof T (splitlines s)). Qed.

(* the documented reading (every row a regex, in the documented order) is the same tokenizer *)
Theorem doc_reading_equiv : forall T s,
  tokenize (doc_table (unified_rows T) (wsr T)) s = tokenize T s.
Proof. exact doc_reading_equiv_proof. Qed.

(* names: the reference regexes denote the reference's character rules *)
Theorem snake_class : forall w rest, matches re_snake w rest <-> is_snake w.
Proof. exact snake_class_proof. Qed.

Theorem camel_class : forall w rest, matches re_camel w rest <-> is_camel w.
Proof. exact camel_class_proof. Qed.

Theorem shouty_class : forall w rest, matches re_shouty w rest <-> is_shouty w.
Proof. exact shouty_class_proof. Qed.

Theorem shouty_prose_sound : forall w, is_shouty w -> is_shouty_prose w.
Proof. exact shouty_prose_sound_proof. Qed.

Theorem shouty_prose_refuted : exists w, is_shouty_prose w /\ forall rest, ~ matches re_shouty w rest.
Proof. exact shouty_prose_refuted_proof. Qed.

(* numbers: the eight Number regexes denote [is_number]; every documented format is accepted; the
   converse fails: "0x_1" (underscore directly after 0x) is a Number the reference does not describe *)
Theorem number_class : forall w rest, (exists r, In r re_numbers /\ matches r w rest) <-> is_number w.
Proof. exact number_class_proof. Qed.

Theorem number_doc_sound : forall w, is_number_doc w -> is_number w.
Proof. exact number_doc_sound_proof. Qed.

Theorem number_leading_underscore_refuted : exists w, is_number w /\ ~ is_number_doc w.
Proof. exact number_leading_underscore_refuted_proof. Qed.

(* the guards are satisfiable and the model runs *)
Example guards_satisfiable : reserved_free toy_table = true /\ skips_only_ws toy_table = true.
Proof. exact toy_guards_proof. Qed.
