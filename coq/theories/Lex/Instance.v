(* Table-generic definitions and lemmas used by the generated instance file:
   the documented reading of the table (every row is a regex) gives the same tokenizer;
   boolean comparison of tables; lookup of the regexes carrying a symbol. *)
From Coq Require Import NArith List Bool Lia Arith PeanoNat.
Import ListNotations.
Require Import EmbossV.Lex.Regex EmbossV.Lex.Tokenizer EmbossV.Lex.Spec EmbossV.Lex.Exec.
Require Import EmbossV.Lex.Proofs_Line.

(* a literal as a regex, shaped as the translator shapes `\[` `\=\=` `struct` ... *)
Fixpoint lit_re (l : str) : re :=
  match l with
  | [] => Eps
  | c :: l' => match l' with
               | [] => Chr false [(c, c)]
               | _ :: _ => Cat (Chr false [(c, c)]) (lit_re l')
               end
  end.

Definition unified_rows (T : table) : list (re * option str) :=
  map (fun l => (lit_re l, Some (quote l))) (lits T) ++ pats T.

(* the documented reading: no literal list, every row matched as a regex, in the documented order *)
Definition doc_table (rows : list (re * option str)) (ws : list (N * N)) : table := mkTable [] rows ws.

Definition ostr_eqb (a b : option str) : bool :=
  match a, b with
  | Some x, Some y => str_eqb x y
  | None, None => true
  | _, _ => false
  end.

Definition row_eqb (a b : re * option str) : bool := re_eqb (fst a) (fst b) && ostr_eqb (snd a) (snd b).
Definition rows_eqb (a b : list (re * option str)) : bool := list_eqb row_eqb a b.

Lemma list_eqb_eq : forall (A : Type) (f : A -> A -> bool),
  (forall x y, f x y = true -> x = y) -> forall a b, list_eqb f a b = true -> a = b.
Proof.
  intros A f Hf. induction a as [|x a IH]; destruct b as [|y b]; simpl; intros H; try discriminate; auto.
  apply andb_prop in H as [H1 H2]. f_equal; auto.
Qed.

Lemma rows_eqb_eq : forall a b, rows_eqb a b = true -> a = b.
Proof.
  apply list_eqb_eq. intros [r1 o1] [r2 o2] H. unfold row_eqb in H. simpl in H.
  apply andb_prop in H as [H1 H2]. apply re_eqb_eq in H1. subst. f_equal.
  destruct o1, o2; simpl in H2; try discriminate; auto. apply str_eqb_eq in H2. subst; auto.
Qed.

(* regexes of the table carrying a given symbol, in order *)
Definition res_with_sym (s : str) (T : table) : list re :=
  flat_map (fun p => match snd p with
                     | Some x => if str_eqb x s then [fst p] else []
                     | None => [] end) (pats T).

Definition sym_res_eqb (s : str) (T : table) (rs : list re) : bool := list_eqb re_eqb (res_with_sym s T) rs.

Lemma sym_res_eqb_eq : forall s T rs, sym_res_eqb s T rs = true -> res_with_sym s T = rs.
Proof. intros s T rs. apply list_eqb_eq. apply re_eqb_eq. Qed.

(* ---- a literal regex matches exactly the literal ---- *)
Lemma chr_single : forall c x, cls_mem false [(c, c)] x = true <-> x = c.
Proof.
  intros c x. unfold cls_mem, in_ranges. simpl. rewrite orb_false_r.
  destruct ((c <=? x)%N && (x <=? c)%N) eqn:E; simpl.
  - apply andb_prop in E as [H1 H2]. apply N.leb_le in H1, H2. split; auto. intros _. lia.
  - split; [discriminate|]. intros ->. rewrite N.leb_refl in E. discriminate.
Qed.

Lemma matches_lit : forall l w rest, matches (lit_re l) w rest <-> w = l.
Proof.
  induction l as [|c l IH]; intros w rest.
  - simpl. apply matches_eps.
  - destruct l as [|d l'].
    + simpl. rewrite matches_chr. split.
      * intros (x & -> & Hx). apply chr_single in Hx. subst; auto.
      * intros ->. exists c. split; auto. apply chr_single. auto.
    + change (lit_re (c :: d :: l')) with (Cat (Chr false [(c, c)]) (lit_re (d :: l'))).
      rewrite matches_cat. split.
      * intros (w1 & w2 & -> & H1 & H2). apply matches_chr in H1. destruct H1 as (x & -> & Hx).
        apply chr_single in Hx. subst. apply IH in H2. subst. auto.
      * intros ->. exists [c], (d :: l'). split; auto. split.
        -- apply matches_chr. exists c. split; auto. apply chr_single; auto.
        -- apply IH. auto.
Qed.

Lemma lit_re_longest : forall l s,
  longest (lit_re l) s = if prefixb l s then Some (length l) else None.
Proof.
  intros l s. destruct (prefixb l s) eqn:E.
  - apply prefixb_firstn in E. destruct E as [E1 E2]. apply longest_some. split.
    + split; auto. apply matches_lit. auto.
    + intros m [Hm1 Hm2]. apply matches_lit in Hm2. rewrite <- Hm2. rewrite firstn_length. lia.
  - apply longest_none. intros k [Hk1 Hk2]. apply matches_lit in Hk2.
    assert (prefixb l s = true); [|congruence]. apply prefixb_firstn. rewrite <- Hk2.
    rewrite firstn_length. rewrite Nat.min_l by auto. auto.
Qed.

(* ---- the documented reading tokenizes identically ---- *)
Lemma best_unified : forall T s, best (doc_table (unified_rows T) (wsr T)) s = best T s.
Proof.
  intros T s. unfold best, all_pats, doc_table, unified_rows. simpl.
  rewrite map_app, !fold_left_app. f_equal.
  rewrite map_map. generalize (0, @None str). induction (lits T) as [|l ls IH]; intros acc; simpl; auto.
  rewrite IH. f_equal. unfold best_step. simpl. rewrite lit_re_longest.
  destruct (prefixb l s); auto.
Qed.

Section SameBest.
  Variables T1 T2 : table.
  Hypothesis Hbest : forall s, best T1 s = best T2 s.
  Hypothesis Hws : wsr T1 = wsr T2.

  Lemma tl_loop_same : forall fuel ln off s, tl_loop T1 fuel ln off s = tl_loop T2 fuel ln off s.
  Proof.
    induction fuel as [|fuel IH]; intros ln off s; simpl; auto.
    destruct s; auto. rewrite Hbest. destruct (best T2 (n :: s)) as [[|k] o]; auto. rewrite IH. auto.
  Qed.

  Lemma take_ws_same : forall L, take_ws T1 L = take_ws T2 L.
  Proof.
    induction L as [|c L IH]; simpl; auto. unfold is_ws. rewrite Hws.
    destruct (in_ranges (wsr T2) c); auto. f_equal; auto.
  Qed.

  Lemma tok_lines_same : forall lines ln st, tok_lines T1 ln st lines = tok_lines T2 ln st lines.
  Proof.
    induction lines as [|L rest IH]; intros ln st; simpl; auto.
    unfold tokenize_line. rewrite tl_loop_same, take_ws_same.
    destruct (tl_loop T2 (length L) (S ln) 0 L); auto.
    destruct (all_comment ts); [rewrite IH; auto|].
    destruct (indent_step (S ln) st (take_ws T2 L)); auto. rewrite IH. auto.
  Qed.

  Lemma tokenize_same : forall s, tokenize T1 s = tokenize T2 s.
  Proof. intros s. unfold tokenize, tokenize_lines. apply tok_lines_same. Qed.
End SameBest.

Theorem doc_reading_equiv_proof : forall T s,
  tokenize (doc_table (unified_rows T) (wsr T)) s = tokenize T s.
Proof. intros T s. apply tokenize_same; auto. apply best_unified. Qed.
