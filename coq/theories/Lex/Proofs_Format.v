From Coq Require Import NArith List Bool Lia Arith.
Import ListNotations.
Require Import EmbossV.Lex.Regex EmbossV.Lex.Tokenizer EmbossV.Lex.Spec EmbossV.Lex.Format.
Require Import EmbossV.Lex.Proofs_Line EmbossV.Lex.Proofs_Examples.

Lemma tok_equivb_spec : forall T a b, tok_equivb T a b = true <-> tok_equiv T a b.
Proof.
  intros T a b. unfold tok_equivb, tok_equiv. rewrite andb_true_iff, !str_eqb_eq. tauto.
Qed.

Lemma forall2b_spec : forall (A : Type) (p : A -> A -> bool) (P : A -> A -> Prop),
  (forall x y, p x y = true <-> P x y) ->
  forall a b, forall2b p a b = true <-> Forall2 P a b.
Proof.
  intros A p P H. induction a as [|x a IH]; destruct b as [|y b]; simpl.
  - split; auto.
  - split; [discriminate|]. intros F; inversion F.
  - split; [discriminate|]. intros F; inversion F.
  - rewrite andb_true_iff, H, IH. split.
    + intros [H1 H2]. constructor; auto.
    + intros F. inversion F; subst. auto.
Qed.

Theorem fmt_equivb_spec_proof : forall T o f, fmt_equivb T o f = true <-> fmt_equiv T o f.
Proof. intros T o f. apply forall2b_spec. apply tok_equivb_spec. Qed.

(* ---- equivalence ---- *)
Lemma Forall2_refl_all : forall (A : Type) (P : A -> A -> Prop), (forall x, P x x) -> forall l, Forall2 P l l.
Proof. intros A P H. induction l; constructor; auto. Qed.

Lemma Forall2_sym_all : forall (A : Type) (P : A -> A -> Prop), (forall x y, P x y -> P y x) ->
  forall a b, Forall2 P a b -> Forall2 P b a.
Proof. intros A P H a b F. induction F; constructor; auto. Qed.

Lemma Forall2_trans_all : forall (A : Type) (P : A -> A -> Prop), (forall x y z, P x y -> P y z -> P x z) ->
  forall a b, Forall2 P a b -> forall c, Forall2 P b c -> Forall2 P a c.
Proof.
  intros A P H a b F. induction F; intros c G; inversion G; subst; constructor; eauto.
Qed.

Lemma Forall2_len : forall (A : Type) (P : A -> A -> Prop) a b, Forall2 P a b -> length a = length b.
Proof. intros A P a b F. induction F; simpl; auto. Qed.

Theorem fmt_equiv_refl_proof : forall T a, fmt_equiv T a a.
Proof. intros T a. apply Forall2_refl_all. intros x. split; auto. Qed.

Theorem fmt_equiv_sym_proof : forall T a b, fmt_equiv T a b -> fmt_equiv T b a.
Proof. intros T a b. apply Forall2_sym_all. intros x y [H1 H2]. split; auto. Qed.

Theorem fmt_equiv_trans_proof : forall T a b c, fmt_equiv T a b -> fmt_equiv T b c -> fmt_equiv T a c.
Proof.
  intros T a b c H1 H2. eapply Forall2_trans_all; eauto.
  intros x y z [A1 A2] [B1 B2]. split; congruence.
Qed.

Theorem symbols_preserved_proof : forall T o f, fmt_equiv T o f -> map sym (collapse o) = map sym (collapse f).
Proof.
  intros T o f H. unfold fmt_equiv in H. induction H; simpl; auto. destruct H as [H _]. f_equal; auto.
Qed.

(* ---- the built-in self check ---- *)
Lemma first_mismatch_none : forall T o f i,
  first_mismatch T i o f = None <->
  Forall2 (tok_equiv T) (firstn (min (length o) (length f)) o) (firstn (min (length o) (length f)) f).
Proof.
  intros T. induction o as [|a o IH]; intros f i; simpl.
  - split; intros _; [constructor|reflexivity].
  - destruct f as [|b f]; simpl.
    + split; intros _; [constructor|reflexivity].
    + destruct (tok_equivb T a b) eqn:E.
      * apply tok_equivb_spec in E. rewrite IH. split.
        -- intros F. constructor; auto.
        -- intros F. inversion F; subst. auto.
      * split; [discriminate|]. intros F. inversion F as [|? ? ? ? Hab Hr]; subst.
        apply tok_equivb_spec in Hab. congruence.
Qed.

Lemma first_mismatch_some : forall T o f i k,
  first_mismatch T i o f = Some k ->
  exists j a b, k = i + j /\ nth_error o j = Some a /\ nth_error f j = Some b /\ ~ tok_equiv T a b /\
                Forall2 (tok_equiv T) (firstn j o) (firstn j f).
Proof.
  intros T. induction o as [|a o IH]; intros f i k H; simpl in H; [discriminate|].
  destruct f as [|b f]; [discriminate|]. destruct (tok_equivb T a b) eqn:E.
  - apply IH in H. destruct H as (j & x & y & -> & Hx & Hy & Hn & F).
    exists (S j), x, y. simpl. split; [lia|]. split; [auto|]. split; [auto|]. split; [auto|].
    constructor; auto. apply tok_equivb_spec; auto.
  - injection H as <-. exists 0, a, b. simpl. split; [lia|]. split; [auto|]. split; [auto|]. split; [|constructor].
    intros He. apply tok_equivb_spec in He. congruence.
Qed.

(* the self check reports nothing EXACTLY when the criterion holds *)
Theorem sanity_ok_iff_proof : forall T o f, sanity_tokens T o f = ScOk <-> fmt_equiv T o f.
Proof.
  intros T o f. unfold sanity_tokens, fmt_equiv.
  destruct (first_mismatch T 0 (collapse o) (collapse f)) as [k|] eqn:E.
  - split; [discriminate|]. intros F. exfalso.
    assert (N : first_mismatch T 0 (collapse o) (collapse f) = None).
    { apply first_mismatch_none. rewrite (Forall2_len _ _ _ _ F), Nat.min_id, firstn_all.
      rewrite <- (Forall2_len _ _ _ _ F), firstn_all. auto. }
    congruence.
  - apply first_mismatch_none in E. destruct (length (collapse o) =? length (collapse f)) eqn:L.
    + apply Nat.eqb_eq in L. rewrite <- L, Nat.min_id, firstn_all in E. rewrite L, firstn_all in E.
      split; auto.
    + apply Nat.eqb_neq in L. split; [discriminate|]. intros F. apply Forall2_len in F. contradiction.
Qed.

Theorem sanity_complete_proof : forall T o f, fmt_equiv T o f -> sanity_tokens T o f = ScOk.
Proof. intros T o f. apply sanity_ok_iff_proof. Qed.

Theorem sanity_sound_proof : forall T o f, sanity_tokens T o f = ScOk -> fmt_equiv T o f.
Proof. intros T o f. apply sanity_ok_iff_proof. Qed.

(* "Symbol i differs": position i is the first at which the collapsed streams are not equivalent *)
Theorem sanity_bug_proof : forall T o f i,
  sanity_tokens T o f = ScBug i ->
  exists a b, nth_error (collapse o) i = Some a /\ nth_error (collapse f) i = Some b /\ ~ tok_equiv T a b /\
              Forall2 (tok_equiv T) (firstn i (collapse o)) (firstn i (collapse f)).
Proof.
  intros T o f i H. unfold sanity_tokens in H.
  destruct (first_mismatch T 0 (collapse o) (collapse f)) as [k|] eqn:E.
  - injection H as <-. apply first_mismatch_some in E. destruct E as (j & a & b & -> & Ha & Hb & Hn & F).
    exists a, b. auto.
  - destruct (length (collapse o) =? length (collapse f)); discriminate.
Qed.

(* "Symbol count differs": one stream is equivalent to a strict prefix of the other *)
Theorem sanity_count_proof : forall T o f a b,
  sanity_tokens T o f = ScCount a b ->
  a = length (collapse o) /\ b = length (collapse f) /\ a <> b /\
  Forall2 (tok_equiv T) (firstn (min a b) (collapse o)) (firstn (min a b) (collapse f)).
Proof.
  intros T o f a b H. unfold sanity_tokens in H.
  destruct (first_mismatch T 0 (collapse o) (collapse f)) as [k|] eqn:E; [discriminate|].
  destruct (length (collapse o) =? length (collapse f)) eqn:L; [discriminate|].
  injection H as <- <-. apply Nat.eqb_neq in L. apply first_mismatch_none in E. auto.
Qed.

Definition tokA : token := mkTok [87%N] [97%N] 1 1 2.
Definition tokB : token := mkTok [87%N] [98%N] 2 1 2.

(* on texts, through the tokenizer: formatted "a\nb\n" against original "a\n" and the converse are
   both reported (before fix 7fc177c the first was accepted and the second raised IndexError) *)
Theorem sanity_text_example_proof :
  sanity_check toy_table [97; 10; 98; 10]%N [97; 10]%N = SanRes (ScCount 2 4) /\
  fmt_check toy_table [97; 10]%N [97; 10; 98; 10]%N = FvDiffer /\
  sanity_check toy_table [97; 10]%N [97; 10; 98; 10]%N = SanRes (ScCount 4 2) /\
  sanity_check toy_table [97; 32; 10; 10]%N [97; 10]%N = SanRes ScOk.
Proof. repeat split; vm_compute; reflexivity. Qed.

(* ---- collapse ---- *)
Lemma collapse_go_no_leading : forall ts p, Forall (fun t => is_newline t = false) (firstn 1 (collapse_go false p ts)).
Proof.
  induction ts as [|t ts IH]; intros p; simpl; [constructor|].
  destruct (is_newline t) eqn:E.
  - destruct p; apply IH.
  - simpl. constructor; auto.
Qed.

Theorem collapse_no_leading_newline_proof : forall ts t rest, collapse ts = t :: rest -> is_newline t = false.
Proof.
  intros ts t rest H. pose proof (collapse_go_no_leading ts false) as G. unfold collapse in H.
  rewrite H in G. simpl in G. inversion G; auto.
Qed.

(* ---- re-tokenisation: the loop of _tokenize_line is complete for its relational form, so
   "tokenize (render toks) = toks" reduces to the local longest-first conditions of [line_toks] ---- *)
Lemma tl_loop_complete : forall T ln off s ts,
  line_toks T ln off s ts -> forall fuel, length s <= fuel -> tl_loop T fuel ln off s = LOk ts.
Proof.
  intros T ln off s ts H. induction H; intros fuel Hf.
  - destruct fuel; reflexivity.
  - destruct s as [|c s']; [congruence|]. destruct fuel as [|fuel]; [simpl in Hf; lia|].
    pose proof (best_le _ _ _ _ H0) as Hn.
    cbn [tl_loop]. rewrite H0. destruct n as [|n']; [lia|].
    rewrite IHline_toks; auto. rewrite skipn_length. simpl in *. lia.
  - destruct s as [|c s']; [congruence|]. destruct fuel as [|fuel]; [simpl in Hf; lia|].
    pose proof (best_le _ _ _ _ H0) as Hn.
    cbn [tl_loop]. rewrite H0. destruct n as [|n']; [lia|].
    rewrite IHline_toks; auto. rewrite skipn_length. simpl in *. lia.
Qed.

Theorem retokenize_line_proof : forall T ln L ts,
  line_toks T ln 0 L ts <-> tokenize_line T ln L = LOk ts.
Proof.
  intros T ln L ts. split.
  - intros H. unfold tokenize_line. eapply tl_loop_complete; eauto.
  - apply tokenize_line_ok.
Qed.
