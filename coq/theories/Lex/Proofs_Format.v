From Coq Require Import NArith List Bool Lia Arith.
Import ListNotations.
Require Import EmbossV.Lex.Regex EmbossV.Lex.Tokenizer EmbossV.Lex.Spec EmbossV.Lex.Format.
Require Import EmbossV.Lex.Proofs_Line EmbossV.Lex.Proofs_Examples.

Lemma tok_equivb_spec : forall T a b, tok_equivb T a b = true <-> tok_equiv T a b.
Proof.
  intros T a b. unfold tok_equivb, tok_equiv. rewrite andb_true_iff, !str_eqb_eq. tauto.
Qed.

Lemma forall2b_spec : forall (A : Type) (p : A -> A -> bool) (P : A -> A -> Prop),
  (forall x y, p x y = true <-> P x y) ->
  forall a b, forall2b p a b = true <-> Forall2 P a b.
Proof.
  intros A p P H. induction a as [|x a IH]; destruct b as [|y b]; simpl.
  - split; auto.
  - split; [discriminate|]. intros F; inversion F.
  - split; [discriminate|]. intros F; inversion F.
  - rewrite andb_true_iff, H, IH. split.
    + intros [H1 H2]. constructor; auto.
    + intros F. inversion F; subst. auto.
Qed.

Theorem fmt_equivb_spec_proof : forall T o f, fmt_equivb T o f = true <-> fmt_equiv T o f.
Proof. intros T o f. apply forall2b_spec. apply tok_equivb_spec. Qed.

(* ---- equivalence ---- *)
Lemma Forall2_refl_all : forall (A : Type) (P : A -> A -> Prop), (forall x, P x x) -> forall l, Forall2 P l l.
Proof. intros A P H. induction l; constructor; auto. Qed.

Lemma Forall2_sym_all : forall (A : Type) (P : A -> A -> Prop), (forall x y, P x y -> P y x) ->
  forall a b, Forall2 P a b -> Forall2 P b a.
Proof. intros A P H a b F. induction F; constructor; auto. Qed.

Lemma Forall2_trans_all : forall (A : Type) (P : A -> A -> Prop), (forall x y z, P x y -> P y z -> P x z) ->
  forall a b, Forall2 P a b -> forall c, Forall2 P b c -> Forall2 P a c.
Proof.
  intros A P H a b F. induction F; intros c G; inversion G; subst; constructor; eauto.
Qed.

Lemma Forall2_len : forall (A : Type) (P : A -> A -> Prop) a b, Forall2 P a b -> length a = length b.
Proof. intros A P a b F. induction F; simpl; auto. Qed.

Theorem fmt_equiv_refl_proof : forall T a, fmt_equiv T a a.
Proof. intros T a. apply Forall2_refl_all. intros x. split; auto. Qed.

Theorem fmt_equiv_sym_proof : forall T a b, fmt_equiv T a b -> fmt_equiv T b a.
Proof. intros T a b. apply Forall2_sym_all. intros x y [H1 H2]. split; auto. Qed.

Theorem fmt_equiv_trans_proof : forall T a b c, fmt_equiv T a b -> fmt_equiv T b c -> fmt_equiv T a c.
Proof.
  intros T a b c H1 H2. eapply Forall2_trans_all; eauto.
  intros x y z [A1 A2] [B1 B2]. split; congruence.
Qed.

Theorem symbols_preserved_proof : forall T o f, fmt_equiv T o f -> map sym (collapse o) = map sym (collapse f).
Proof.
  intros T o f H. unfold fmt_equiv in H. induction H; simpl; auto. destruct H as [H _]. f_equal; auto.
Qed.

(* ---- the built-in self check ---- *)
Lemma sc_loop_ok : forall T o f i,
  sc_loop T i o f = ScOk <-> exists f1 f2, f = f1 ++ f2 /\ Forall2 (tok_equiv T) o f1.
Proof.
  intros T. induction o as [|a o IH]; intros f i; simpl.
  - split; auto. intros _. exists [], f. split; auto.
  - destruct f as [|b f].
    + split; [discriminate|]. intros (f1 & f2 & E & F). inversion F; subst. discriminate.
    + destruct (tok_equivb T a b) eqn:E.
      * apply tok_equivb_spec in E. rewrite IH. split.
        -- intros (f1 & f2 & -> & F). exists (b :: f1), f2. split; auto.
        -- intros (f1 & f2 & Ef & F). inversion F; subst. injection Ef as <- ->. eauto.
      * split; [discriminate|]. intros (f1 & f2 & Ef & F). inversion F as [|? ? ? ? Hab Hr]; subst. injection Ef as <- ->.
        apply tok_equivb_spec in Hab. congruence.
Qed.

Lemma sc_loop_index : forall T o f i,
  sc_loop T i o f = ScIndexError <-> exists o1 x o2, o = o1 ++ x :: o2 /\ Forall2 (tok_equiv T) o1 f.
Proof.
  intros T. induction o as [|a o IH]; intros f i; simpl.
  - split; [discriminate|]. intros (o1 & x & o2 & E & _). destruct o1; discriminate.
  - destruct f as [|b f].
    + split; auto. intros _. exists [], a, o. split; auto.
    + destruct (tok_equivb T a b) eqn:E.
      * apply tok_equivb_spec in E. rewrite IH. split.
        -- intros (o1 & x & o2 & -> & F). exists (a :: o1), x, o2. split; auto.
        -- intros (o1 & x & o2 & Eo & F). inversion F; subst. injection Eo as <- ->. eauto.
      * split; [discriminate|]. intros (o1 & x & o2 & Eo & F). inversion F as [|? ? ? ? Hab Hr]; subst. injection Eo as <- ->.
        apply tok_equivb_spec in Hab. congruence.
Qed.

(* no error is returned exactly when the original's collapsed tokens are equivalent to a PREFIX
   of the formatted text's *)
Theorem sanity_ok_iff_proof : forall T o f,
  sanity_tokens T o f = ScOk <->
  exists f1 f2, collapse f = f1 ++ f2 /\ Forall2 (tok_equiv T) (collapse o) f1.
Proof. intros T o f. apply sc_loop_ok. Qed.

Theorem sanity_raises_iff_proof : forall T o f,
  sanity_tokens T o f = ScIndexError <->
  exists o1 x o2, collapse o = o1 ++ x :: o2 /\ Forall2 (tok_equiv T) o1 (collapse f).
Proof. intros T o f. apply sc_loop_index. Qed.

Theorem sanity_complete_proof : forall T o f, fmt_equiv T o f -> sanity_tokens T o f = ScOk.
Proof.
  intros T o f H. apply sanity_ok_iff_proof. exists (collapse f), []. rewrite app_nil_r. auto.
Qed.

(* sound only with the length guard *)
Theorem sanity_sound_guarded_proof : forall T o f,
  sanity_tokens T o f = ScOk -> length (collapse f) <= length (collapse o) -> fmt_equiv T o f.
Proof.
  intros T o f H Hl. apply sanity_ok_iff_proof in H. destruct H as (f1 & f2 & E & F).
  pose proof (Forall2_len _ _ _ _ F) as Hlen. rewrite E in Hl. rewrite app_length in Hl.
  destruct f2; [|simpl in Hl; lia]. rewrite app_nil_r in E. unfold fmt_equiv. rewrite E. auto.
Qed.

Definition tokA : token := mkTok [87%N] [97%N] 1 1 2.
Definition tokB : token := mkTok [87%N] [98%N] 2 1 2.

(* extra trailing tokens in the formatted text are accepted *)
Theorem sanity_sound_refuted_proof :
  exists T o f, sanity_tokens T o f = ScOk /\ ~ fmt_equiv T o f.
Proof.
  exists toy_table, [tokA], [tokA; tokB]. split; [reflexivity|].
  intros H. unfold fmt_equiv in H. simpl in H. inversion H; subst. inversion H5.
Qed.

(* a formatted text with fewer tokens makes the check raise instead of reporting *)
Theorem sanity_raises_refuted_proof :
  exists T o f, sanity_tokens T o f = ScIndexError.
Proof. exists toy_table, [tokA; tokB], [tokA]. reflexivity. Qed.

(* the same on texts, through the tokenizer: formatted "a\nb\n" vs original "a\n", and the converse *)
Theorem sanity_text_refuted_proof :
  sanity_check toy_table [97; 10; 98; 10]%N [97; 10]%N = SanRes ScOk /\
  fmt_check toy_table [97; 10]%N [97; 10; 98; 10]%N = FvDiffer /\
  sanity_check toy_table [97; 10]%N [97; 10; 98; 10]%N = SanRes ScIndexError.
Proof. repeat split; vm_compute; reflexivity. Qed.

(* ---- collapse ---- *)
Lemma collapse_go_no_leading : forall ts p, Forall (fun t => is_newline t = false) (firstn 1 (collapse_go false p ts)).
Proof.
  induction ts as [|t ts IH]; intros p; simpl; [constructor|].
  destruct (is_newline t) eqn:E.
  - destruct p; apply IH.
  - simpl. constructor; auto.
Qed.

Theorem collapse_no_leading_newline_proof : forall ts t rest, collapse ts = t :: rest -> is_newline t = false.
Proof.
  intros ts t rest H. pose proof (collapse_go_no_leading ts false) as G. unfold collapse in H.
  rewrite H in G. simpl in G. inversion G; auto.
Qed.

(* ---- re-tokenisation: the loop of _tokenize_line is complete for its relational form, so
   "tokenize (render toks) = toks" reduces to the local longest-first conditions of [line_toks] ---- *)
Lemma tl_loop_complete : forall T ln off s ts,
  line_toks T ln off s ts -> forall fuel, length s <= fuel -> tl_loop T fuel ln off s = LOk ts.
Proof.
  intros T ln off s ts H. induction H; intros fuel Hf.
  - destruct fuel; reflexivity.
  - destruct s as [|c s']; [congruence|]. destruct fuel as [|fuel]; [simpl in Hf; lia|].
    pose proof (best_le _ _ _ _ H0) as Hn.
    cbn [tl_loop]. rewrite H0. destruct n as [|n']; [lia|].
    rewrite IHline_toks; auto. rewrite skipn_length. simpl in *. lia.
  - destruct s as [|c s']; [congruence|]. destruct fuel as [|fuel]; [simpl in Hf; lia|].
    pose proof (best_le _ _ _ _ H0) as Hn.
    cbn [tl_loop]. rewrite H0. destruct n as [|n']; [lia|].
    rewrite IHline_toks; auto. rewrite skipn_length. simpl in *. lia.
Qed.

Theorem retokenize_line_proof : forall T ln L ts,
  line_toks T ln 0 L ts <-> tokenize_line T ln L = LOk ts.
Proof.
  intros T ln L ts. split.
  - intros H. unfold tokenize_line. eapply tl_loop_complete; eauto.
  - apply tokenize_line_ok.
Qed.
