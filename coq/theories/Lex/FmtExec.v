(* Executable glue for the handler-level part of the C11 harness. *)
From Coq Require Import NArith List Bool Arith.
Import ListNotations.
Require Import EmbossV.Lex.Regex EmbossV.Lex.FmtModel.

Definition run_format_case (ws : N -> bool) (tbl : list handler) (p : nat * tree) : option str :=
  format_text ws (fst p) tbl (snd p).

Definition ostr_eqb (a b : option str) : bool :=
  match a, b with
  | Some x, Some y => seqb x y
  | None, None => true
  | _, _ => false
  end.
