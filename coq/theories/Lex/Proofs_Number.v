(* The eight Number regexes denote exactly [is_number]; the documented formats are included,
   and the converse fails only for the '_' directly after 0x / 0b. *)
From Coq Require Import NArith List Bool Lia Arith.
Import ListNotations.
Require Import EmbossV.Lex.Regex EmbossV.Lex.Class EmbossV.Lex.Proofs_Class.
Local Open Scope N_scope.

Lemma in_digit : forall c, in_ranges cls_digit c = true <-> digit c.
Proof. intros c. unfold cls_digit, digit. rewrite in_ranges_cons, in_ranges_nil. tauto. Qed.

Lemma in_hex : forall c, in_ranges cls_hex c = true <-> hexdig c.
Proof. intros c. unfold cls_hex, hexdig, digit. rewrite !in_ranges_cons, in_ranges_nil. tauto. Qed.

Lemma in_bin : forall c, in_ranges cls_bin c = true <-> bindig c.
Proof.
  intros c. unfold cls_bin, bindig. rewrite !in_ranges_cons, in_ranges_nil.
  split; [intros [H|[H|[]]]; lia|intros H; assert (c = 48 \/ c = 49) as [->| ->] by lia; [left|right; left]; lia].
Qed.

Lemma matches_chr1 : forall c w rest, matches (chr1 c) w rest <-> w = [c].
Proof.
  intros c w rest. unfold chr1. rewrite matches_class. split.
  - intros (x & -> & Hx). apply in_ranges_cons in Hx. rewrite in_ranges_nil in Hx.
    destruct Hx as [Hx|[]]. f_equal. lia.
  - intros ->. exists c. split; auto. apply in_ranges_cons. left. lia.
Qed.

Section Shapes.
  Variable X : list (N * N).
  Let inX (c : N) : Prop := in_ranges X c = true.

  (* X{m,n} *)
  Lemma matches_rep_class : forall n m w rest,
    matches (Rep (Chr false X) m n) w rest <-> (m <= length w <= n)%nat /\ Forall inX w.
  Proof.
    induction n as [|n IH]; intros m w rest; rewrite matches_rep.
    - split.
      + intros [[-> ->]|(n' & _ & _ & H & _)]; [simpl; split; [lia|constructor]|discriminate].
      + intros [Hl _]. left. destruct w; simpl in Hl; [split; [lia|auto]|lia].
    - split.
      + intros [[-> ->]|(n' & w1 & w2 & Hn & -> & H1 & H2)]; [simpl; split; [lia|constructor]|].
        injection Hn as <-. apply matches_class in H1. destruct H1 as (c & -> & Hc).
        apply IH in H2. destruct H2 as [Hl Hf]. simpl. split; [lia|constructor; auto].
      + intros [Hl Hf]. destruct w as [|c w].
        * left. simpl in Hl. split; [lia|auto].
        * right. inversion Hf; subst. exists n, [c], w. split; auto. split; auto. split.
          -- apply matches_class. eauto.
          -- apply IH. simpl in Hl. split; [lia|auto].
  Qed.

  (* (?:_X{k})* *)
  Lemma matches_groups : forall k w rest,
    matches (Star (Cat (chr1 95) (Rep (Chr false X) k k))) w rest <->
    exists gs, w = concat (map (cons 95) gs) /\ Forall (fun g => length g = k /\ Forall inX g) gs.
  Proof.
    intros k w rest. split.
    - intros H. remember (Star (Cat (chr1 95) (Rep (Chr false X) k k))) as r eqn:Er. revert Er.
      induction H; intros Er; try discriminate.
      + exists []. split; auto.
      + injection Er as ->. destruct (IHmatches2 eq_refl) as (gs & -> & Hgs).
        apply matches_cat in H. destruct H as (u & g & -> & Hu & Hg).
        apply matches_chr1 in Hu. subst u. apply matches_rep_class in Hg. destruct Hg as [Hl Hf].
        exists (g :: gs). split; [simpl; auto|]. constructor; auto. split; [lia|auto].
    - intros (gs & -> & Hgs). revert rest. induction gs as [|g gs IH]; intros rest; simpl.
      + constructor.
      + inversion Hgs as [|? ? [Hl Hf] Hgs']; subst.
        change (95 :: g ++ concat (map (cons 95) gs)) with ((95 :: g) ++ concat (map (cons 95) gs)).
        constructor; auto. change (95 :: g) with ([95] ++ g). constructor.
        * apply matches_chr1. auto.
        * apply matches_rep_class. split; [lia|auto].
  Qed.

  Lemma matches_re_grouped : forall k w rest,
    matches (re_grouped X k) w rest <-> grouped inX k w.
  Proof.
    intros k w rest. unfold re_grouped, grouped. rewrite matches_cat. split.
    - intros (g0 & w2 & -> & H1 & H2). apply matches_rep_class in H1. destruct H1 as [Hl Hf].
      apply matches_groups in H2. destruct H2 as (gs & -> & Hgs). exists g0, gs. auto.
    - intros (g0 & gs & -> & Hl & Hf & Hgs). exists g0, (concat (map (cons 95) gs)).
      split; auto. split; [apply matches_rep_class; auto|apply matches_groups; eauto].
  Qed.

  Lemma matches_re_plain : forall w rest, matches (re_plain X) w rest <-> plain inX w.
  Proof.
    intros w rest. unfold re_plain, plain. rewrite matches_cat. split.
    - intros (w1 & w2 & -> & H1 & H2). apply matches_class in H1. destruct H1 as (c & -> & Hc).
      apply matches_star_class in H2. split; [discriminate|constructor; auto].
    - intros [Hne Hf]. destruct w as [|c w]; [congruence|]. inversion Hf; subst.
      exists [c], w. split; auto. split; [apply matches_class; eauto|apply matches_star_class; auto].
  Qed.
End Shapes.

Lemma plain_iff : forall (P Q : N -> Prop) w, (forall c, P c <-> Q c) -> (plain P w <-> plain Q w).
Proof. intros P Q w H. unfold plain. rewrite (Forall_iff _ P Q w H). tauto. Qed.

Lemma grouped_iff : forall (P Q : N -> Prop) k w, (forall c, P c <-> Q c) -> (grouped P k w <-> grouped Q k w).
Proof.
  intros P Q k w H. unfold grouped. split; intros (g0 & gs & -> & Hl & Hf & Hgs); exists g0, gs;
    (split; [auto|]; split; [auto|]; split; [eapply Forall_iff; [|exact Hf]; intros c; rewrite H; tauto|]);
    eapply Forall_impl; try exact Hgs; intros g [Hk Hg]; (split; [auto|]);
    eapply Forall_iff; try exact Hg; intros c; rewrite H; tauto.
Qed.

Lemma matches_pref : forall p R w rest,
  matches (Cat (chr1 48) (Cat (chr1 p) R)) w rest <-> exists b, w = 48 :: p :: b /\ matches R b rest.
Proof.
  intros p R w rest. rewrite matches_cat. split.
  - intros (w1 & w2 & -> & H1 & H2). apply matches_chr1 in H1. subst w1.
    apply matches_cat in H2. destruct H2 as (w3 & b & -> & H3 & H4). apply matches_chr1 in H3. subst w3.
    exists b. auto.
  - intros (b & -> & H). exists [48], (p :: b). split; auto. split; [apply matches_chr1; auto|].
    apply matches_cat. exists [p], b. split; auto. split; [apply matches_chr1; auto|auto].
Qed.

Lemma matches_opt_under : forall R b rest,
  matches (Cat (Alt (chr1 95) Eps) R) b rest <-> matches R b rest \/ exists b', b = 95 :: b' /\ matches R b' rest.
Proof.
  intros R b rest. rewrite matches_cat. split.
  - intros (w1 & w2 & -> & H1 & H2). apply matches_alt in H1. destruct H1 as [H1|H1].
    + apply matches_chr1 in H1. subst w1. right. exists w2. auto.
    + apply matches_eps in H1. subst w1. left. auto.
  - intros [H|(b' & -> & H)].
    + exists [], b. split; auto. split; auto. apply MAltR. constructor.
    + exists [95], b'. split; auto. split; auto. apply MAltL. apply matches_chr1. auto.
Qed.

Lemma matches_pref_u : forall p X k w rest,
  matches (re_pref_u p (re_grouped X k)) w rest <->
  exists b, w = 48 :: p :: b /\ opt_under (grouped (fun c => in_ranges X c = true) k) b.
Proof.
  intros p X k w rest. unfold re_pref_u. rewrite matches_pref. unfold opt_under. split.
  - intros (b & -> & H). exists b. split; auto. apply matches_opt_under in H.
    destruct H as [H|(b' & -> & H)]; [left|right; exists b'; split; auto]; apply matches_re_grouped in H; auto.
  - intros (b & -> & H). exists b. split; auto. apply matches_opt_under.
    destruct H as [H|(b' & -> & H)]; [left|right; exists b'; split; auto]; apply matches_re_grouped; auto.
Qed.

Lemma opt_under_iff : forall (P Q : str -> Prop) b, (forall x, P x <-> Q x) -> (opt_under P b <-> opt_under Q b).
Proof.
  intros P Q b H. unfold opt_under. rewrite H. split; (intros [Hb|(b' & -> & Hb)]; [left; auto|right; exists b'; split; auto; apply H; auto]).
Qed.

Theorem number_class_proof : forall w rest,
  (exists r, In r re_numbers /\ matches r w rest) <-> is_number w.
Proof.
  intros w rest. unfold re_numbers, is_number.
  pose proof (fun w => plain_iff _ _ w in_digit) as Pd. pose proof (fun w => plain_iff _ _ w in_hex) as Ph.
  pose proof (fun w => plain_iff _ _ w in_bin) as Pb.
  pose proof (fun k w => grouped_iff _ _ k w in_digit) as Gd. pose proof (fun k w => grouped_iff _ _ k w in_hex) as Gh.
  pose proof (fun k w => grouped_iff _ _ k w in_bin) as Gb.
  split.
  - intros (r & Hin & Hm). simpl in Hin.
    destruct Hin as [<-|[<-|[<-|[<-|[<-|[<-|[<-|[<-|[]]]]]]]]].
    + left. apply Pd. eapply matches_re_plain; eauto.
    + right; left. apply Gd. eapply matches_re_grouped; eauto.
    + right; right; left. apply matches_pref in Hm. destruct Hm as (b & -> & Hm). exists b. split; auto.
      left. apply Ph. eapply matches_re_plain; eauto.
    + right; right; left. apply matches_pref_u in Hm. destruct Hm as (b & -> & Hm). exists b. split; auto.
      right; left. eapply opt_under_iff; [|exact Hm]. intros x. symmetry. apply Gh.
    + right; right; left. apply matches_pref_u in Hm. destruct Hm as (b & -> & Hm). exists b. split; auto.
      right; right. eapply opt_under_iff; [|exact Hm]. intros x. symmetry. apply Gh.
    + right; right; right. apply matches_pref in Hm. destruct Hm as (b & -> & Hm). exists b. split; auto.
      left. apply Pb. eapply matches_re_plain; eauto.
    + right; right; right. apply matches_pref_u in Hm. destruct Hm as (b & -> & Hm). exists b. split; auto.
      right; left. eapply opt_under_iff; [|exact Hm]. intros x. symmetry. apply Gb.
    + right; right; right. apply matches_pref_u in Hm. destruct Hm as (b & -> & Hm). exists b. split; auto.
      right; right. eapply opt_under_iff; [|exact Hm]. intros x. symmetry. apply Gb.
  - intros [H|[H|[(b & -> & [H|[H|H]])|(b & -> & [H|[H|H]])]]].
    + exists (re_plain cls_digit). split; [simpl; auto|]. apply matches_re_plain. apply Pd. auto.
    + exists (re_grouped cls_digit 3). split; [simpl; auto|]. apply matches_re_grouped. apply Gd. auto.
    + exists (Cat (chr1 48) (Cat (chr1 120) (re_plain cls_hex))). split; [simpl; auto|].
      apply matches_pref. exists b. split; auto. apply matches_re_plain. apply Ph. auto.
    + exists (re_pref_u 120 (re_grouped cls_hex 4)). split; [simpl; auto 6|].
      apply matches_pref_u. exists b. split; auto. eapply opt_under_iff; [|exact H]. intros x. apply Gh.
    + exists (re_pref_u 120 (re_grouped cls_hex 8)). split; [simpl; auto 7|].
      apply matches_pref_u. exists b. split; auto. eapply opt_under_iff; [|exact H]. intros x. apply Gh.
    + exists (Cat (chr1 48) (Cat (chr1 98) (re_plain cls_bin))). split; [simpl; auto 8|].
      apply matches_pref. exists b. split; auto. apply matches_re_plain. apply Pb. auto.
    + exists (re_pref_u 98 (re_grouped cls_bin 4)). split; [simpl; auto 9|].
      apply matches_pref_u. exists b. split; auto. eapply opt_under_iff; [|exact H]. intros x. apply Gb.
    + exists (re_pref_u 98 (re_grouped cls_bin 8)). split; [simpl; auto 10|].
      apply matches_pref_u. exists b. split; auto. eapply opt_under_iff; [|exact H]. intros x. apply Gb.
Qed.

(* every documented format is accepted *)
Theorem number_doc_sound_proof : forall w, is_number_doc w -> is_number w.
Proof.
  intros w [H|[H|[(b & -> & H)|(b & -> & H)]]]; unfold is_number, opt_under.
  - auto.
  - auto.
  - right; right; left. exists b. split; auto. tauto.
  - right; right; right. exists b. split; auto. tauto.
Qed.

(* a documented number never has '_' directly after 0x *)
Lemma grouped_head : forall P k c w, grouped P k (c :: w) -> P c.
Proof.
  intros P k c w (g0 & gs & E & Hl & Hf & _). destruct g0 as [|x g0]; [simpl in Hl; lia|].
  simpl in E. injection E as -> _. inversion Hf; auto.
Qed.

Theorem number_leading_underscore_refuted_proof :
  exists w, is_number w /\ ~ is_number_doc w.
Proof.
  exists [48; 120; 95; 49]. split.
  - right; right; left. exists [95; 49]. split; auto. right; left. right. exists [49]. split; auto.
    exists [49], []. simpl. split; auto. split; [lia|]. split; [|constructor].
    constructor; [|constructor]. left. unfold digit. lia.
  - intros [H|[H|[(b & E & H)|(b & E & H)]]].
    + destruct H as [_ H]. inversion H as [|? ? _ H2]; subst. inversion H2 as [|? ? H3 _]; subst.
      unfold digit in H3. lia.
    + destruct H as (g0 & gs & E & Hl & Hf & Hgs). destruct g0 as [|x g0]; [simpl in Hl; lia|].
      simpl in E. injection E as <- E. destruct g0 as [|y g0].
      * simpl in E. destruct gs; simpl in E; discriminate.
      * simpl in E. injection E as <- _. inversion Hf as [|? ? _ H2]; subst. inversion H2 as [|? ? H3 _]; subst.
        unfold digit in H3. lia.
    + injection E as <-. destruct H as [[_ H]|[H|H]].
      * inversion H as [|? ? H1 _]; subst. unfold hexdig, digit in H1. lia.
      * apply grouped_head in H. unfold hexdig, digit in H. lia.
      * apply grouped_head in H. unfold hexdig, digit in H. lia.
    + discriminate.
Qed.
