(* The name regexes denote exactly the language-reference character rules. *)
From Coq Require Import NArith List Bool Lia.
Import ListNotations.
Require Import EmbossV.Lex.Regex EmbossV.Lex.Class.
Local Open Scope N_scope.

Lemma in_ranges_cons : forall lo hi rs c,
  in_ranges ((lo, hi) :: rs) c = true <-> (lo <= c <= hi) \/ in_ranges rs c = true.
Proof.
  intros lo hi rs c. unfold in_ranges. simpl. rewrite orb_true_iff, andb_true_iff, !N.leb_le. tauto.
Qed.

Lemma in_ranges_nil : forall c, in_ranges [] c = true <-> False.
Proof. intros c. unfold in_ranges. simpl. split; [discriminate|tauto]. Qed.

Lemma in_lower : forall c, in_ranges cls_lower c = true <-> lower c.
Proof. intros c. unfold cls_lower, lower. rewrite in_ranges_cons, in_ranges_nil. tauto. Qed.

Lemma in_upper : forall c, in_ranges cls_upper c = true <-> upper c.
Proof. intros c. unfold cls_upper, upper. rewrite in_ranges_cons, in_ranges_nil. tauto. Qed.

Lemma in_snake_tail : forall c, in_ranges cls_snake_tail c = true <-> lower c \/ under c \/ digit c.
Proof.
  intros c. unfold cls_snake_tail, lower, under, digit. rewrite !in_ranges_cons, in_ranges_nil.
  split; [intros [H|[H|[H|[]]]]; auto; right; left; lia|intros [H|[H|H]]; auto; right; left; lia].
Qed.

Lemma in_shouty_tail : forall c, in_ranges cls_shouty_tail c = true <-> upper c \/ under c \/ digit c.
Proof.
  intros c. unfold cls_shouty_tail, upper, under, digit. rewrite !in_ranges_cons, in_ranges_nil.
  split; [intros [H|[H|[H|[]]]]; auto; right; left; lia|intros [H|[H|H]]; auto; right; left; lia].
Qed.

Lemma in_shouty_mid : forall c, in_ranges cls_shouty_mid c = true <-> upper c \/ under c.
Proof.
  intros c. unfold cls_shouty_mid, upper, under. rewrite !in_ranges_cons, in_ranges_nil.
  split; [intros [H|[H|[]]]; auto; right; lia|intros [H|H]; auto; right; left; lia].
Qed.

Lemma in_alnum : forall c, in_ranges cls_alnum c = true <-> lower c \/ upper c \/ digit c.
Proof.
  intros c. unfold cls_alnum, lower, upper, digit. rewrite !in_ranges_cons, in_ranges_nil. tauto.
Qed.

(* ---- generic shapes ---- *)
Lemma matches_class : forall rs w rest,
  matches (Chr false rs) w rest <-> exists c, w = [c] /\ in_ranges rs c = true.
Proof.
  intros rs w rest. rewrite matches_chr. unfold cls_mem.
  split; intros (c & -> & H); exists c; split; auto; destruct (in_ranges rs c); auto.
Qed.

Lemma matches_star_class : forall rs w rest,
  matches (Star (Chr false rs)) w rest <-> Forall (fun c => in_ranges rs c = true) w.
Proof.
  intros rs w rest. split.
  - intros H. remember (Star (Chr false rs)) as r eqn:Er. revert Er.
    induction H; intros Er; try discriminate.
    + constructor.
    + injection Er as ->. apply matches_class in H. destruct H as (c & -> & Hc).
      simpl. constructor; auto.
  - revert rest. induction w as [|c w IH]; intros rest H.
    + constructor.
    + inversion H; subst. change (c :: w) with ([c] ++ w). constructor; auto.
      apply matches_class. eauto.
Qed.

(* X* Y X*  with Y inside X:  all characters in X and at least one in Y *)
Lemma matches_star_mid_star : forall X Y w rest,
  (forall c, in_ranges Y c = true -> in_ranges X c = true) ->
  (matches (Cat (Star (Chr false X)) (Cat (Chr false Y) (Star (Chr false X)))) w rest <->
   Forall (fun c => in_ranges X c = true) w /\ Exists (fun c => in_ranges Y c = true) w).
Proof.
  intros X Y w rest Hsub. rewrite matches_cat. split.
  - intros (w1 & w23 & -> & H1 & H23). apply matches_cat in H23.
    destruct H23 as (w2 & w3 & -> & H2 & H3).
    apply matches_star_class in H1, H3. apply matches_class in H2. destruct H2 as (c & -> & Hc).
    split.
    + apply Forall_app. split; auto. simpl. constructor; auto.
    + apply Exists_app. right. simpl. constructor. auto.
  - intros [Hall Hex]. apply Exists_exists in Hex. destruct Hex as (c & Hin & Hc).
    apply in_split in Hin. destruct Hin as (w1 & w3 & ->).
    apply Forall_app in Hall. destruct Hall as [H1 H3]. inversion H3; subst.
    exists w1, (c :: w3). split; auto. split; [apply matches_star_class; auto|].
    apply matches_cat. exists [c], w3. split; auto. split.
    + apply matches_class. eauto.
    + apply matches_star_class. auto.
Qed.

Lemma Forall_iff : forall (A : Type) (P Q : A -> Prop) l, (forall x, P x <-> Q x) -> (Forall P l <-> Forall Q l).
Proof. intros A P Q l H. split; intros F; eapply Forall_impl; try exact F; intros x; apply H. Qed.

Lemma Exists_iff : forall (A : Type) (P Q : A -> Prop) l, (forall x, P x <-> Q x) -> (Exists P l <-> Exists Q l).
Proof. intros A P Q l H. rewrite !Exists_exists. split; intros (x & Hx & Hp); exists x; split; auto; apply H; auto. Qed.

(* ---- the three name classes ---- *)
Theorem snake_class_proof : forall w rest, matches re_snake w rest <-> is_snake w.
Proof.
  intros w rest. unfold re_snake, is_snake. rewrite matches_cat. split.
  - intros (w1 & w2 & -> & H1 & H2). apply matches_class in H1. destruct H1 as (c & -> & Hc).
    apply matches_star_class in H2. exists c, w2. split; auto. split; [apply in_lower; auto|].
    eapply Forall_iff; [|exact H2]. intros x. symmetry. apply in_snake_tail.
  - intros (c & cs & -> & Hc & Hcs). exists [c], cs. split; auto. split.
    + apply matches_class. exists c. split; auto. apply in_lower; auto.
    + apply matches_star_class. eapply Forall_iff; [|exact Hcs]. intros x. apply in_snake_tail.
Qed.

Theorem shouty_class_proof : forall w rest, matches re_shouty w rest <-> is_shouty w.
Proof.
  intros w rest. unfold re_shouty, is_shouty. rewrite matches_cat. split.
  - intros (w1 & w2 & -> & H1 & H2). apply matches_class in H1. destruct H1 as (c & -> & Hc).
    apply matches_star_mid_star in H2.
    2:{ intros x Hx. apply in_shouty_tail. apply in_shouty_mid in Hx. tauto. }
    destruct H2 as [Ha He]. exists c, w2. split; auto. split; [apply in_upper; auto|]. split.
    + eapply Forall_iff; [|exact Ha]. intros x. symmetry. apply in_shouty_tail.
    + eapply Exists_iff; [|exact He]. intros x. symmetry. apply in_shouty_mid.
  - intros (c & cs & -> & Hc & Ha & He). exists [c], cs. split; auto. split.
    + apply matches_class. exists c. split; auto. apply in_upper; auto.
    + apply matches_star_mid_star.
      * intros x Hx. apply in_shouty_tail. apply in_shouty_mid in Hx. tauto.
      * split.
        -- eapply Forall_iff; [|exact Ha]. intros x. apply in_shouty_tail.
        -- eapply Exists_iff; [|exact He]. intros x. apply in_shouty_mid.
Qed.

Theorem camel_class_proof : forall w rest, matches re_camel w rest <-> is_camel w.
Proof.
  intros w rest. unfold re_camel, is_camel. rewrite matches_cat. split.
  - intros (w1 & w2 & -> & H1 & H2). apply matches_class in H1. destruct H1 as (c & -> & Hc).
    apply matches_star_mid_star in H2.
    2:{ intros x Hx. apply in_alnum. apply in_lower in Hx. tauto. }
    destruct H2 as [Ha He]. exists c, w2. split; auto. split; [apply in_upper; auto|]. split.
    + eapply Forall_iff; [|exact Ha]. intros x. symmetry. apply in_alnum.
    + eapply Exists_iff; [|exact He]. intros x. symmetry. apply in_lower.
  - intros (c & cs & -> & Hc & Ha & He). exists [c], cs. split; auto. split.
    + apply matches_class. exists c. split; auto. apply in_upper; auto.
    + apply matches_star_mid_star.
      * intros x Hx. apply in_alnum. apply in_lower in Hx. tauto.
      * split.
        -- eapply Forall_iff; [|exact Ha]. intros x. apply in_alnum.
        -- eapply Exists_iff; [|exact He]. intros x. apply in_lower.
Qed.

(* The prose rule for SHOUTY_CASE ("at least two characters long") is looser than the regex:
   "A1" satisfies the prose, not the regex. *)
Theorem shouty_prose_refuted_proof :
  exists w, is_shouty_prose w /\ forall rest, ~ matches re_shouty w rest.
Proof.
  exists [65; 49]. split.
  - exists 65, [49]. split; [reflexivity|]. split; [unfold upper; lia|]. split.
    + constructor; [right; right; unfold digit; lia|constructor].
    + simpl. auto.
  - intros rest H. apply shouty_class_proof in H. destruct H as (c & cs & E & _ & _ & He).
    injection E as <- <-. inversion He as [? ? H|? ? H]; subst.
    + unfold upper, under in H. lia.
    + inversion H.
Qed.

(* every regex-Shouty word satisfies the prose *)
Theorem shouty_prose_sound_proof : forall w, is_shouty w -> is_shouty_prose w.
Proof.
  intros w (c & cs & -> & Hc & Ha & He). exists c, cs.
  split; [auto|]. split; [auto|]. split; [auto|].
  destruct cs; [inversion He|]. simpl. lia.
Qed.
