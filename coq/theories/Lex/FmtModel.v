(* C11, handler level (definitions only): an executable model of compiler/front_end/format_emb.py.

   * strings are lists of PIECES: the text of an input token (with its symbol) or a literal the
     formatter wrote; the Python string is [flat].  Every decision of the formatter that looks at a
     string (emptiness, length, ==, startswith, rstrip, ljust) is taken on [flat], so the pieces are
     ghost structure: they record where each character of the output came from.
   * values = what handlers return: str, _Row, _Block, list, _InlineBitsBodyType.
   * the per-production handlers are terms of a small DSL ([expr]); the table production -> handler
     is REGENERATED from format_emb.py by harness/fmt_x.py on every run.  Only the shared combinators
     (_intersperse, _should_add_blank_lines, _columnize, _indent_*, _add_blank_rows_on_dedent,
     _render_rows_to_text, _strip_empty_leading_trailing_comment_lines) are written by hand here.
   * [None] = the Python code raises (TypeError, failed assert, IndexError) -- or the model does not
     cover the situation (fail closed); Properties_C11.format_total excludes it for grammar trees. *)
From Coq Require Import NArith List Bool Arith PeanoNat.
Import ListNotations.
Require Import EmbossV.Lex.Regex.

(* ---------- strings with provenance ---------- *)
Inductive piece := GTok (sy : str) (tx : str) | GLit (tx : str).
Definition gstr := list piece.
Definition ptext (p : piece) : str := match p with GTok _ t => t | GLit t => t end.
Definition set_ptext (p : piece) (t : str) : piece := match p with GTok s _ => GTok s t | GLit _ => GLit t end.
Fixpoint flat (g : gstr) : str := match g with [] => [] | p :: g' => ptext p ++ flat g' end.

Definition glen (g : gstr) : nat := length (flat g).
Definition gempty (g : gstr) : bool := match flat g with [] => true | _ => false end.

Fixpoint seqb (a b : str) : bool :=
  match a, b with
  | [], [] => true
  | x :: a', y :: b' => (x =? y)%N && seqb a' b'
  | _, _ => false
  end.
Fixpoint startsb (p s : str) : bool :=
  match p, s with
  | [], _ => true
  | x :: p', y :: s' => (x =? y)%N && startsb p' s'
  | _ :: _, [] => false
  end.

Section WithWs.
(* str.isspace of Python, regenerated (Tokenizer.is_ws of the generated table) *)
Variable ws : N -> bool.

(* str.rstrip() *)
Fixpoint rstrip (s : str) : str :=
  match s with
  | [] => []
  | c :: s' => match rstrip s' with
               | [] => if ws c then [] else [c]
               | r => c :: r
               end
  end.
Fixpoint lstrip (s : str) : str :=
  match s with
  | c :: s' => if ws c then lstrip s' else s
  | [] => []
  end.
Definition strip_ (s : str) : str := lstrip (rstrip s).

Fixpoint grstrip (g : gstr) : gstr :=
  match g with
  | [] => []
  | p :: g' => match grstrip g' with
               | [] => match rstrip (ptext p) with [] => [] | t => [set_ptext p t] end
               | r => p :: r
               end
  end.

Definition spaces (n : nat) : str := repeat 32%N n.
(* str.ljust(width) *)
Definition gljust (g : gstr) (width : nat) : gstr :=
  match width - glen g with 0 => g | S k => g ++ [GLit (spaces (S k))] end.

(* ---------- rows, blocks, values ---------- *)
Record row := mkRow { rname : str; rcols : list gstr; rindent : nat }.
Record block := mkBlock { bprefix : list row; bheader : row; bbody : list row }.
Inductive item := IStr (s : gstr) | IRow (r : row) | IBlock (b : block) | IRows (l : list row).
Inductive value :=
| VStr (s : gstr)
| VRow (r : row)
| VBlock (b : block)
| VList (l : list item)
| VBody (h : list row) (b : list block).     (* _InlineBitsBodyType(header_lines, field_blocks) *)

Fixpoint as_strs (l : list item) : option (list gstr) :=
  match l with
  | [] => Some []
  | IStr s :: l' => option_map (cons s) (as_strs l')
  | _ => None
  end.
Fixpoint as_rows (l : list item) : option (list row) :=
  match l with
  | [] => Some []
  | IRow r :: l' => option_map (cons r) (as_rows l')
  | _ => None
  end.
Fixpoint as_blocks (l : list item) : option (list block) :=
  match l with
  | [] => Some []
  | IBlock b :: l' => option_map (cons b) (as_blocks l')
  | _ => None
  end.
Fixpoint as_rowss (l : list item) : option (list (list row)) :=
  match l with
  | [] => Some []
  | IRows r :: l' => option_map (cons r) (as_rowss l')
  | _ => None
  end.

(* a value as an element of a list display / of the argument tuple *)
Definition item_of (v : value) : option item :=
  match v with
  | VStr s => Some (IStr s)
  | VRow r => Some (IRow r)
  | VBlock b => Some (IBlock b)
  | VList l => option_map IRows (as_rows l)
  | VBody _ _ => None
  end.
Fixpoint items_of (vs : list value) : option (list item) :=
  match vs with
  | [] => Some []
  | v :: vs' => match item_of v, items_of vs' with
                | Some i, Some l => Some (i :: l)
                | _, _ => None
                end
  end.

(* ---------- shared combinators ---------- *)
Definition indent_row (r : row) : row := mkRow (rname r) (rcols r) (S (rindent r)).
Definition indent_rows (l : list row) : list row := map indent_row l.
Definition indent_block (b : block) : block :=
  mkBlock (indent_rows (bprefix b)) (indent_row (bheader b)) (indent_rows (bbody b)).
Definition indent_blocks (l : list block) : list block := map indent_block l.

(* _intersperse: `result` is the accumulator of the Python loop *)
Fixpoint intersperse_go (sep acc : list row) (secs : list (list row)) : list row :=
  match secs with
  | [] => acc
  | [] :: rest => intersperse_go sep acc rest
  | s :: rest => intersperse_go sep (match acc with [] => s | _ => acc ++ sep ++ s end) rest
  end.
Definition intersperse (sep : list row) (secs : list (list row)) : list row := intersperse_go sep [] secs.

Definition has_cols (r : row) : bool := match rcols r with [] => false | _ => true end.
Definition block_lines (b : block) : nat := length (filter has_cols (bbody b ++ bprefix b)).
Fixpoint sabl_go (other last : nat) (bs : list block) : nat * nat :=
  match bs with
  | [] => (other, last)
  | b :: bs' => sabl_go (other + block_lines b) (block_lines b) bs'
  end.
Definition should_add_blank_lines (bs : list block) : bool :=
  let (other, last) := sabl_go 0 0 bs in length bs <=? other - last.

(* _columnize *)
Definition name_field : str := [102;105;101;108;100]%N.                                  (* field *)
Definition name_enum_value : str := [101;110;117;109;45;118;97;108;117;101]%N.           (* enum-value *)
Definition name_comment : str := [99;111;109;109;101;110;116]%N.                         (* comment *)
Definition name_dedent_space : str := [100;101;100;101;110;116;45;115;112;97;99;101]%N.  (* dedent-space *)

Definition single_sep (name : str) (i : nat) : bool :=
  if seqb name name_enum_value then (i =? 0) || (i =? 1)
  else if seqb name name_field then i =? 0 else false.

Definition col_adjust (iw ic : nat) (r : row) (i : nat) : nat :=
  if S i =? ic then rindent r * iw else 0.

(* row_types[name][i] after the first loop *)
Fixpoint col_width (iw ic : nat) (name : str) (i : nat) (bs : list block) : nat :=
  match bs with
  | [] => 0
  | b :: bs' =>
      let w := col_width iw ic name i bs' in
      if seqb (rname (bheader b)) name then
        match nth_error (rcols (bheader b)) i with
        | Some c => Nat.max w (glen c + col_adjust iw ic (bheader b) i)
        | None => w
        end
      else w
  end.

Fixpoint mem_str (s : str) (l : list str) : bool :=
  match l with [] => false | x :: l' => seqb s x || mem_str s l' end.
Fixpoint distinct_names (bs : list block) (seen : list str) : list str :=
  match bs with
  | [] => seen
  | b :: bs' => if mem_str (rname (bheader b)) seen then distinct_names bs' seen
                else distinct_names bs' (rname (bheader b) :: seen)
  end.

Fixpoint pad_cols (iw ic : nat) (all : list block) (r : row) (i : nat) (cols : list gstr) : gstr :=
  match cols with
  | [] => []
  | c :: cols' =>
      let w := col_width iw ic (rname r) i all in
      let w' := match w with
                | 0 => 0
                | _ => (w - col_adjust iw ic r i) + (if single_sep (rname r) i then 1 else 2)
                end in
      gljust c w' ++ pad_cols iw ic all r (S i) cols'
  end.

Definition columnize_block (iw ic : nat) (all : list block) (b : block) : list row :=
  bprefix b ++ [mkRow (rname (bheader b)) [grstrip (pad_cols iw ic all (bheader b) 0 (rcols (bheader b)))] (rindent (bheader b))]
            ++ bbody b.
Definition columnize (iw ic : nat) (bs : list block) : option (list (list row)) :=
  if length (distinct_names bs []) <? 3 then Some (map (columnize_block iw ic bs) bs) else None.

(* not "".join(row.columns) *)
Definition row_blank (r : row) : bool := forallb gempty (rcols r).

(* _indent_blanks_and_comments: second component = indent of the next row that is neither blank nor a comment *)
Fixpoint ibc_go (rows : list row) : list row * nat :=
  match rows with
  | [] => ([], 0)
  | r :: rest =>
      let (res, pi) := ibc_go rest in
      if row_blank r || seqb (rname r) name_comment then (mkRow (rname r) (rcols r) pi :: res, pi)
      else (r :: res, rindent r)
  end.
Definition indent_blanks_and_comments (rows : list row) : list row := fst (ibc_go rows).

(* _add_blank_rows_on_dedent *)
Fixpoint dedent_go (prev_indent : nat) (prev_blank : bool) (rows : list row) : list row :=
  match rows with
  | [] => []
  | r :: rest =>
      let b := row_blank r in
      let tail := r :: dedent_go (rindent r) b rest in
      if (rindent r <? prev_indent) && negb prev_blank && negb b
      then mkRow name_dedent_space [] (rindent r) :: tail else tail
  end.
Definition add_blank_rows_on_dedent (rows : list row) : list row := dedent_go 0 true rows.

(* _render_row_to_text (None = the assert on the number of columns), _render_rows_to_text with
   show_line_types = False *)
Definition render_row (iw : nat) (r : row) : option gstr :=
  match rcols r with
  | [] => Some (grstrip [GLit (spaces (iw * rindent r))])
  | [c] => Some (grstrip (GLit (spaces (iw * rindent r)) :: c))
  | _ => None
  end.
Fixpoint render_rows (iw : nat) (rows : list row) : option gstr :=
  match rows with
  | [] => Some []
  | r :: rest => match render_row iw r, render_rows iw rest with
                 | Some t, Some u => Some (t ++ GLit [10%N] :: u)
                 | _, _ => None
                 end
  end.

(* _strip_empty_leading_trailing_comment_lines *)
Fixpoint drop_leading_empty (l : list row) : list row :=
  match l with
  | r :: l' => if has_cols r then l else drop_leading_empty l'
  | [] => []
  end.
Fixpoint drop_trailing_empty (l : list row) : list row :=
  match l with
  | [] => []
  | r :: l' => match drop_trailing_empty l' with
               | [] => if has_cols r then [r] else []
               | x => r :: x
               end
  end.
Definition strip_comment_lines (l : list row) : list row := drop_trailing_empty (drop_leading_empty l).

Fixpoint gjoin (sep : str) (l : list gstr) : gstr :=
  match l with
  | [] => []
  | [s] => s
  | s :: l' => s ++ GLit sep :: gjoin sep l'
  end.

(* ---------- the handler DSL ---------- *)
Inductive cond :=
| CTruthy (i : nat)                  (* if arg: *)
| CNot (c : cond)
| CAnd (a b : cond)
| CStrEq (i : nat) (s : str)         (* arg == "lit" *)
| CStartsWith (i : nat) (s : str)    (* arg.startswith("lit") *)
| CShouldBlank (i : nat).            (* _should_add_blank_lines(arg) *)

Inductive expr :=
| EArg (i : nat)
| EArgs                               (* the *elements tuple *)
| ELit (s : str)
| ENil
| ECons (a l : expr)                  (* [a] + l  (list displays) *)
| EAdd (a b : expr)                   (* a + b on str or list *)
| EJoin (sep : str) (l : expr)        (* sep.join(l) *)
| EFilterTruthy (l : expr)            (* (x for x in l if x) *)
| EMapPrefix (s : str) (l : expr)     (* (s + x for x in l) *)
| ERstrip (e : expr)
| EFst (i : nat) | ESnd (i : nat)     (* arg[0], arg[1]; the model insists on a two-element list of str *)
| EBodyHdr (i : nat) | EBodyBlocks (i : nat)
| EBodyMk (h b : expr)
| ERow (name : str) (cols : expr)
| EBlock (p h b : expr)
| EIndentRows (e : expr) | EIndentBlocks (e : expr)
| EIntersperse (sep secs : expr)
| EColumnize (e : expr) (ic : nat)
| EStripComments (e : expr)
| EPrependFirst (rows blocks : expr)  (* [_Block(rows + v[0].prefix, v[0].header, v[0].body)] + v[1:] *)
| EIf (c : cond) (a b : expr)
| EAssert (c : cond) (e : expr)
| EIndentBlanks (e : expr)
| EDedentBlanks (e : expr)
| ERender (e : expr).

Definition truthy (v : value) : bool :=
  match v with
  | VStr s => negb (gempty s)
  | VList l => match l with [] => false | _ => true end
  | _ => true
  end.

Fixpoint ceval (args : list value) (c : cond) : option bool :=
  match c with
  | CTruthy i => option_map truthy (nth_error args i)
  | CNot c' => option_map negb (ceval args c')
  | CAnd a b => match ceval args a with
                | Some true => ceval args b
                | r => r
                end
  | CStrEq i s => match nth_error args i with
                  | Some (VStr g) => Some (seqb (flat g) s)
                  | Some _ => Some false
                  | None => None
                  end
  | CStartsWith i s => match nth_error args i with
                       | Some (VStr g) => Some (startsb s (flat g))
                       | _ => None
                       end
  | CShouldBlank i => match nth_error args i with
                      | Some (VList l) => option_map should_add_blank_lines (as_blocks l)
                      | _ => None
                      end
  end.

Definition get_rows (v : option value) : option (list row) :=
  match v with Some (VList l) => as_rows l | _ => None end.
Definition get_blocks (v : option value) : option (list block) :=
  match v with Some (VList l) => as_blocks l | _ => None end.
Definition get_strs (v : option value) : option (list gstr) :=
  match v with Some (VList l) => as_strs l | _ => None end.
Definition vrows (l : list row) : value := VList (map IRow l).
Definition vblocks (l : list block) : value := VList (map IBlock l).
Definition vstrs (l : list gstr) : value := VList (map IStr l).

Fixpoint eval (iw : nat) (args : list value) (e : expr) : option value :=
  match e with
  | EArg i => nth_error args i
  | EArgs => option_map VList (items_of args)
  | ELit s => Some (VStr [GLit s])
  | ENil => Some (VList [])
  | ECons a l => match eval iw args a, eval iw args l with
                 | Some v, Some (VList li) => option_map (fun i => VList (i :: li)) (item_of v)
                 | _, _ => None
                 end
  | EAdd a b => match eval iw args a, eval iw args b with
                | Some (VStr x), Some (VStr y) => Some (VStr (x ++ y))
                | Some (VList x), Some (VList y) => Some (VList (x ++ y))
                | _, _ => None
                end
  | EJoin sep l => option_map (fun ss => VStr (gjoin sep ss)) (get_strs (eval iw args l))
  | EFilterTruthy l => option_map (fun ss => vstrs (filter (fun s => negb (gempty s)) ss)) (get_strs (eval iw args l))
  | EMapPrefix s l => option_map (fun ss => vstrs (map (fun x => GLit s :: x) ss)) (get_strs (eval iw args l))
  | ERstrip e' => match eval iw args e' with
                  | Some (VStr s) => Some (VStr (grstrip s))
                  | _ => None
                  end
  | EFst i => match nth_error args i with
              | Some (VList [IStr a; IStr _]) => Some (VStr a)
              | _ => None
              end
  | ESnd i => match nth_error args i with
              | Some (VList [IStr _; IStr b]) => Some (VStr b)
              | _ => None
              end
  | EBodyHdr i => match nth_error args i with
                  | Some (VBody h _) => Some (vrows h)
                  | _ => None
                  end
  | EBodyBlocks i => match nth_error args i with
                     | Some (VBody _ b) => Some (vblocks b)
                     | _ => None
                     end
  | EBodyMk h b => match get_rows (eval iw args h), get_blocks (eval iw args b) with
                   | Some hr, Some bl => Some (VBody hr bl)
                   | _, _ => None
                   end
  | ERow name cols => option_map (fun ss => VRow (mkRow name ss 0)) (get_strs (eval iw args cols))
  | EBlock p h b => match get_rows (eval iw args p), eval iw args h, get_rows (eval iw args b) with
                    | Some pr, Some (VRow hr), Some br => Some (VBlock (mkBlock pr hr br))
                    | _, _, _ => None
                    end
  | EIndentRows e' => option_map (fun r => vrows (indent_rows r)) (get_rows (eval iw args e'))
  | EIndentBlocks e' => option_map (fun b => vblocks (indent_blocks b)) (get_blocks (eval iw args e'))
  | EIntersperse sep secs =>
      match get_rows (eval iw args sep), eval iw args secs with
      | Some s, Some (VList l) => option_map (fun ss => vrows (intersperse s ss)) (as_rowss l)
      | _, _ => None
      end
  | EColumnize e' ic =>
      match get_blocks (eval iw args e') with
      | Some bs => option_map (fun rs => VList (map IRows rs)) (columnize iw ic bs)
      | None => None
      end
  | EStripComments e' => option_map (fun r => vrows (strip_comment_lines r)) (get_rows (eval iw args e'))
  | EPrependFirst r b =>
      match get_rows (eval iw args r), get_blocks (eval iw args b) with
      | Some rs, Some (b0 :: rest) =>
          Some (vblocks (mkBlock (rs ++ bprefix b0) (bheader b0) (bbody b0) :: rest))
      | _, _ => None
      end
  | EIf c a b => match ceval args c with
                 | Some true => eval iw args a
                 | Some false => eval iw args b
                 | None => None
                 end
  | EAssert c e' => match ceval args c with
                    | Some true => eval iw args e'
                    | _ => None
                    end
  | EIndentBlanks e' => option_map (fun r => vrows (indent_blanks_and_comments r)) (get_rows (eval iw args e'))
  | EDedentBlanks e' => option_map (fun r => vrows (add_blank_rows_on_dedent r)) (get_rows (eval iw args e'))
  | ERender e' => match get_rows (eval iw args e') with
                  | Some rs => option_map VStr (render_rows iw rs)
                  | None => None
                  end
  end.

(* ---------- parse trees and the bottom-up walk (parser_util.transform_parse_tree) ---------- *)
Inductive tree := Leaf (sy tx : str) | Node (prod : nat) (children : list tree).

(* one production of the regenerated table: lhs, rhs, the handler registered for it *)
Record handler := mkHandler { hlhs : str; hrhs : list str; hexpr : expr }.

Fixpoint format (iw : nat) (tbl : list handler) (t : tree) : option value :=
  match t with
  | Leaf sy tx => Some (VStr [GTok sy tx])          (* token_handler = lambda n: n.text *)
  | Node p cs =>
      match nth_error tbl p with
      | None => None
      | Some h =>
          let fix go (cs : list tree) : option (list value) :=
            match cs with
            | [] => Some []
            | c :: cs' => match format iw tbl c, go cs' with
                          | Some v, Some vs => Some (v :: vs)
                          | _, _ => None
                          end
            end in
          match go cs with
          | Some vs => if length vs =? length (hrhs h) then eval iw vs (hexpr h) else None
          | None => None
          end
      end
  end.

(* format_emboss_parse_tree(tree, Config(indent_width = iw)) as a plain string *)
Definition format_text (iw : nat) (tbl : list handler) (t : tree) : option str :=
  match format iw tbl t with
  | Some (VStr g) => Some (flat g)
  | _ => None
  end.

(* ---------- the token content of strings, values and trees ---------- *)
Definition blank (s : str) : bool := forallb ws s.
(* (symbol, text.strip()) of the token pieces whose text is not white space only *)
Definition ptoks (p : piece) : list (str * str) :=
  match p with
  | GTok sy tx => if blank tx then [] else [(sy, strip_ tx)]
  | GLit _ => []
  end.
Definition gtoks (g : gstr) : list (str * str) := flat_map ptoks g.
Definition rtoks (r : row) : list (str * str) := flat_map gtoks (rcols r).
Definition rstoks (l : list row) : list (str * str) := flat_map rtoks l.
Definition btoks (b : block) : list (str * str) := rstoks (bprefix b) ++ rtoks (bheader b) ++ rstoks (bbody b).
Definition bstoks (l : list block) : list (str * str) := flat_map btoks l.
Definition itoks (i : item) : list (str * str) :=
  match i with
  | IStr s => gtoks s
  | IRow r => rtoks r
  | IBlock b => btoks b
  | IRows l => rstoks l
  end.
Definition vtoks (v : value) : list (str * str) :=
  match v with
  | VStr s => gtoks s
  | VRow r => rtoks r
  | VBlock b => btoks b
  | VList l => flat_map itoks l
  | VBody h b => rstoks h ++ bstoks b
  end.

(* ---------- token content of a parse tree ---------- *)
Definition sym_indent : str := [73;110;100;101;110;116]%N.          (* Indent *)
Definition sym_dedent : str := [68;101;100;101;110;116]%N.          (* Dedent *)
Definition sym_newline : str := [34;92;110;34]%N.                   (* "\n" (4 characters) *)
(* the right-hand-side symbols whose value a handler may ignore (`del indent, dedent`, `del eol`) *)
Definition droppable (sy : str) : bool := seqb sy sym_indent || seqb sy sym_dedent || seqb sy sym_newline.

Definition kept_toks (f : tree -> list (str * str)) : list str -> list tree -> list (str * str) :=
  fix go (rhs : list str) (cs : list tree) {struct cs} : list (str * str) :=
    match cs with
    | [] => []
    | c :: cs' => match rhs with
                  | [] => []
                  | s :: rhs' => (if droppable s then [] else f c) ++ go rhs' cs'
                  end
    end.

(* (symbol, text.strip()) of the leaves, left to right, without white-space-only tokens and without the
   children that stand at an Indent / Dedent / "\n" position of their production *)
Fixpoint tree_toks (tbl : list handler) (t : tree) : list (str * str) :=
  match t with
  | Leaf sy tx => ptoks (GTok sy tx)
  | Node p cs => match nth_error tbl p with
                 | Some h => kept_toks (tree_toks tbl) (hrhs h) cs
                 | None => []
                 end
  end.

(* the same for trees whose shape follows the table: leaves filtered by their own symbol *)
Fixpoint leaf_toks (t : tree) : list (str * str) :=
  match t with
  | Leaf sy tx => if droppable sy then [] else ptoks (GTok sy tx)
  | Node _ cs => flat_map leaf_toks cs
  end.

Definition root_sym (tbl : list handler) (t : tree) : option str :=
  match t with
  | Leaf sy _ => Some sy
  | Node p _ => option_map hlhs (nth_error tbl p)
  end.

(* a tree built from the productions of the table: every node names a production and its children derive
   the symbols of the right-hand side; a droppable symbol is a terminal (only leaves carry it) *)
Fixpoint tree_wf (tbl : list handler) (t : tree) : Prop :=
  match t with
  | Leaf _ _ => True
  | Node p cs =>
      match nth_error tbl p with
      | Some h => map (root_sym tbl) cs = map Some (hrhs h) /\
                  (fix all (cs : list tree) : Prop := match cs with [] => True | c :: cs' => tree_wf tbl c /\ all cs' end) cs
      | None => False
      end
  end.
Definition droppable_terminal (tbl : list handler) : bool :=
  forallb (fun h => negb (droppable (hlhs h))) tbl.

(* ---------- static check of a handler: which arguments' tokens appear in the result, in which order ---------- *)
Inductive part := PWhole | PFst | PSnd.
Definition atom := (nat * part)%type.
Definition part_eqb (a b : part) : bool :=
  match a, b with PWhole, PWhole | PFst, PFst | PSnd, PSnd => true | _, _ => false end.
Definition atom_eqb (a b : atom) : bool := (fst a =? fst b) && part_eqb (snd a) (snd b).
Fixpoint atoms_eqb (a b : list atom) : bool :=
  match a, b with
  | [], [] => true
  | x :: a', y :: b' => atom_eqb x y && atoms_eqb a' b'
  | _, _ => false
  end.
Definition without_arg (i : nat) (l : list atom) : list atom := filter (fun a => negb (fst a =? i)) l.
Definition is_nil_atoms (l : list atom) : bool := match l with [] => true | _ => false end.

Fixpoint insert_arg (i : nat) (l : list atom) : list atom :=
  match l with
  | [] => [(i, PWhole)]
  | a :: r => if i <? fst a then (i, PWhole) :: l else a :: insert_arg i r
  end.

Definition o_app (a b : option (list atom)) : option (list atom) :=
  match a, b with Some x, Some y => Some (x ++ y) | _, _ => None end.

Fixpoint etoks (n : nat) (e : expr) : option (list atom) :=
  match e with
  | EArg i => Some [(i, PWhole)]
  | EArgs => Some (map (fun i => (i, PWhole)) (seq 0 n))
  | ELit _ | ENil => Some []
  | ECons a b | EAdd a b | EBodyMk a b | EPrependFirst a b => o_app (etoks n a) (etoks n b)
  | EJoin _ l | EFilterTruthy l | EMapPrefix _ l | ERstrip l | ERow _ l | EIndentRows l | EIndentBlocks l
  | EColumnize l _ | EStripComments l | EIndentBlanks l | EDedentBlanks l | ERender l => etoks n l
  | EFst i | EBodyHdr i => Some [(i, PFst)]
  | ESnd i | EBodyBlocks i => Some [(i, PSnd)]
  | EBlock p h b => o_app (etoks n p) (o_app (etoks n h) (etoks n b))
  | EAssert c l =>
      (* under `assert not arg` the argument is empty: it carries no token and may be ignored *)
      match c with
      | CNot (CTruthy i) => option_map (insert_arg i) (etoks n l)
      | _ => etoks n l
      end
  | EIntersperse sep secs =>
      match etoks n sep with
      | Some s => if is_nil_atoms s then etoks n secs else None
      | None => None
      end
  | EIf c a b =>
      match etoks n a, etoks n b with
      | Some x, Some y =>
          if atoms_eqb x y then Some x
          else match c with
               | CTruthy i => if atoms_eqb (without_arg i x) y then Some x else None
               | _ => None
               end
      | _, _ => None
      end
  end.

(* arg[0] followed by arg[1] (header_lines followed by field_blocks) is the whole argument *)
Definition is_fst (a : atom) : bool := match snd a with PFst => true | _ => false end.
Definition is_snd (a : atom) : bool := match snd a with PSnd => true | _ => false end.
Fixpoint normalise (l : list atom) : list atom :=
  match l with
  | [] => []
  | a :: r =>
      match r with
      | b :: r' => if is_fst a && is_snd b && (fst a =? fst b) then (fst a, PWhole) :: normalise r'
                   else a :: normalise r
      | [] => [a]
      end
  end.

Fixpoint expected_from (i : nat) (rhs : list str) : list atom :=
  match rhs with
  | [] => []
  | s :: rhs' => if droppable s then expected_from (S i) rhs' else (i, PWhole) :: expected_from (S i) rhs'
  end.

(* the handler uses the tokens of every argument exactly once, in order, except Indent / Dedent / "\n" *)
Definition handler_toks_ok (h : handler) : bool :=
  match etoks (length (hrhs h)) (hexpr h) with
  | Some l => atoms_eqb (normalise l) (expected_from 0 (hrhs h))
  | None => false
  end.
Definition table_toks_ok (tbl : list handler) : bool := forallb handler_toks_ok tbl.

Definition vfst (v : value) : list (str * str) :=
  match v with
  | VList [IStr a; IStr _] => gtoks a
  | VBody h _ => rstoks h
  | _ => vtoks v
  end.
Definition vsnd (v : value) : list (str * str) :=
  match v with
  | VList [IStr _; IStr b] => gtoks b
  | VBody _ b => bstoks b
  | _ => []
  end.
Definition atoks (args : list value) (a : atom) : list (str * str) :=
  match nth_error args (fst a) with
  | None => []
  | Some v => match snd a with PWhole => vtoks v | PFst => vfst v | PSnd => vsnd v end
  end.
Definition astoks (args : list value) (l : list atom) : list (str * str) := flat_map (atoks args) l.

End WithWs.

(* ---------- the string fragment of the DSL (handlers of expressions, types, names, attributes): a static
   check under which a handler applied to strings returns a string and cannot fail ---------- *)
Inductive skind := KStr | KStrs.
Definition skind_eqb (a b : skind) : bool := match a, b with KStr, KStr | KStrs, KStrs => true | _, _ => false end.

Fixpoint scond (n : nat) (c : cond) : bool :=
  match c with
  | CTruthy i | CStrEq i _ | CStartsWith i _ => i <? n
  | CNot c' => scond n c'
  | CAnd a b => scond n a && scond n b
  | CShouldBlank _ => false
  end.

Fixpoint sty (n : nat) (e : expr) : option skind :=
  match e with
  | EArg i => if i <? n then Some KStr else None
  | EArgs | ENil => Some KStrs
  | ELit _ => Some KStr
  | ECons a l => match sty n a, sty n l with Some KStr, Some KStrs => Some KStrs | _, _ => None end
  | EAdd a b => match sty n a, sty n b with
                | Some KStr, Some KStr => Some KStr
                | Some KStrs, Some KStrs => Some KStrs
                | _, _ => None
                end
  | EJoin _ l => match sty n l with Some KStrs => Some KStr | _ => None end
  | EFilterTruthy l | EMapPrefix _ l => match sty n l with Some KStrs => Some KStrs | _ => None end
  | ERstrip e' => match sty n e' with Some KStr => Some KStr | _ => None end
  | EIf c a b => if scond n c then
                   match sty n a, sty n b with
                   | Some x, Some y => if skind_eqb x y then Some x else None
                   | _, _ => None
                   end
                 else None
  | _ => None
  end.

Definition str_handler (h : handler) : bool :=
  match sty (length (hrhs h)) (hexpr h) with Some KStr => true | _ => false end.

(* a tree all of whose nodes use string-fragment handlers with the right number of children *)
Fixpoint str_tree (tbl : list handler) (t : tree) : bool :=
  match t with
  | Leaf _ _ => true
  | Node p cs => match nth_error tbl p with
                 | Some h => str_handler h && (length cs =? length (hrhs h)) && forallb (str_tree tbl) cs
                 | None => false
                 end
  end.
