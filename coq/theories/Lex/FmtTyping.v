(* C11, handler level (definitions only): a refinement typing of the values the handlers of
   format_emb.py return, decidable per production, under which the formatter cannot fail.

   * [vty]: str / empty list / list of k strings (field-location = 2) / one row (with its name and
     whether it has at most one column) / one block (with the name of its header row) / list of rows
     with at most one column each (what _render_row_to_text asserts) / list of blocks whose prefix and
     body rows have at most one column and whose header names lie in a given set (what the
     `assert len(row_types) < 3` of _columnize needs), possibly known to be non-empty (what
     `assert indented_body` in _conditional_field needs) / list of lists of rows / _InlineBitsBodyType.
   * [ety]: type inference for the handler DSL from the types of the arguments.
   * [infer]: the type of every grammar symbol, computed by iteration over the regenerated table;
     [table_typed_ok]: every handler, applied to arguments of the types of its right-hand side,
     has a type below the type of its left-hand side.  Evaluated by vm_compute on the regenerated table.
   * `assert` statements of handlers are NOT typing facts: [asserted] collects their conditions and
     [asserts_ok] is the syntactic tree condition under which they hold (the argument of an
     `assert not arg` is the empty alternative of an optional symbol).  *)
From Coq Require Import NArith List Bool Arith PeanoNat.
Import ListNotations.
Require Import EmbossV.Lex.Regex EmbossV.Lex.FmtModel.

Inductive vty :=
| TStr
| TNil
| TStrs (n : option nat)
| TRowV (name : str) (nar : bool)
| TBlockV (name : str)
| TRows
| TBlocks (ne : bool) (ks : list str)
| TRowss
| TBody (ks : list str).

(* ---------- the meaning of a type ---------- *)
Definition narrow (r : row) : bool := match rcols r with [] | [_] => true | _ => false end.
Definition narrows (l : list row) : bool := forallb narrow l.
Definition block_ok (ks : list str) (b : block) : bool :=
  narrows (bprefix b) && narrows (bbody b) && mem_str (rname (bheader b)) ks.
Definition is_nil {A : Type} (l : list A) : bool := match l with [] => true | _ => false end.

Definition has_ty (v : value) (t : vty) : bool :=
  match t, v with
  | TStr, VStr _ => true
  | TNil, VList [] => true
  | TStrs n, VList l => match as_strs l with
                        | Some ss => match n with None => true | Some k => length ss =? k end
                        | None => false
                        end
  | TRowV nm nar, VRow r => seqb (rname r) nm && implb nar (narrow r)
  | TBlockV nm, VBlock b => block_ok [nm] b
  | TRows, VList l => match as_rows l with Some rs => narrows rs | None => false end
  | TBlocks ne ks, VList l => match as_blocks l with
                              | Some bs => forallb (block_ok ks) bs && implb ne (negb (is_nil bs))
                              | None => false
                              end
  | TRowss, VList l => match as_rowss l with Some rss => forallb narrows rss | None => false end
  | TBody ks, VBody h b => narrows h && forallb (block_ok ks) b
  | _, _ => false
  end.

Fixpoint have_tys (vs : list value) (ts : list vty) : bool :=
  match vs, ts with
  | [], [] => true
  | v :: vs', t :: ts' => has_ty v t && have_tys vs' ts'
  | _, _ => false
  end.

(* ---------- sets of header names ---------- *)
Definition kadd (k : str) (ks : list str) : list str := if mem_str k ks then ks else k :: ks.
Fixpoint kunion (a b : list str) : list str :=
  match a with [] => b | k :: a' => kadd k (kunion a' b) end.
Definition ksubset (a b : list str) : bool := forallb (fun k => mem_str k b) a.

(* ---------- subtyping and join ---------- *)
Definition onat_eqb (a b : option nat) : bool :=
  match a, b with Some x, Some y => x =? y | None, None => true | _, _ => false end.

Definition sub (a b : vty) : bool :=
  match a, b with
  | TStr, TStr => true
  | TNil, (TNil | TRows | TRowss) => true
  | TNil, TStrs n => match n with None | Some 0 => true | _ => false end
  | TNil, TBlocks ne _ => negb ne
  | TStrs n, TStrs m => match m with None => true | _ => onat_eqb n m end
  | TRowV n1 a1, TRowV n2 a2 => seqb n1 n2 && implb a2 a1
  | TBlockV n1, TBlockV n2 => seqb n1 n2
  | TRows, TRows => true
  | TRowss, TRowss => true
  | TBlocks n1 k1, TBlocks n2 k2 => implb n2 n1 && ksubset k1 k2
  | TBody k1, TBody k2 => ksubset k1 k2
  | _, _ => false
  end.

Definition join (a b : vty) : option vty :=
  match a, b with
  | TStr, TStr => Some TStr
  | TNil, TNil => Some TNil
  | TNil, TStrs n | TStrs n, TNil => Some (TStrs (match n with Some 0 => Some 0 | _ => None end))
  | TStrs n, TStrs m => Some (TStrs (if onat_eqb n m then n else None))
  | TNil, TRows | TRows, TNil | TRows, TRows => Some TRows
  | TNil, TRowss | TRowss, TNil | TRowss, TRowss => Some TRowss
  | TNil, TBlocks _ ks | TBlocks _ ks, TNil => Some (TBlocks false ks)
  | TBlocks n1 k1, TBlocks n2 k2 => Some (TBlocks (n1 && n2) (kunion k1 k2))
  | TRowV n1 a1, TRowV n2 a2 => if seqb n1 n2 then Some (TRowV n1 (a1 && a2)) else None
  | TBlockV n1, TBlockV n2 => if seqb n1 n2 then Some (TBlockV n1) else None
  | TBody k1, TBody k2 => Some (TBody (kunion k1 k2))
  | _, _ => None
  end.

(* ---------- views of a type ---------- *)
Definition ty_rows (t : vty) : bool := match t with TNil | TRows => true | _ => false end.
Definition ty_rowss (t : vty) : bool := match t with TNil | TRowss => true | _ => false end.
Definition ty_strs (t : vty) : option (option nat) :=
  match t with TNil => Some (Some 0) | TStrs n => Some n | _ => None end.
Definition ty_blocks (t : vty) : option (bool * list str) :=
  match t with TNil => Some (false, []) | TBlocks ne ks => Some (ne, ks) | _ => None end.
Definition is_tstr (t : vty) : bool := match t with TStr => true | _ => false end.

(* what a value of the type becomes as an element of a list display (item_of) *)
Inductive ity := JStr | JRow | JBlock (k : str) | JRows.
Definition ty_item (t : vty) : option ity :=
  match t with
  | TStr => Some JStr
  | TRowV _ true => Some JRow
  | TBlockV k => Some (JBlock k)
  | TNil | TRows => Some JRows
  | _ => None
  end.

Definition oplus (a b : option nat) : option nat :=
  match a, b with Some x, Some y => Some (x + y) | _, _ => None end.

(* ---------- conditions: [cty] = ceval cannot fail ---------- *)
Fixpoint cty (ts : list vty) (c : cond) : bool :=
  match c with
  | CTruthy i | CStrEq i _ => match nth_error ts i with Some _ => true | None => false end
  | CStartsWith i _ => match nth_error ts i with Some TStr => true | _ => false end
  | CShouldBlank i => match nth_error ts i with
                      | Some t => match ty_blocks t with Some _ => true | None => false end
                      | None => false
                      end
  | CNot c' => cty ts c'
  | CAnd a b => cty ts a && cty ts b
  end.

(* ---------- type inference for the handler DSL ---------- *)
Definition is_tnil (t : vty) : bool := match t with TNil => true | _ => false end.
Definition ty_add (ta tb : vty) : option vty :=
  if is_tstr ta && is_tstr tb then Some TStr
  else if is_tnil ta && is_tnil tb then Some TNil
  else match ty_strs ta, ty_strs tb with
       | Some n, Some m => Some (TStrs (oplus n m))
       | _, _ =>
           if ty_rows ta && ty_rows tb then Some TRows
           else if ty_rowss ta && ty_rowss tb then Some TRowss
           else match ty_blocks ta, ty_blocks tb with
                | Some (n1, k1), Some (n2, k2) => Some (TBlocks (n1 || n2) (kunion k1 k2))
                | _, _ => None
                end
       end.

Definition ty_cons (ta tl : vty) : option vty :=
  match ty_item ta with
  | Some JStr => option_map (fun n => TStrs (option_map S n)) (ty_strs tl)
  | Some JRow => if ty_rows tl then Some TRows else None
  | Some (JBlock k) => match ty_blocks tl with
                       | Some (_, ks) => Some (TBlocks true (kadd k ks))
                       | None => None
                       end
  | Some JRows => if ty_rowss tl then Some TRowss else None
  | None => None
  end.

Definition obind {A B : Type} (a : option A) (f : A -> option B) : option B :=
  match a with Some x => f x | None => None end.

Fixpoint ety (ts : list vty) (e : expr) : option vty :=
  match e with
  | EArg i => nth_error ts i
  | EArgs => if forallb is_tstr ts then Some (TStrs (Some (length ts))) else None
  | ELit _ => Some TStr
  | ENil => Some TNil
  | ECons a l => obind (ety ts a) (fun ta => obind (ety ts l) (fun tl => ty_cons ta tl))
  | EAdd a b => obind (ety ts a) (fun ta => obind (ety ts b) (fun tb => ty_add ta tb))
  | EJoin _ l => obind (ety ts l) (fun tl => match ty_strs tl with Some _ => Some TStr | None => None end)
  | EFilterTruthy l => obind (ety ts l) (fun tl => match ty_strs tl with Some _ => Some (TStrs None) | None => None end)
  | EMapPrefix _ l => obind (ety ts l) (fun tl => match ty_strs tl with Some n => Some (TStrs n) | None => None end)
  | ERstrip e' => obind (ety ts e') (fun t => if is_tstr t then Some TStr else None)
  | EFst i | ESnd i => match nth_error ts i with Some (TStrs (Some 2)) => Some TStr | _ => None end
  | EBodyHdr i => match nth_error ts i with Some (TBody _) => Some TRows | _ => None end
  | EBodyBlocks i => match nth_error ts i with Some (TBody ks) => Some (TBlocks false ks) | _ => None end
  | EBodyMk h b => obind (ety ts h) (fun th => obind (ety ts b) (fun tb =>
                     if ty_rows th then match ty_blocks tb with Some (_, ks) => Some (TBody ks) | None => None end
                     else None))
  | ERow name cols => obind (ety ts cols) (fun tc =>
                        match ty_strs tc with
                        | Some (Some n) => Some (TRowV name (n <=? 1))
                        | Some None => Some (TRowV name false)
                        | None => None
                        end)
  | EBlock p h b => obind (ety ts p) (fun tp => obind (ety ts h) (fun th => obind (ety ts b) (fun tb =>
                      match th with
                      | TRowV name _ => if ty_rows tp && ty_rows tb then Some (TBlockV name) else None
                      | _ => None
                      end)))
  | EIndentRows e' | EStripComments e' | EIndentBlanks e' | EDedentBlanks e' =>
      obind (ety ts e') (fun t => if ty_rows t then Some TRows else None)
  | EIndentBlocks e' => obind (ety ts e') (fun t => match ty_blocks t with Some (ne, ks) => Some (TBlocks ne ks) | None => None end)
  | EIntersperse sep secs => obind (ety ts sep) (fun t1 => obind (ety ts secs) (fun t2 =>
                               if ty_rows t1 && ty_rowss t2 then Some TRows else None))
  | EColumnize e' _ => obind (ety ts e') (fun t => match ty_blocks t with
                                                   | Some (_, ks) => if length ks <? 3 then Some TRowss else None
                                                   | None => None
                                                   end)
  | EPrependFirst r b => obind (ety ts r) (fun tr => obind (ety ts b) (fun tb =>
                           match ty_blocks tb with
                           | Some (true, ks) => if ty_rows tr then Some (TBlocks true ks) else None
                           | _ => None
                           end))
  | EIf c a b => if cty ts c then
                   obind (ety ts a) (fun ta => obind (ety ts b) (fun tb => obind (join ta tb) (fun j =>
                     if sub ta j && sub tb j then Some j else None)))
                 else None
  | EAssert c e' => if cty ts c then ety ts e' else None
  | ERender e' => obind (ety ts e') (fun t => if ty_rows t then Some TStr else None)
  end.

(* the conditions of the assert statements of a handler *)
Fixpoint asserted (e : expr) : list cond :=
  match e with
  | EArg _ | EArgs | ELit _ | ENil | EFst _ | ESnd _ | EBodyHdr _ | EBodyBlocks _ => []
  | ECons a b | EAdd a b | EBodyMk a b | EIntersperse a b | EPrependFirst a b => asserted a ++ asserted b
  | EJoin _ l | EFilterTruthy l | EMapPrefix _ l | ERstrip l | ERow _ l | EIndentRows l | EIndentBlocks l
  | EColumnize l _ | EStripComments l | EIndentBlanks l | EDedentBlanks l | ERender l => asserted l
  | EBlock p h b => asserted p ++ asserted h ++ asserted b
  | EIf _ a b => asserted a ++ asserted b
  | EAssert c l => c :: asserted l
  end.

(* ---------- the types of the grammar symbols ---------- *)
Definition sigt := list (str * vty).
Fixpoint lookup (sg : sigt) (s : str) : option vty :=
  match sg with
  | [] => None
  | (k, t) :: sg' => if seqb k s then Some t else lookup sg' s
  end.
Fixpoint update (sg : sigt) (s : str) (t : vty) : sigt :=
  match sg with
  | [] => [(s, t)]
  | (k, u) :: sg' => if seqb k s then (k, t) :: sg' else (k, u) :: update sg' s t
  end.

(* a terminal = a symbol that is the left-hand side of no production; its value is the token text *)
Definition is_terminal (tbl : list handler) (s : str) : bool := forallb (fun h => negb (seqb (hlhs h) s)) tbl.
Definition sym_ty (tbl : list handler) (sg : sigt) (s : str) : option vty :=
  if is_terminal tbl s then Some TStr else lookup sg s.
Fixpoint syms_ty (tbl : list handler) (sg : sigt) (rhs : list str) : option (list vty) :=
  match rhs with
  | [] => Some []
  | s :: rhs' => match sym_ty tbl sg s, syms_ty tbl sg rhs' with
                 | Some t, Some ts => Some (t :: ts)
                 | _, _ => None
                 end
  end.

Definition handler_ty (tbl : list handler) (sg : sigt) (h : handler) : option vty :=
  obind (syms_ty tbl sg (hrhs h)) (fun ts => ety ts (hexpr h)).

Definition infer_step (tbl : list handler) (sg : sigt) (h : handler) : sigt :=
  match handler_ty tbl sg h with
  | Some t => match lookup sg (hlhs h) with
              | Some old => match join old t with Some j => update sg (hlhs h) j | None => sg end
              | None => update sg (hlhs h) t
              end
  | None => sg
  end.
Fixpoint infer_rounds (n : nat) (tbl : list handler) (sg : sigt) : sigt :=
  match n with
  | 0 => sg
  | S n' => infer_rounds n' tbl (fold_left (infer_step tbl) tbl sg)
  end.
Definition infer (tbl : list handler) : sigt := infer_rounds 16 tbl [].

Definition handler_typed (tbl : list handler) (sg : sigt) (h : handler) : bool :=
  match handler_ty tbl sg h, lookup sg (hlhs h) with
  | Some t, Some u => sub t u
  | _, _ => false
  end.
Definition sig_ok (tbl : list handler) (sg : sigt) : bool := forallb (handler_typed tbl sg) tbl.
Definition table_typed_ok (tbl : list handler) : bool := sig_ok tbl (infer tbl).

(* ---------- trees of the grammar ---------- *)
(* [tree_wf] plus: a leaf carries a terminal symbol (FmtModel.tree_wf lets a leaf stand for any symbol) *)
Fixpoint leaves_terminal (tbl : list handler) (t : tree) : bool :=
  match t with
  | Leaf sy _ => is_terminal tbl sy
  | Node _ cs => forallb (leaves_terminal tbl) cs
  end.
Definition tree_gwf (tbl : list handler) (t : tree) : Prop := tree_wf tbl t /\ leaves_terminal tbl t = true.

(* the tree condition for the assert statements: `assert not arg` holds when the child at that position
   is the empty alternative of its symbol (a node without children whose handler returns "") *)
Definition empty_node (tbl : list handler) (t : tree) : bool :=
  match t with
  | Node q [] => match nth_error tbl q with
                 | Some h => match hexpr h with ELit [] => true | _ => false end
                 | None => false
                 end
  | _ => false
  end.
Definition cond_ok (tbl : list handler) (cs : list tree) (c : cond) : bool :=
  match c with
  | CNot (CTruthy i) => match nth_error cs i with Some t => empty_node tbl t | None => false end
  | _ => false
  end.
Fixpoint asserts_ok (tbl : list handler) (t : tree) : bool :=
  match t with
  | Leaf _ _ => true
  | Node p cs => match nth_error tbl p with
                 | Some h => forallb (cond_ok tbl cs) (asserted (hexpr h)) && forallb (asserts_ok tbl) cs
                 | None => false
                 end
  end.

(* which handlers contain assert statements at all (reported by the harness) *)
Definition asserting_handlers (tbl : list handler) : list handler :=
  filter (fun h => negb (is_nil (asserted (hexpr h)))) tbl.

(* boolean version of FmtModel.tree_wf (evaluated by the harness on every parse tree of a run) *)
Definition ostr_eqb (a : option str) (b : str) : bool := match a with Some x => seqb x b | None => false end.
Fixpoint roots_match (tbl : list handler) (cs : list tree) (rhs : list str) : bool :=
  match cs, rhs with
  | [], [] => true
  | c :: cs', s :: rhs' => ostr_eqb (root_sym tbl c) s && roots_match tbl cs' rhs'
  | _, _ => false
  end.
Fixpoint tree_wfb (tbl : list handler) (t : tree) : bool :=
  match t with
  | Leaf _ _ => true
  | Node p cs => match nth_error tbl p with
                 | Some h => roots_match tbl cs (hrhs h) && forallb (tree_wfb tbl) cs
                 | None => false
                 end
  end.
Definition tree_gwfb (tbl : list handler) (t : tree) : bool := tree_wfb tbl t && leaves_terminal tbl t.
