(* C11, handler level (definitions only): the static checks from which the tree hypothesis [asserts_ok] of
   format_total is DERIVED for parse trees over token lists of the tokenizer model.

   The only non-typing assert of format_emb.py is `assert not comment` in the handler of
   doc-line -> doc Comment? eol.  It cannot fire because
     (token level)  every pattern of tokenizer.py that yields the symbol Documentation (`-- .*`, `--$`) consumes
                    the rest of its line, so in a token list of the tokenizer a Documentation token is immediately
                    followed by the "\n" token of its line                                   [sym_ends_line, followed_strict]
     (tree level)   in a tree of the grammar, the child in front of the asserted position derives a non-empty
                    string ENDING with Documentation, and the asserted child's symbol has only two kinds of
                    productions: the empty one (handler returns "") or one that STARTS with a terminal other
                    than "\n"; the second kind would put that terminal right after Documentation  [asserts_guarded]
   Both checks are decidable and evaluated by vm_compute on the regenerated tables. *)
From Coq Require Import NArith List Bool Arith PeanoNat.
Import ListNotations.
Require Import EmbossV.Lex.Regex EmbossV.Lex.Tokenizer EmbossV.Lex.FmtModel EmbossV.Lex.FmtTyping.

(* ---------- regular expressions that consume the rest of the line ---------- *)
(* the class matches every character except "\n" (the `.` of Python's re without DOTALL) *)
Definition all_but_nl (neg : bool) (rs : list (N * N)) : bool :=
  neg && forallb (fun r => (fst r =? 10)%N && (snd r =? 10)%N) rs.

(* syntactic, sufficient: whenever r matches a prefix of a line it also matches the whole line *)
Fixpoint ends_line (r : re) : bool :=
  match r with
  | Eol => true
  | Star (Chr neg rs) => all_but_nl neg rs
  | Cat _ b => ends_line b
  | Alt a b => ends_line a && ends_line b
  | _ => false
  end.

(* every pattern of the table that yields symbol d consumes the rest of the line (no literal yields d) *)
Definition sym_ends_line (T : table) (d : str) : bool :=
  forallb (fun l => negb (str_eqb (quote l) d)) (lits T) &&
  forallb (fun p => match snd p with
                    | Some s => if str_eqb s d then ends_line (fst p) else true
                    | None => true
                    end) (pats T).

(* ---------- symbol sequences in which d is immediately followed by n ---------- *)
(* strict: every d HAS a successor and it is n (what the tokenizer guarantees) *)
Fixpoint followed_strict (d n : str) (l : list str) : bool :=
  match l with
  | [] => true
  | a :: l' => (if seqb a d then match l' with b :: _ => seqb b n | [] => false end else true) && followed_strict d n l'
  end.
(* weak: a successor of d, if there is one, is n (closed under taking contiguous parts: what the tree induction needs) *)
Fixpoint followed (d n : str) (l : list str) : bool :=
  match l with
  | [] => true
  | a :: l' => (if seqb a d then match l' with b :: _ => seqb b n | [] => true end else true) && followed d n l'
  end.

(* the symbols of the leaves of a tree, left to right (ALL leaves: Indent, Dedent and "\n" included) *)
Fixpoint tree_syms (t : tree) : list str :=
  match t with
  | Leaf sy _ => [sy]
  | Node _ cs => flat_map tree_syms cs
  end.
(* ... and the leaves themselves *)
Fixpoint tree_leaves (t : tree) : list (str * str) :=
  match t with
  | Leaf sy tx => [(sy, tx)]
  | Node _ cs => flat_map tree_leaves cs
  end.

(* ---------- the static check on the handler table ---------- *)
Fixpoint last_opt {A : Type} (l : list A) : option A :=
  match l with
  | [] => None
  | [x] => Some x
  | _ :: l' => last_opt l'
  end.

(* every tree deriving s has a non-empty leaf sequence whose last leaf is the terminal d *)
Fixpoint ends_with (tbl : list handler) (fuel : nat) (d s : str) : bool :=
  if is_terminal tbl s then seqb s d
  else match fuel with
       | 0 => false
       | S f => forallb (fun h => if seqb (hlhs h) s
                                  then match last_opt (hrhs h) with
                                       | Some x => ends_with tbl f d x
                                       | None => false
                                       end
                                  else true) tbl
       end.

(* s is a nonterminal each of whose productions is either the empty alternative whose handler returns ""
   or starts with a terminal other than n *)
Definition opt_starts_not (tbl : list handler) (n s : str) : bool :=
  negb (is_terminal tbl s) &&
  forallb (fun h => if seqb (hlhs h) s
                    then match hrhs h with
                         | [] => match hexpr h with ELit [] => true | _ => false end
                         | x :: _ => is_terminal tbl x && negb (seqb x n)
                         end
                    else true) tbl.

Definition guard_fuel : nat := 8.

(* the assert `assert not arg_i` of handler h: i > 0, the symbol in front derives strings ending with d,
   the symbol at i is "empty or starts with a terminal other than n" *)
Definition assert_guarded (tbl : list handler) (d n : str) (h : handler) (c : cond) : bool :=
  match c with
  | CNot (CTruthy (S j)) =>
      match nth_error (hrhs h) j, nth_error (hrhs h) (S j) with
      | Some a, Some b => ends_with tbl guard_fuel d a && opt_starts_not tbl n b
      | _, _ => false
      end
  | _ => false
  end.

Definition asserts_guarded (tbl : list handler) (d n : str) : bool :=
  forallb (fun h => forallb (assert_guarded tbl d n h) (asserted (hexpr h))) tbl.
