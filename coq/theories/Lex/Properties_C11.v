(* C11 (token level, partial) — the criterion "same token sequence up to white space, blank lines and
   surrounding blanks in token texts" is an equivalence with a verified checker; the formatter's
   built-in self check is modelled and shown to decide exactly that criterion.
   The formatter's own handlers are NOT modelled: each run certifies the outputs it produced
   (translation validation with the verified criterion over the model tokenizer of C10). *)
From Coq Require Import NArith List Bool Arith.
Import ListNotations.
Require Import EmbossV.Lex.Regex EmbossV.Lex.Tokenizer EmbossV.Lex.Spec EmbossV.Lex.Format.
Require Import EmbossV.Lex.Proofs_Line EmbossV.Lex.Proofs_Examples EmbossV.Lex.Proofs_Format.

Theorem fmt_equivb_spec : forall T o f, fmt_equivb T o f = true <-> fmt_equiv T o f.
Proof. exact fmt_equivb_spec_proof. Qed.

Theorem fmt_equiv_refl : forall T a, fmt_equiv T a a.
Proof. exact fmt_equiv_refl_proof. Qed.

Theorem fmt_equiv_sym : forall T a b, fmt_equiv T a b -> fmt_equiv T b a.
Proof. exact fmt_equiv_sym_proof. Qed.

Theorem fmt_equiv_trans : forall T a b c, fmt_equiv T a b -> fmt_equiv T b c -> fmt_equiv T a c.
Proof. exact fmt_equiv_trans_proof. Qed.

(* equivalent token lists feed the parser the same symbols (newline runs collapsed) *)
Theorem symbols_preserved : forall T o f, fmt_equiv T o f -> map sym (collapse o) = map sym (collapse f).
Proof. exact symbols_preserved_proof. Qed.

Theorem collapse_no_leading_newline : forall ts t rest, collapse ts = t :: rest -> is_newline t = false.
Proof. exact collapse_no_leading_newline_proof. Qed.

(* sanity_check_format_result (as of fix 7fc177c) reports nothing EXACTLY when the criterion holds *)
Theorem sanity_ok_iff : forall T o f, sanity_tokens T o f = ScOk <-> fmt_equiv T o f.
Proof. exact sanity_ok_iff_proof. Qed.

Theorem sanity_complete : forall T o f, fmt_equiv T o f -> sanity_tokens T o f = ScOk.
Proof. exact sanity_complete_proof. Qed.

Theorem sanity_sound : forall T o f, sanity_tokens T o f = ScOk -> fmt_equiv T o f.
Proof. exact sanity_sound_proof. Qed.

(* its two error reports mean what they say *)
Theorem sanity_bug_position : forall T o f i,
  sanity_tokens T o f = ScBug i ->
  exists a b, nth_error (collapse o) i = Some a /\ nth_error (collapse f) i = Some b /\ ~ tok_equiv T a b /\
              Forall2 (tok_equiv T) (firstn i (collapse o)) (firstn i (collapse f)).
Proof. exact sanity_bug_proof. Qed.

Theorem sanity_count_differs : forall T o f a b,
  sanity_tokens T o f = ScCount a b ->
  a = length (collapse o) /\ b = length (collapse f) /\ a <> b /\
  Forall2 (tok_equiv T) (firstn (min a b) (collapse o)) (firstn (min a b) (collapse f)).
Proof. exact sanity_count_proof. Qed.

Example sanity_text_example :
  sanity_check toy_table [97; 10; 98; 10]%N [97; 10]%N = SanRes (ScCount 2 4) /\
  fmt_check toy_table [97; 10]%N [97; 10; 98; 10]%N = FvDiffer /\
  sanity_check toy_table [97; 10]%N [97; 10; 98; 10]%N = SanRes (ScCount 4 2) /\
  sanity_check toy_table [97; 32; 10; 10]%N [97; 10]%N = SanRes ScOk.
Proof. exact sanity_text_example_proof. Qed.

(* re-tokenisation, partial: a line re-tokenises to a given token list iff the local longest-first
   conditions of [line_toks] hold at every token and gap (the per-pattern "no two tokens fuse" facts
   are discharged by computation per formatted output, not proved for all outputs) *)
Theorem retokenize_line_partial : forall T ln L ts,
  line_toks T ln 0 L ts <-> tokenize_line T ln L = LOk ts.
Proof. exact retokenize_line_proof. Qed.
