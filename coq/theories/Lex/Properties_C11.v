(* C11 -- token level: the criterion "same token sequence up to white space, blank lines and surrounding
   blanks in token texts" is an equivalence with a verified checker; the formatter's built-in self check
   is modelled and shown to decide exactly that criterion.
   Handler level (second half of this file): an executable model of format_emb.py on the regenerated
   handler table -- token preservation for all trees, NEVER FAILS (format_total), idempotence and
   re-tokenization results (partial; what is missing is stated at each theorem). *)
From Coq Require Import NArith List Bool Arith.
Import ListNotations.
Require Import EmbossV.Lex.Regex EmbossV.Lex.Tokenizer EmbossV.Lex.Spec EmbossV.Lex.Format.
Require Import EmbossV.Lex.Proofs_Line EmbossV.Lex.Proofs_Examples EmbossV.Lex.Proofs_Format.
Require Import EmbossV.Lex.FmtModel EmbossV.Lex.FmtProofs.
Require Import EmbossV.Lex.FmtTyping EmbossV.Lex.FmtProofsTotal.
Require Import EmbossV.Lex.FmtShow EmbossV.Lex.FmtProofsIdem EmbossV.Lex.FmtRetok EmbossV.Lex.FmtProofsRetok.
Require Import EmbossV.Lex.FmtAsserts EmbossV.Lex.FmtProofsAsserts EmbossV.Lex.FmtProofsIdem2.

Theorem fmt_equivb_spec : forall T o f, fmt_equivb T o f = true <-> fmt_equiv T o f.
Proof. exact fmt_equivb_spec_proof. Qed.

Theorem fmt_equiv_refl : forall T a, fmt_equiv T a a.
Proof. exact fmt_equiv_refl_proof. Qed.

Theorem fmt_equiv_sym : forall T a b, fmt_equiv T a b -> fmt_equiv T b a.
Proof. exact fmt_equiv_sym_proof. Qed.

Theorem fmt_equiv_trans : forall T a b c, fmt_equiv T a b -> fmt_equiv T b c -> fmt_equiv T a c.
Proof. exact fmt_equiv_trans_proof. Qed.

(* equivalent token lists feed the parser the same symbols (newline runs collapsed) *)
Theorem symbols_preserved : forall T o f, fmt_equiv T o f -> map sym (collapse o) = map sym (collapse f).
Proof. exact symbols_preserved_proof. Qed.

Theorem collapse_no_leading_newline : forall ts t rest, collapse ts = t :: rest -> is_newline t = false.
Proof. exact collapse_no_leading_newline_proof. Qed.

(* sanity_check_format_result (as of fix 7fc177c) reports nothing EXACTLY when the criterion holds *)
Theorem sanity_ok_iff : forall T o f, sanity_tokens T o f = ScOk <-> fmt_equiv T o f.
Proof. exact sanity_ok_iff_proof. Qed.

Theorem sanity_complete : forall T o f, fmt_equiv T o f -> sanity_tokens T o f = ScOk.
Proof. exact sanity_complete_proof. Qed.

Theorem sanity_sound : forall T o f, sanity_tokens T o f = ScOk -> fmt_equiv T o f.
Proof. exact sanity_sound_proof. Qed.

(* its two error reports mean what they say *)
Theorem sanity_bug_position : forall T o f i,
  sanity_tokens T o f = ScBug i ->
  exists a b, nth_error (collapse o) i = Some a /\ nth_error (collapse f) i = Some b /\ ~ tok_equiv T a b /\
              Forall2 (tok_equiv T) (firstn i (collapse o)) (firstn i (collapse f)).
Proof. exact sanity_bug_proof. Qed.

Theorem sanity_count_differs : forall T o f a b,
  sanity_tokens T o f = ScCount a b ->
  a = length (collapse o) /\ b = length (collapse f) /\ a <> b /\
  Forall2 (tok_equiv T) (firstn (min a b) (collapse o)) (firstn (min a b) (collapse f)).
Proof. exact sanity_count_proof. Qed.

Example sanity_text_example :
  sanity_check toy_table [97; 10; 98; 10]%N [97; 10]%N = SanRes (ScCount 2 4) /\
  fmt_check toy_table [97; 10]%N [97; 10; 98; 10]%N = FvDiffer /\
  sanity_check toy_table [97; 10]%N [97; 10; 98; 10]%N = SanRes (ScCount 4 2) /\
  sanity_check toy_table [97; 32; 10; 10]%N [97; 10]%N = SanRes ScOk.
Proof. exact sanity_text_example_proof. Qed.

(* re-tokenisation, partial: a line re-tokenises to a given token list iff the local longest-first
   conditions of [line_toks] hold at every token and gap (the per-pattern "no two tokens fuse" facts
   are discharged by computation per formatted output, not proved for all outputs) *)
Theorem retokenize_line_partial : forall T ln L ts,
  line_toks T ln 0 L ts <-> tokenize_line T ln L = LOk ts.
Proof. exact retokenize_line_proof. Qed.

(* ------------------------------------------------------------------------------------------------
   Handler level (Lex/FmtModel.v): an executable model of format_emb.py whose table production ->
   handler is regenerated from the source on every run (harness/fmt_x.py) and whose output is compared
   with format_emboss_parse_tree character for character.  [ws] is Python's str.isspace, [iw] the
   indent width, [tbl] the handler table; the instance theorems on the regenerated table are in the
   generated file FmtHInstance_C11.v (inst_table_toks_ok: by computation over the production list).
   ------------------------------------------------------------------------------------------------ *)

(* one handler: the tokens of its result are the tokens of its arguments as listed by the static
   analysis [etoks] (each DSL construct and each shared combinator -- _columnize, _intersperse, comment
   stripping, blank-line insertion, rendering, rstrip -- neither drops, duplicates nor reorders tokens) *)
Theorem eval_preserves_tokens : forall ws iw args e v l,
  eval ws iw args e = Some v -> etoks (length args) e = Some l -> vtoks ws v = astoks ws args l.
Proof. exact eval_toks. Qed.

(* ALL parse trees, no size bound: if every handler of the table passes the static check, the
   (symbol, stripped text) sequence of the tokens in the formatter's result is that of the tree *)
Theorem format_preserves_tokens : forall ws iw tbl, table_toks_ok tbl = true ->
  forall t v, format ws iw tbl t = Some v -> vtoks ws v = tree_toks ws tbl t.
Proof. exact format_toks. Qed.

(* the rendered TEXT is a concatenation of pieces whose token pieces, in order, are the tree's tokens *)
Theorem format_text_preserves_tokens : forall ws iw tbl, table_toks_ok tbl = true ->
  forall t s, format_text ws iw tbl t = Some s ->
  exists g, format ws iw tbl t = Some (VStr g) /\ flat g = s /\ gtoks ws g = tree_toks ws tbl t.
Proof. exact format_text_toks. Qed.

(* for trees built from the table's productions [tree_toks] is simply the list of leaves, left to
   right, without Indent / Dedent / "\n" and white-space-only tokens *)
Theorem format_preserves_leaves : forall ws iw tbl, table_toks_ok tbl = true -> droppable_terminal tbl = true ->
  forall t v, tree_wf tbl t -> (forall s, root_sym tbl t = Some s -> droppable s = false) ->
  format ws iw tbl t = Some v -> vtoks ws v = leaf_toks ws t.
Proof.
  exact (fun ws iw tbl H1 H2 t v Hw Hr Hf =>
           eq_trans (format_toks ws iw tbl H1 t v Hf) (tree_toks_leaves ws tbl H2 t Hw Hr)).
Qed.

(* ------------------------------------------------------------------------------------------------
   NEVER FAILS (Lex/FmtTyping.v).  [table_typed_ok tbl] is a decidable static check, evaluated by
   vm_compute on the regenerated table (FmtHInstance_C11.inst_table_typed_ok): the type of every grammar
   symbol is inferred by iteration ([infer]) and every handler, applied to arguments of the types of
   its right-hand side, has a type below the type of its left-hand side.  The types are refinements:
   str / list of exactly k str (field-location: 2, what arg[0], arg[1] need) / rows with AT MOST ONE
   COLUMN (the assert of _render_row_to_text) / blocks whose header-row names lie in a set of at most
   two names (the `assert len(row_types) < 3` of _columnize) and which are known to be NON-EMPTY where
   _conditional_field asserts it / lists of lists of rows / _InlineBitsBodyType.
   Asserts of the Python code, one by one:
     - _render_row_to_text `len(row.columns) < 2`            typing fact (TRows: every row narrow)
     - _columnize `len(row_types) < 3`                        typing fact (TBlocks _ ks with |ks| < 3)
     - _conditional_field `assert indented_body`              typing fact (TBlocks true _)
     - _indent_row `isinstance(row, _Row)`, arg[0]/arg[1], .header_lines, str + str, "".join  typing facts
     - _Block.__new__ `assert header`                         a _Row (3-field namedtuple) is always truthy
     - _doc_line `assert not comment`                         NOT a typing fact: the grammar has
         doc-line -> doc Comment? eol.  It is the tree hypothesis [asserts_ok]: at every node whose handler
         contains `assert not arg_i`, child i is the EMPTY alternative of its symbol (a node without
         children whose handler returns "").  The real front end guarantees it by a TOKENIZER fact: the
         Documentation patterns `-- .*` / `--$` extend to the end of the line, so no Comment token can
         follow a Documentation token on its line, and the parser then has to reduce Comment? -> (empty).
         This is now DERIVED (section "asserts_ok derived" below: asserts_ok_derived, format_total_tokenized);
         the harness still evaluates tree_gwfb && asserts_ok on every parse tree of every run.
   [tree_gwf] = FmtModel.tree_wf (every node names a production whose right-hand side its children
   derive) + every leaf carries a terminal symbol.
   ------------------------------------------------------------------------------------------------ *)

(* one handler: if the arguments have the types of the right-hand side and the asserted conditions hold,
   evaluation cannot fail and the result has the inferred type (one lemma per DSL construct/combinator) *)
Theorem eval_total_typed : forall ws iw args ts, have_tys args ts = true ->
  forall e t, ety ts e = Some t -> Forall (fun c => ceval args c = Some true) (asserted e) ->
  exists v, eval ws iw args e = Some v /\ has_ty v t = true.
Proof. exact ety_sound. Qed.

(* the formatter NEVER FAILS on a tree of the grammar (no size bound, every indent width) *)
Theorem format_total : forall ws iw tbl, table_typed_ok tbl = true ->
  forall t, tree_gwf tbl t -> asserts_ok tbl t = true -> exists v, format ws iw tbl t = Some v.
Proof. exact format_total_proof. Qed.

(* ... and returns a string (the formatted text) when the root symbol has type str (`module` has) *)
Theorem format_text_total : forall ws iw tbl, table_typed_ok tbl = true ->
  forall t s, tree_gwf tbl t -> asserts_ok tbl t = true ->
  root_sym tbl t = Some s -> sym_ty tbl (infer tbl) s = Some TStr ->
  exists txt, format_text ws iw tbl t = Some txt.
Proof. exact format_text_total_proof. Qed.

(* the same with any symbol typing that passes the check, and with the type of the result *)
Theorem format_total_typed : forall ws iw tbl sg, sig_ok tbl sg = true ->
  forall t, tree_gwf tbl t -> asserts_ok tbl t = true ->
  exists v, format ws iw tbl t = Some v /\
            forall s, root_sym tbl t = Some s -> exists ty, sym_ty tbl sg s = Some ty /\ has_ty v ty = true.
Proof. exact format_total_sig_proof. Qed.

(* ------------------------------------------------------------------------------------------------
   asserts_ok DERIVED (Lex/FmtAsserts.v).  Two decidable static checks, evaluated by vm_compute on the
   regenerated tables (FmtHInstance_C11.inst_doc_ends_line, inst_asserts_guarded):
     [sym_ends_line T d]      every pattern of the tokenizer's table that yields symbol d passes [ends_line]
                              (it ends in `$` or in `.*`), no literal yields d;
     [asserts_guarded tbl d n] every assert of a handler is `assert not arg_i` with i > 0, the symbol in front of
                              position i derives only strings ENDING with the terminal d, and every production of
                              the symbol at i is the empty alternative (handler returns "") or STARTS with a
                              terminal other than n.
   With d = Documentation, n = "\n": the token after a Documentation token is the newline token of its line
   (tokenize_doc_then_newline: ALL texts), so in a tree of the grammar over such tokens the Comment? after doc can
   only be the empty alternative.  What is left of the hypotheses of format_total is "t is a tree of the grammar
   whose leaves are the tokens" (the parser's contract, C08/C09; evaluated per tree: tree_gwfb, leaves = tokens).
   ------------------------------------------------------------------------------------------------ *)

(* a regex that passes the syntactic check matches, when it matches at all, up to the end of a "\n"-free line *)
Theorem ends_line_swallows_line : forall r s n, ends_line r = true -> Forall (fun c => c <> 10%N) s ->
  longest r s = Some n -> n = length s.
Proof. exact longest_ends_line. Qed.

(* TOKEN LEVEL, all texts: in the tokenizer model's output every token with such a symbol is immediately followed
   by the newline token (in particular no Comment token follows a Documentation token) *)
Theorem tokenize_doc_then_newline : forall T d s ts, sym_ends_line T d = true -> reserved d = false ->
  tokenize T s = Toks ts -> followed_strict d newline_sym (map sym ts) = true.
Proof. exact tokenize_sym_then_newline_proof. Qed.

(* TREE LEVEL, all trees of the grammar: if a successor of d among the leaves is always n, no assert can fire *)
Theorem asserts_ok_from_token_fact : forall tbl d n, asserts_guarded tbl d n = true ->
  forall t, tree_gwf tbl t -> followed d n (tree_syms t) = true -> asserts_ok tbl t = true.
Proof. exact (fun tbl d n Hg t Hw => asserts_ok_followed_proof tbl d n Hg t (proj1 Hw) (proj2 Hw)). Qed.

(* the two together: asserts_ok holds for every tree of the grammar whose leaves are the tokens of a text *)
Theorem asserts_ok_derived : forall T tbl d s ts t,
  sym_ends_line T d = true -> reserved d = false -> asserts_guarded tbl d newline_sym = true ->
  tokenize T s = Toks ts -> tree_gwf tbl t -> tree_syms t = map sym ts ->
  asserts_ok tbl t = true.
Proof. exact asserts_ok_tokenized_proof. Qed.

(* NEVER FAILS without the assert hypothesis: every parse tree (tree of the grammar whose leaves are the tokens the
   tokenizer model produces for some text) is formatted, at every indent width *)
Theorem format_total_tokenized : forall ws iw T tbl d,
  table_typed_ok tbl = true -> asserts_guarded tbl d newline_sym = true ->
  sym_ends_line T d = true -> reserved d = false ->
  forall s ts t, tokenize T s = Toks ts -> tree_gwf tbl t -> tree_syms t = map sym ts ->
  exists v, format ws iw tbl t = Some v.
Proof. exact format_total_tokenized_proof. Qed.

Theorem format_text_total_tokenized : forall ws iw T tbl d,
  table_typed_ok tbl = true -> asserts_guarded tbl d newline_sym = true ->
  sym_ends_line T d = true -> reserved d = false ->
  forall s ts t r, tokenize T s = Toks ts -> tree_gwf tbl t -> tree_syms t = map sym ts ->
  root_sym tbl t = Some r -> sym_ty tbl (infer tbl) r = Some TStr ->
  exists txt, format_text ws iw tbl t = Some txt.
Proof. exact format_text_total_tokenized_proof. Qed.

(* the hypotheses are satisfiable: a toy lexer (D.* -> Doc, C -> Com) and the doc-line shaped grammar *)
Example toy_doc_example :
  sym_ends_line toy_lex [68]%N = true /\ reserved [68]%N = false /\
  asserts_guarded toy_doc_table [68]%N newline_sym = true /\
  (exists ts, tokenize toy_lex [68; 32; 67]%N = Toks ts /\ tree_syms toy_doc_tree = map sym ts) /\
  tree_gwf toy_doc_table toy_doc_tree /\ asserts_ok toy_doc_table toy_doc_tree = true.
Proof. exact toy_doc_example_proof. Qed.

(* the boolean the harness evaluates on real parse trees implies the well-formedness hypothesis *)
Theorem tree_gwfb_sound : forall tbl t, tree_gwfb tbl t = true -> tree_gwf tbl t.
Proof. exact tree_gwfb_sound_proof. Qed.

(* the earlier partial result (string fragment only), kept: it needs no hypothesis on the tree shape *)
Theorem format_total_strings_partial : forall ws iw tbl t,
  str_tree tbl t = true -> exists g, format ws iw tbl t = Some (VStr g).
Proof. exact format_total_strings. Qed.

(* ------------------------------------------------------------------------------------------------
   IDEMPOTENCE, PARTIAL.  Proved on the model: _columnize pads each cell to a width computed from the
   cells of its column, so cells that already have these widths are left alone (columnize_idempotent,
   columnize_cells_idempotent) and the alignment depends on the cells only through their texts
   (columnize_widths_depend_on_text_only); the two whole-file passes of _module compose to an idempotent
   function, so the rows that are rendered are a fixed point of them (format_rows_fixed_point_partial);
   each pass and rstrip alone are idempotent.  NOT proved, still validated per output by the harness
   (fmt (fmt t) = fmt t observed on every case): that tokenizing and parsing the rendered rows gives back
   rows with the same cell texts -- this needs the parser (C08/C09) and the Indent/Dedent part of the
   tokenizer; for single lines see format_line_retokenizes_partial below.
   ------------------------------------------------------------------------------------------------ *)

(* _columnize of a block whose header cells are already at least as wide as the widths computed for their
   columns changes nothing: the aligned line is just the concatenation of the cells (no padding added) *)
Theorem columnize_idempotent : forall ws iw ic all b,
  cells_padded iw ic all (bheader b) 0 (rcols (bheader b)) ->
  columnize_block ws iw ic all b =
  bprefix b ++ [mkRow (rname (bheader b)) [grstrip ws (concat (rcols (bheader b)))] (rindent (bheader b))] ++ bbody b.
Proof. exact columnize_block_padded. Qed.

(* the padding step itself is idempotent: padded cells satisfy the hypothesis above and padding them again is the identity *)
Theorem columnize_cells_idempotent : forall iw ic all r cols i,
  cells_padded iw ic all r i (pad_cells iw ic all r i cols) /\
  pad_cells iw ic all r i (pad_cells iw ic all r i cols) = pad_cells iw ic all r i cols /\
  pad_cols iw ic all r i cols = concat (pad_cells iw ic all r i cols).
Proof. exact (fun iw ic all r cols i => conj (pad_cells_padded iw ic all r cols i) (conj (pad_cells_idem iw ic all r cols i) (pad_cols_cells iw ic all r cols i))). Qed.

(* the widths depend on the header rows only through (name, texts of the cells, indent) *)
Theorem columnize_widths_depend_on_text_only : forall iw ic name i bs bs',
  map (fun b => row_flat (bheader b)) bs = map (fun b => row_flat (bheader b)) bs' ->
  col_width iw ic name i bs = col_width iw ic name i bs'.
Proof. exact col_width_flat. Qed.

(* the rows _module renders are final_passes rows0; they are a fixed point of both whole-file passes *)
Theorem format_rows_fixed_point_partial : forall rows,
  indent_blanks_and_comments (final_passes rows) = final_passes rows /\
  add_blank_rows_on_dedent (final_passes rows) = final_passes rows /\
  final_passes (final_passes rows) = final_passes rows.
Proof.
  exact (fun rows => conj (indent_blanks_after_dedent rows)
                          (conj (add_blank_rows_idem (indent_blanks_and_comments rows)) (final_passes_idem rows))).
Qed.

Theorem indent_blanks_idempotent_partial : forall l,
  indent_blanks_and_comments (indent_blanks_and_comments l) = indent_blanks_and_comments l.
Proof. exact indent_blanks_idem. Qed.

Theorem add_blank_rows_idempotent_partial : forall l,
  add_blank_rows_on_dedent (add_blank_rows_on_dedent l) = add_blank_rows_on_dedent l.
Proof. exact add_blank_rows_idem. Qed.

Theorem rstrip_idempotent_partial : forall ws g, grstrip ws (grstrip ws g) = grstrip ws g.
Proof. exact grstrip_idem. Qed.

(* ------------------------------------------------------------------------------------------------
   IDEMPOTENCE, row/column layer for ALL blocks and rows (Lex/FmtProofsIdem2.v; no padding hypothesis).
   Everything from the blocks / rows to the rendered text -- _columnize (widths, padding, rstrip of the
   line), _indent_blanks_and_comments, _add_blank_rows_on_dedent, _render_rows_to_text -- is a function of
   (row name, TEXTS of the cells, indent) alone: [row_flat].  So formatting twice gives the same text AS
   SOON AS the second run's rows have the same names, cell texts and indents as the first run's rows.
   What remains validated per output (fmt (fmt t) = fmt t observed on every case): that premise -- the
   parser maps the rendered text back to the same tree (C08/C09, Indent/Dedent part of the tokenizer) and
   the handlers rebuild the same cell texts from the normalised token texts (trailing blanks of
   Documentation / Comment tokens, Indent texts).
   ------------------------------------------------------------------------------------------------ *)

(* rstrip on strings with provenance is str.rstrip on the text *)
Theorem rstrip_is_textual : forall ws g, flat (grstrip ws g) = rstrip ws (flat g).
Proof. exact grstrip_flat. Qed.

(* the line _columnize builds for block b among the blocks bs depends on the header cells' texts only *)
Theorem columnize_line_depends_on_cell_texts : forall ws iw ic bs bs' b b',
  map (fun x => row_flat (bheader x)) bs = map (fun x => row_flat (bheader x)) bs' ->
  row_flat (bheader b) = row_flat (bheader b') ->
  flat (aligned_line ws iw ic bs b) = flat (aligned_line ws iw ic bs' b').
Proof. exact aligned_line_text_congr. Qed.

Theorem columnize_rows_depend_on_cell_texts : forall ws iw ic bs bs' b b',
  map (fun x => row_flat (bheader x)) bs = map (fun x => row_flat (bheader x)) bs' ->
  row_flat (bheader b) = row_flat (bheader b') ->
  rows_flat (bprefix b) = rows_flat (bprefix b') -> rows_flat (bbody b) = rows_flat (bbody b') ->
  rows_flat (columnize_block ws iw ic bs b) = rows_flat (columnize_block ws iw ic bs' b').
Proof. exact columnize_block_flat. Qed.

(* what _module does with the rows of the file (both passes, rendering) depends on their cell texts only:
   rows with equal names, cell texts and indents are rendered to the same text (or both fail) *)
Theorem reformat_same_cell_texts_same_text_partial : forall ws iw rows rows',
  rows_flat rows = rows_flat rows' -> module_text ws iw rows = module_text ws iw rows'.
Proof. exact module_text_congr. Qed.

(* ------------------------------------------------------------------------------------------------
   RE-TOKENIZATION, PARTIAL (single lines; Lex/FmtRetok.v).  [pieces_fit T g] is the decidable local
   condition "at the start of every piece of the line, the tokenizer's longest-first choice is exactly
   that piece" (token pieces with their own symbol, the formatter's blanks skipped as white space).
   Under it the line loop of the C10 tokenizer model splits the rendered line back into exactly the tokens
   its pieces stand for, whose (symbol, stripped text) sequence is the one format_preserves_tokens speaks
   about.  Missing for the full statement: pieces_fit is evaluated per produced line (by the harness on a
   sample, by the extracted model), not derived from the spacing discipline of the handler table for all
   outputs; and Indent / Dedent / newline tokens (tok_lines) are not covered.
   ------------------------------------------------------------------------------------------------ *)
Theorem format_line_retokenizes_partial : forall T ln g, pieces_fit T (gnorm g) = true ->
  tokenize_line T ln (flat g) = LOk (piece_tokens ln 0 (gnorm g)) /\
  tokens_toks (is_ws T) (piece_tokens ln 0 (gnorm g)) = gtoks (is_ws T) g.
Proof. exact format_line_retokenizes_proof. Qed.

(* all lines of a formatted text: each line tokenizes into its pieces, and the tokens of all lines together are
   exactly the tokens of the tree (ties format_preserves_tokens to the tokenizer model) *)
Theorem format_lines_retokenize_partial : forall T iw tbl, table_toks_ok tbl = true ->
  forall t g, format (is_ws T) iw tbl t = Some (VStr g) -> text_fits T g = true ->
  (forall l, In l (glines g) -> forall ln, tokenize_line T ln (flat l) = LOk (piece_tokens ln 0 (gnorm l))) /\
  flat_map (fun l => tokens_toks (is_ws T) (piece_tokens 0 0 (gnorm l))) (glines g) = tree_toks (is_ws T) tbl t.
Proof. exact format_lines_retokenize_proof. Qed.

(* Config(show_line_types=True) (Lex/FmtShow.v): the `name|` prefixes carry no token *)
Theorem show_line_types_preserves_tokens : forall ws iw w rows t, render_rows_show ws iw w rows = Some t ->
  exists u, render_rows ws iw rows = Some u /\ gtoks ws t = gtoks ws u.
Proof. exact render_rows_show_toks. Qed.

Example toy_fmt_example :
  table_toks_ok toy_fmt_table = true /\ droppable_terminal toy_fmt_table = true /\
  tree_wf toy_fmt_table toy_tree /\
  format_text toy_ws 2 toy_fmt_table toy_tree = Some [120; 32; 32; 121]%N /\
  leaf_toks toy_ws toy_tree = [([88], [120]); ([89], [121])]%N.
Proof. exact toy_fmt_example_proof. Qed.

(* the hypotheses of format_total are satisfiable by the same instance *)
Example toy_fmt_total_example :
  table_typed_ok toy_fmt_table = true /\ tree_gwf toy_fmt_table toy_tree /\ asserts_ok toy_fmt_table toy_tree = true /\
  sym_ty toy_fmt_table (infer toy_fmt_table) [97]%N = Some TStr.
Proof. exact toy_fmt_total_example_proof. Qed.
