(* C11 (token level, partial) — the criterion "same token sequence up to white space, blank lines and
   surrounding blanks in token texts" is an equivalence with a verified checker; the formatter's
   built-in self check is modelled and shown to decide exactly that criterion.
   The formatter's own handlers are NOT modelled: each run certifies the outputs it produced
   (translation validation with the verified criterion over the model tokenizer of C10). *)
From Coq Require Import NArith List Bool Arith.
Import ListNotations.
Require Import EmbossV.Lex.Regex EmbossV.Lex.Tokenizer EmbossV.Lex.Spec EmbossV.Lex.Format.
Require Import EmbossV.Lex.Proofs_Line EmbossV.Lex.Proofs_Examples EmbossV.Lex.Proofs_Format.
Require Import EmbossV.Lex.FmtModel EmbossV.Lex.FmtProofs.

Theorem fmt_equivb_spec : forall T o f, fmt_equivb T o f = true <-> fmt_equiv T o f.
Proof. exact fmt_equivb_spec_proof. Qed.

Theorem fmt_equiv_refl : forall T a, fmt_equiv T a a.
Proof. exact fmt_equiv_refl_proof. Qed.

Theorem fmt_equiv_sym : forall T a b, fmt_equiv T a b -> fmt_equiv T b a.
Proof. exact fmt_equiv_sym_proof. Qed.

Theorem fmt_equiv_trans : forall T a b c, fmt_equiv T a b -> fmt_equiv T b c -> fmt_equiv T a c.
Proof. exact fmt_equiv_trans_proof. Qed.

(* equivalent token lists feed the parser the same symbols (newline runs collapsed) *)
Theorem symbols_preserved : forall T o f, fmt_equiv T o f -> map sym (collapse o) = map sym (collapse f).
Proof. exact symbols_preserved_proof. Qed.

Theorem collapse_no_leading_newline : forall ts t rest, collapse ts = t :: rest -> is_newline t = false.
Proof. exact collapse_no_leading_newline_proof. Qed.

(* sanity_check_format_result (as of fix 7fc177c) reports nothing EXACTLY when the criterion holds *)
Theorem sanity_ok_iff : forall T o f, sanity_tokens T o f = ScOk <-> fmt_equiv T o f.
Proof. exact sanity_ok_iff_proof. Qed.

Theorem sanity_complete : forall T o f, fmt_equiv T o f -> sanity_tokens T o f = ScOk.
Proof. exact sanity_complete_proof. Qed.

Theorem sanity_sound : forall T o f, sanity_tokens T o f = ScOk -> fmt_equiv T o f.
Proof. exact sanity_sound_proof. Qed.

(* its two error reports mean what they say *)
Theorem sanity_bug_position : forall T o f i,
  sanity_tokens T o f = ScBug i ->
  exists a b, nth_error (collapse o) i = Some a /\ nth_error (collapse f) i = Some b /\ ~ tok_equiv T a b /\
              Forall2 (tok_equiv T) (firstn i (collapse o)) (firstn i (collapse f)).
Proof. exact sanity_bug_proof. Qed.

Theorem sanity_count_differs : forall T o f a b,
  sanity_tokens T o f = ScCount a b ->
  a = length (collapse o) /\ b = length (collapse f) /\ a <> b /\
  Forall2 (tok_equiv T) (firstn (min a b) (collapse o)) (firstn (min a b) (collapse f)).
Proof. exact sanity_count_proof. Qed.

Example sanity_text_example :
  sanity_check toy_table [97; 10; 98; 10]%N [97; 10]%N = SanRes (ScCount 2 4) /\
  fmt_check toy_table [97; 10]%N [97; 10; 98; 10]%N = FvDiffer /\
  sanity_check toy_table [97; 10]%N [97; 10; 98; 10]%N = SanRes (ScCount 4 2) /\
  sanity_check toy_table [97; 32; 10; 10]%N [97; 10]%N = SanRes ScOk.
Proof. exact sanity_text_example_proof. Qed.

(* re-tokenisation, partial: a line re-tokenises to a given token list iff the local longest-first
   conditions of [line_toks] hold at every token and gap (the per-pattern "no two tokens fuse" facts
   are discharged by computation per formatted output, not proved for all outputs) *)
Theorem retokenize_line_partial : forall T ln L ts,
  line_toks T ln 0 L ts <-> tokenize_line T ln L = LOk ts.
Proof. exact retokenize_line_proof. Qed.

(* ------------------------------------------------------------------------------------------------
   Handler level (Lex/FmtModel.v): an executable model of format_emb.py whose table production ->
   handler is regenerated from the source on every run (harness/fmt_x.py) and whose output is compared
   with format_emboss_parse_tree character for character.  [ws] is Python's str.isspace, [iw] the
   indent width, [tbl] the handler table; the instance theorems on the regenerated table are in the
   generated file FmtHInstance_C11.v (inst_table_toks_ok: by computation over the production list).
   ------------------------------------------------------------------------------------------------ *)

(* one handler: the tokens of its result are the tokens of its arguments as listed by the static
   analysis [etoks] (each DSL construct and each shared combinator -- _columnize, _intersperse, comment
   stripping, blank-line insertion, rendering, rstrip -- neither drops, duplicates nor reorders tokens) *)
Theorem eval_preserves_tokens : forall ws iw args e v l,
  eval ws iw args e = Some v -> etoks (length args) e = Some l -> vtoks ws v = astoks ws args l.
Proof. exact eval_toks. Qed.

(* ALL parse trees, no size bound: if every handler of the table passes the static check, the
   (symbol, stripped text) sequence of the tokens in the formatter's result is that of the tree *)
Theorem format_preserves_tokens : forall ws iw tbl, table_toks_ok tbl = true ->
  forall t v, format ws iw tbl t = Some v -> vtoks ws v = tree_toks ws tbl t.
Proof. exact format_toks. Qed.

(* the rendered TEXT is a concatenation of pieces whose token pieces, in order, are the tree's tokens *)
Theorem format_text_preserves_tokens : forall ws iw tbl, table_toks_ok tbl = true ->
  forall t s, format_text ws iw tbl t = Some s ->
  exists g, format ws iw tbl t = Some (VStr g) /\ flat g = s /\ gtoks ws g = tree_toks ws tbl t.
Proof. exact format_text_toks. Qed.

(* for trees built from the table's productions [tree_toks] is simply the list of leaves, left to
   right, without Indent / Dedent / "\n" and white-space-only tokens *)
Theorem format_preserves_leaves : forall ws iw tbl, table_toks_ok tbl = true -> droppable_terminal tbl = true ->
  forall t v, tree_wf tbl t -> (forall s, root_sym tbl t = Some s -> droppable s = false) ->
  format ws iw tbl t = Some v -> vtoks ws v = leaf_toks ws t.
Proof.
  exact (fun ws iw tbl H1 H2 t v Hw Hr Hf =>
           eq_trans (format_toks ws iw tbl H1 t v Hf) (tree_toks_leaves ws tbl H2 t Hw Hr)).
Qed.

(* never fails, PARTIAL: proved for the string fragment of the handler language (the handlers of all
   expression, type-reference, name, attribute-value ... productions: str_handler; 181 of the 224
   productions of the current table).  Missing for the full statement: a typing of the row/block
   handlers (values of type list-of-rows / list-of-blocks / field-location pair, rows with at most
   one column at render time, at most two header kinds per _columnize call, non-empty `if` bodies)
   and the exclusion of `doc-line -> doc Comment eol` trees, on which format_emb.py itself asserts. *)
Theorem format_total_strings_partial : forall ws iw tbl t,
  str_tree tbl t = true -> exists g, format ws iw tbl t = Some (VStr g).
Proof. exact format_total_strings. Qed.

(* idempotence, PARTIAL: the three whole-file normalisation passes and rstrip are idempotent; missing:
   parse (render rows) gives back the same rows, and _columnize of already aligned rows *)
Theorem indent_blanks_idempotent_partial : forall l,
  indent_blanks_and_comments (indent_blanks_and_comments l) = indent_blanks_and_comments l.
Proof. exact indent_blanks_idem. Qed.

Theorem add_blank_rows_idempotent_partial : forall l,
  add_blank_rows_on_dedent (add_blank_rows_on_dedent l) = add_blank_rows_on_dedent l.
Proof. exact add_blank_rows_idem. Qed.

Theorem rstrip_idempotent_partial : forall ws g, grstrip ws (grstrip ws g) = grstrip ws g.
Proof. exact grstrip_idem. Qed.

Example toy_fmt_example :
  table_toks_ok toy_fmt_table = true /\ droppable_terminal toy_fmt_table = true /\
  tree_wf toy_fmt_table toy_tree /\
  format_text toy_ws 2 toy_fmt_table toy_tree = Some [120; 32; 32; 121]%N /\
  leaf_toks toy_ws toy_tree = [([88], [120]); ([89], [121])]%N.
Proof. exact toy_fmt_example_proof. Qed.
