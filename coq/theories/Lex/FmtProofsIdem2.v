(* C11, handler level: idempotence, second part -- the row/column layer is a function of the cell TEXTS.
   For ALL block lists (no hypothesis on padding): the line _columnize produces for a block, and the text
   _render_rows_to_text produces after the two whole-file passes, depend on the rows only through
   (row name, texts of the cells, indent).  Hence: if formatting the formatted text leads to rows with the same
   names, cell texts and indents -- i.e. the second parse is the same tree and the handlers reproduce the cell
   texts from the normalised token texts -- the second output is the first output, character for character. *)
From Coq Require Import NArith List Bool Arith PeanoNat Lia.
Import ListNotations.
Require Import EmbossV.Lex.Regex EmbossV.Lex.FmtModel EmbossV.Lex.FmtProofs EmbossV.Lex.FmtProofsIdem.

Local Arguments row_flat : simpl never.

Lemma cons_eq_inv : forall (A : Type) (a b : A) l l', a :: l = b :: l' -> a = b /\ l = l'.
Proof. intros A a b l l' H. injection H as H1 H2. split; assumption. Qed.

Section WithWs.
Variable ws : N -> bool.

Lemma flat_app : forall a b, flat (a ++ b) = flat a ++ flat b.
Proof. induction a as [|p a IH]; intro b; [reflexivity|]. simpl. rewrite IH, app_assoc. reflexivity. Qed.

(* str.rstrip of a concatenation *)
Lemma rstrip_app : forall a b, rstrip ws (a ++ b) = match rstrip ws b with [] => rstrip ws a | r => a ++ r end.
Proof.
  induction a as [|c a IH]; intro b.
  - simpl. destruct (rstrip ws b); reflexivity.
  - simpl. rewrite IH. destruct (rstrip ws b) as [|x r]; [reflexivity|].
    destruct a; reflexivity.
Qed.

Lemma grstrip_nonempty_flat : forall g, grstrip ws g <> [] -> flat (grstrip ws g) <> [].
Proof.
  induction g as [|p g IH]; intro H; [exfalso; apply H; reflexivity|]. simpl in *.
  destruct (grstrip ws g) as [|p0 l] eqn:E.
  - destruct (rstrip ws (ptext p)) as [|c t] eqn:R; [exfalso; apply H; reflexivity|]. destruct p; simpl; discriminate.
  - simpl. intro F. apply app_eq_nil in F. destruct F as [_ F]. apply IH; [discriminate|exact F].
Qed.

(* the pieces are ghost structure: rstrip on pieces is rstrip on the text *)
Lemma grstrip_flat : forall g, flat (grstrip ws g) = rstrip ws (flat g).
Proof.
  induction g as [|p g IH]; [reflexivity|]. simpl. rewrite rstrip_app, <- IH.
  destruct (grstrip ws g) as [|p0 l] eqn:E.
  - simpl. destruct (rstrip ws (ptext p)) as [|c t]; [reflexivity|]. destruct p; simpl; rewrite app_nil_r; reflexivity.
  - assert (N : flat (p0 :: l) <> []) by (rewrite <- E; apply grstrip_nonempty_flat; rewrite E; discriminate).
    destruct (flat (p0 :: l)) as [|x r] eqn:F; [contradiction|]. simpl in F. simpl. rewrite F. reflexivity.
Qed.

Lemma flat_gljust : forall g w, flat (gljust g w) = flat g ++ spaces (w - glen g).
Proof.
  intros g w. unfold gljust. destruct (w - glen g) as [|k]; [simpl; rewrite app_nil_r; reflexivity|].
  rewrite flat_app. simpl. rewrite app_nil_r. reflexivity.
Qed.

(* ---------- _columnize ---------- *)
Lemma pad_cols_flat_congr : forall iw ic all all' r r',
  rname r = rname r' -> rindent r = rindent r' ->
  (forall i, col_width iw ic (rname r) i all = col_width iw ic (rname r) i all') ->
  forall cols cols' i, map flat cols = map flat cols' ->
  flat (pad_cols iw ic all r i cols) = flat (pad_cols iw ic all' r' i cols').
Proof.
  intros iw ic all all' r r' Hn Hi Hw. induction cols as [|c cols IH]; destruct cols' as [|c' cols']; intros i H; try discriminate; [reflexivity|].
  simpl in H. injection H as Hc Hcs. simpl. rewrite !flat_app, !flat_gljust, (IH _ _ Hcs).
  unfold glen. rewrite <- Hn, <- Hw, Hc. unfold col_adjust. rewrite Hi. reflexivity.
Qed.

(* the aligned line of block b among the blocks `all` *)
Definition aligned_line (iw ic : nat) (all : list block) (b : block) : gstr :=
  grstrip ws (pad_cols iw ic all (bheader b) 0 (rcols (bheader b))).

Lemma columnize_block_line : forall iw ic all b,
  columnize_block ws iw ic all b =
  bprefix b ++ [mkRow (rname (bheader b)) [aligned_line iw ic all b] (rindent (bheader b))] ++ bbody b.
Proof. reflexivity. Qed.

Theorem aligned_line_text_congr : forall iw ic bs bs' b b',
  map (fun x => row_flat (bheader x)) bs = map (fun x => row_flat (bheader x)) bs' ->
  row_flat (bheader b) = row_flat (bheader b') ->
  flat (aligned_line iw ic bs b) = flat (aligned_line iw ic bs' b').
Proof.
  intros iw ic bs bs' b b' Hall Hb. unfold aligned_line. rewrite !grstrip_flat. f_equal.
  unfold row_flat in Hb. injection Hb as Hn Hc Hi.
  apply pad_cols_flat_congr; try assumption. intro i. apply col_width_flat. exact Hall.
Qed.

(* ---------- rows: the two whole-file passes and the rendering ---------- *)
Definition rows_flat (l : list row) : list (str * list str * nat) := map row_flat l.

Lemma gempty_flat : forall a b, flat a = flat b -> gempty a = gempty b.
Proof. intros a b H. unfold gempty. rewrite H. reflexivity. Qed.

Lemma row_blank_flat : forall r r', row_flat r = row_flat r' -> row_blank r = row_blank r'.
Proof.
  intros r r' H. unfold row_flat in H. injection H as _ Hc _. unfold row_blank.
  revert Hc. generalize (rcols r) (rcols r'). intro l. induction l as [|c l IH]; intro l0; destruct l0 as [|c' l']; intro H; try discriminate; [reflexivity|].
  simpl in H. injection H as H1 H2. simpl. rewrite (gempty_flat _ _ H1), (IH _ H2). reflexivity.
Qed.

Lemma ibc_go_flat : forall l l', rows_flat l = rows_flat l' ->
  rows_flat (fst (ibc_go l)) = rows_flat (fst (ibc_go l')) /\ snd (ibc_go l) = snd (ibc_go l').
Proof.
  induction l as [|r l IH]; destruct l' as [|r' l']; intro H; try discriminate; [split; reflexivity|].
  apply cons_eq_inv in H. destruct H as [Hr Hl]. destruct (IH _ Hl) as [I1 I2]. simpl.
  destruct (ibc_go l) as [res q]. destruct (ibc_go l') as [res' q']. simpl in I1, I2. subst q'.
  rewrite (row_blank_flat _ _ Hr). pose proof Hr as Hr'. unfold row_flat in Hr'. injection Hr' as Hn Hc Hi. rewrite Hn.
  destruct (row_blank r' || seqb (rname r') name_comment); simpl.
  - split; [|reflexivity]. rewrite I1. f_equal. unfold row_flat. simpl. rewrite Hc. reflexivity.
  - split; [|exact Hi]. rewrite I1, Hr. reflexivity.
Qed.

Lemma dedent_go_flat : forall l l' pi pb, rows_flat l = rows_flat l' ->
  rows_flat (dedent_go pi pb l) = rows_flat (dedent_go pi pb l').
Proof.
  induction l as [|r l IH]; destruct l' as [|r' l']; intros pi pb H; try discriminate; [reflexivity|].
  apply cons_eq_inv in H. destruct H as [Hr Hl]. simpl. rewrite (row_blank_flat _ _ Hr).
  pose proof Hr as Hr'. unfold row_flat in Hr'. injection Hr' as Hn Hc Hi. rewrite Hi.
  destruct ((rindent r' <? pi) && negb pb && negb (row_blank r')); simpl; rewrite Hr, (IH _ _ _ Hl); reflexivity.
Qed.

Lemma final_passes_flat : forall l l', rows_flat l = rows_flat l' -> rows_flat (final_passes l) = rows_flat (final_passes l').
Proof.
  intros l l' H. unfold final_passes, add_blank_rows_on_dedent, indent_blanks_and_comments.
  apply dedent_go_flat. apply ibc_go_flat. exact H.
Qed.

Lemma render_row_flat : forall iw r r', row_flat r = row_flat r' ->
  option_map flat (render_row ws iw r) = option_map flat (render_row ws iw r').
Proof.
  intros iw r r' H. unfold row_flat in H. injection H as _ Hc Hi. unfold render_row. rewrite Hi.
  destruct (rcols r) as [|c [|c2 l]]; destruct (rcols r') as [|c' [|c2' l']]; try discriminate; try reflexivity.
  simpl in Hc. injection Hc as Hc. unfold option_map. f_equal. rewrite !grstrip_flat. f_equal. cbn [flat ptext]. rewrite Hc. reflexivity.
Qed.

Lemma render_rows_flat : forall iw l l', rows_flat l = rows_flat l' ->
  option_map flat (render_rows ws iw l) = option_map flat (render_rows ws iw l').
Proof.
  induction l as [|r l IH]; destruct l' as [|r' l']; intro H; try discriminate; [reflexivity|].
  apply cons_eq_inv in H. destruct H as [Hr Hl]. simpl. pose proof (render_row_flat iw _ _ Hr) as R. pose proof (IH _ Hl) as Rs.
  destruct (render_row ws iw r), (render_row ws iw r'); simpl in R; try discriminate;
    destruct (render_rows ws iw l), (render_rows ws iw l'); simpl in Rs; try discriminate; try reflexivity.
  simpl. injection R as R. injection Rs as Rs. rewrite !flat_app. simpl. rewrite R, Rs. reflexivity.
Qed.

(* what _module does with the rows of the whole file: both passes, then the rendering *)
Definition module_text (iw : nat) (rows : list row) : option str :=
  option_map flat (render_rows ws iw (final_passes rows)).

Theorem module_text_congr : forall iw rows rows', rows_flat rows = rows_flat rows' ->
  module_text iw rows = module_text iw rows'.
Proof. intros iw rows rows' H. unfold module_text. apply render_rows_flat. apply final_passes_flat. exact H. Qed.

(* a block list as the rows it contributes after alignment, up to provenance *)
Lemma columnize_block_flat : forall iw ic bs bs' b b',
  map (fun x => row_flat (bheader x)) bs = map (fun x => row_flat (bheader x)) bs' ->
  row_flat (bheader b) = row_flat (bheader b') ->
  rows_flat (bprefix b) = rows_flat (bprefix b') -> rows_flat (bbody b) = rows_flat (bbody b') ->
  rows_flat (columnize_block ws iw ic bs b) = rows_flat (columnize_block ws iw ic bs' b').
Proof.
  intros iw ic bs bs' b b' Hall Hb Hp Hy. rewrite !columnize_block_line. unfold rows_flat in *.
  rewrite !map_app, Hp, Hy. f_equal. f_equal. cbn [map]. f_equal.
  pose proof (aligned_line_text_congr iw ic bs bs' b b' Hall Hb) as Hline.
  unfold row_flat in *. cbn [rname rcols rindent map]. rewrite Hline.
  injection Hb as Hn _ Hi. rewrite Hn, Hi. reflexivity.
Qed.
End WithWs.
