(* C11: re-tokenization of a rendered line, piece by piece (proofs about Lex/FmtRetok.v), on top of the
   relational form [line_toks] of the C10 tokenizer loop and retokenize_line_proof. *)
From Coq Require Import NArith List Bool Arith PeanoNat Lia.
Import ListNotations.
Require Import EmbossV.Lex.Regex EmbossV.Lex.Tokenizer EmbossV.Lex.Proofs_Line EmbossV.Lex.Proofs_Format.
Require Import EmbossV.Lex.FmtModel EmbossV.Lex.FmtProofs EmbossV.Lex.FmtProofsTotal EmbossV.Lex.FmtRetok.

Lemma flat_app : forall a b, flat (a ++ b) = flat a ++ flat b.
Proof. induction a as [|p a IH]; intro b; [reflexivity|]. simpl. rewrite IH, app_assoc. reflexivity. Qed.

Lemma gnorm_flat : forall g, flat (gnorm g) = flat g.
Proof.
  induction g as [|p g IH]; [reflexivity|]. simpl. destruct (ptext p) eqn:E; [exact IH|].
  rewrite <- E. destruct p as [sy tx|a]; [simpl; rewrite IH; reflexivity|].
  destruct (gnorm g) as [|[sy tx|b] r] eqn:G; simpl in *; rewrite <- IH; try reflexivity.
  rewrite app_assoc. reflexivity.
Qed.

Lemma gnorm_toks : forall ws g, gtoks ws (gnorm g) = gtoks ws g.
Proof.
  intros ws. induction g as [|p g IH]; [reflexivity|]. simpl. destruct (ptext p) eqn:E.
  - rewrite IH. destruct p; simpl in *; [subst; reflexivity|reflexivity].
  - destruct p as [sy tx|a]; [simpl; rewrite IH; reflexivity|].
    destruct (gnorm g) as [|[sy tx|b] r] eqn:G; simpl in *; rewrite <- IH; reflexivity.
Qed.

Lemma firstn_length_app : forall (A : Type) (a b : list A), firstn (length a) (a ++ b) = a.
Proof. induction a as [|x a IH]; intro b; [reflexivity|]. simpl. rewrite IH. reflexivity. Qed.
Lemma skipn_length_app : forall (A : Type) (a b : list A), skipn (length a) (a ++ b) = b.
Proof. induction a as [|x a IH]; intro b; [reflexivity|]. simpl. apply IH. Qed.

Lemma pieces_fit_line_toks : forall T ln g, pieces_fit T g = true ->
  forall off, line_toks T ln off (flat g) (piece_tokens ln off g).
Proof.
  intros T ln. induction g as [|p g IH]; intros H off; [constructor|].
  simpl in H. apply andb_true_iff in H. destruct H as [H H3]. apply andb_true_iff in H. destruct H as [H1 H2].
  unfold best_is in H2. change (flat (p :: g)) with (ptext p ++ flat g) in *.
  destruct (best T (ptext p ++ flat g)) as [m o'] eqn:Eb. apply andb_true_iff in H2. destruct H2 as [Hm Ho].
  apply Nat.eqb_eq in Hm. subst m.
  assert (Hne : ptext p <> []) by (destruct (ptext p); [discriminate|discriminate]).
  assert (Hs : ptext p ++ flat g <> []) by (destruct (ptext p); [contradiction|discriminate]).
  assert (Hpos : 0 < length (ptext p)) by (destruct (ptext p); [contradiction|simpl; lia]).
  destruct p as [sy tx|tx]; simpl in *.
  - destruct o' as [sy'|]; [|discriminate]. apply seqb_eq in Ho. subst sy'.
    pose proof (LT_tok T ln off (tx ++ flat g) (length tx) sy (piece_tokens ln (off + length tx) g) Hs Eb Hpos) as X.
    rewrite firstn_length_app, skipn_length_app in X. apply X. apply IH. exact H3.
  - destruct o' as [sy'|]; [discriminate|].
    pose proof (LT_skip T ln off (tx ++ flat g) (length tx) (piece_tokens ln (off + length tx) g) Hs Eb Hpos) as X.
    rewrite skipn_length_app in X. apply X. apply IH. exact H3.
Qed.

Lemma piece_tokens_toks : forall ws ln g off, tokens_toks ws (piece_tokens ln off g) = gtoks ws g.
Proof.
  intros ws ln. induction g as [|p g IH]; intro off; [reflexivity|].
  destruct p as [sy tx|tx]; simpl.
  - unfold tokens_toks in *. simpl. rewrite IH. reflexivity.
  - apply IH.
Qed.

Theorem format_line_retokenizes_proof : forall T ln g, pieces_fit T (gnorm g) = true ->
  tokenize_line T ln (flat g) = LOk (piece_tokens ln 0 (gnorm g)) /\
  tokens_toks (is_ws T) (piece_tokens ln 0 (gnorm g)) = gtoks (is_ws T) g.
Proof.
  intros T ln g H. split.
  - apply retokenize_line_proof. rewrite <- gnorm_flat. apply pieces_fit_line_toks. exact H.
  - rewrite piece_tokens_toks. apply gnorm_toks.
Qed.

(* the lines of a text are its pieces between the newline pieces *)
Lemma glines_nonempty : forall g, glines g <> [].
Proof. induction g as [|p g IH]; simpl; [discriminate|]. destruct (glines g); [contradiction|]. destruct (is_nl p); discriminate. Qed.

Lemma glines_toks : forall ws g, flat_map (gtoks ws) (glines g) = gtoks ws g.
Proof.
  intros ws. induction g as [|p g IH]; [reflexivity|]. simpl. pose proof (glines_nonempty g) as Hn.
  destruct (glines g) as [|l ls]; [contradiction|]. simpl in IH.
  destruct (is_nl p) eqn:E.
  - simpl. rewrite IH. destruct p as [|tx]; [discriminate|]. reflexivity.
  - simpl. change (gtoks ws (p :: l)) with (ptoks ws p ++ gtoks ws l). rewrite <- app_assoc, IH. reflexivity.
Qed.

(* whole text, line by line: when every line of the formatter's result passes [pieces_fit], the line loop of the
   tokenizer model splits each line into exactly the tokens its pieces stand for, and the tokens of all lines
   together are the tokens of the tree *)
Theorem format_lines_retokenize_proof : forall T iw tbl, table_toks_ok tbl = true ->
  forall t g, format (is_ws T) iw tbl t = Some (VStr g) -> text_fits T g = true ->
  (forall l, In l (glines g) -> forall ln, tokenize_line T ln (flat l) = LOk (piece_tokens ln 0 (gnorm l))) /\
  flat_map (fun l => tokens_toks (is_ws T) (piece_tokens 0 0 (gnorm l))) (glines g) = tree_toks (is_ws T) tbl t.
Proof.
  intros T iw tbl Hok t g Hf Hfit. split.
  - intros l Hin ln. unfold text_fits in Hfit. rewrite forallb_forall in Hfit.
    apply (proj1 (format_line_retokenizes_proof T ln l (Hfit l Hin))).
  - rewrite <- (format_toks (is_ws T) iw tbl Hok t _ Hf). simpl. rewrite <- glines_toks.
    induction (glines g) as [|l ls IH]; [reflexivity|]. simpl. rewrite IH, piece_tokens_toks, gnorm_toks. reflexivity.
Qed.
