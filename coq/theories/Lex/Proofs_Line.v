(* Proofs about one line: the longest-first choice [best] and the loop of _tokenize_line. *)
From Coq Require Import NArith List Bool Lia Arith PeanoNat.
Import ListNotations.
Require Import EmbossV.Lex.Regex EmbossV.Lex.Tokenizer EmbossV.Lex.Spec.

(* ---- strings ---- *)
Lemma str_eqb_eq : forall a b, str_eqb a b = true <-> a = b.
Proof.
  induction a as [|x a IH]; destruct b as [|y b]; simpl; split; intros H; try discriminate; auto.
  - apply andb_prop in H as [H1 H2]. apply N.eqb_eq in H1. apply IH in H2. subst; auto.
  - injection H as -> ->. rewrite N.eqb_refl. simpl. apply IH. auto.
Qed.

Lemma str_eqb_refl : forall a, str_eqb a a = true.
Proof. intros. apply str_eqb_eq. auto. Qed.

Lemma str_eqb_neq : forall a b, str_eqb a b = false <-> a <> b.
Proof.
  intros a b. split.
  - intros H E. apply str_eqb_eq in E. congruence.
  - intros H. destruct (str_eqb a b) eqn:E; auto. apply str_eqb_eq in E. contradiction.
Qed.

Lemma prefixb_spec : forall p s, prefixb p s = true <-> is_prefix p s.
Proof.
  unfold is_prefix. induction p as [|x p IH]; intros s; simpl.
  - split; eauto.
  - destruct s as [|y s].
    + split; [discriminate|]. intros [t H]. discriminate.
    + rewrite andb_true_iff, N.eqb_eq, IH. split.
      * intros [-> [t ->]]. eauto.
      * intros [t H]. injection H as -> ->. eauto.
Qed.

Lemma firstn_app_exact : forall (A : Type) (a b : list A), firstn (length a) (a ++ b) = a.
Proof. intros. rewrite firstn_app, Nat.sub_diag, firstn_all. simpl. apply app_nil_r. Qed.

Lemma skipn_app_exact : forall (A : Type) (a b : list A), skipn (length a) (a ++ b) = b.
Proof. intros. rewrite skipn_app, Nat.sub_diag, skipn_all. simpl. auto. Qed.

Lemma skipn_skipn_add : forall (A : Type) (b a : nat) (l : list A),
  skipn a (skipn b l) = skipn (b + a) l.
Proof.
  induction b as [|b IH]; intros a l; simpl; auto.
  destruct l; simpl; auto. destruct a; auto.
Qed.

Lemma prefixb_firstn : forall p s,
  prefixb p s = true <-> firstn (length p) s = p /\ length p <= length s.
Proof.
  intros p s. rewrite prefixb_spec. split.
  - intros [t ->]. rewrite firstn_app_exact, app_length. split; [auto|lia].
  - intros [H1 H2]. exists (skipn (length p) s). rewrite <- H1 at 1. symmetry. apply firstn_skipn.
Qed.

(* ---- pat_len computes the longest accepted prefix ---- *)
Lemma pat_len_some : forall p s n,
  pat_len p s = Some n <-> pat_accepts p s n /\ forall m, pat_accepts p s m -> m <= n.
Proof.
  intros [l|r o] s n; simpl.
  - destruct (prefixb l s) eqn:E.
    + apply prefixb_firstn in E. destruct E as [E1 E2]. split.
      * intros H. injection H as <-. split; [auto|]. intros m [-> _]. auto.
      * intros [[-> _] _]. auto.
    + split; [discriminate|]. intros [[-> [H1 H2]] _].
      assert (prefixb l s = true) by (apply prefixb_firstn; auto). congruence.
  - apply longest_some.
Qed.

Lemma pat_len_none : forall p s, pat_len p s = None <-> forall m, ~ pat_accepts p s m.
Proof.
  intros [l|r o] s; simpl.
  - destruct (prefixb l s) eqn:E.
    + split; [discriminate|]. intros H. exfalso. apply prefixb_firstn in E. destruct E.
      apply (H (length l)). auto.
    + split; auto. intros _ m [-> [H1 H2]].
      assert (prefixb l s = true) by (apply prefixb_firstn; auto). congruence.
  - apply longest_none.
Qed.

Lemma pat_accepts_le : forall p s m, pat_accepts p s m -> m <= length s.
Proof. intros [l|r o] s m; simpl; [intros (_ & _ & H); auto|intros [H _]; auto]. Qed.

(* ---- the fold of [best] ---- *)
Section Best.
  Variable s : str.

  Definition len_le (q : pattern) (n : nat) : Prop := forall m, pat_accepts q s m -> m <= n.
  Definition len_lt (q : pattern) (n : nat) : Prop := forall m, pat_accepts q s m -> m < n.

  Definition best_inv (ps : list pattern) (acc : nat * option str) : Prop :=
    (acc = (0, None) /\ forall q, In q ps -> len_le q 0) \/
    (0 < fst acc /\ exists before p after,
        ps = before ++ p :: after /\ pat_accepts p s (fst acc) /\ pat_sym p = snd acc /\
        (forall q, In q ps -> len_le q (fst acc)) /\
        (forall q, In q before -> len_lt q (fst acc))).

  Lemma best_inv_le : forall ps acc, best_inv ps acc -> forall q, In q ps -> len_le q (fst acc).
  Proof.
    intros ps acc [[-> H]|(_ & _ & _ & _ & _ & _ & _ & H & _)] q Hq; simpl; auto.
  Qed.

  Lemma best_step_inv : forall ps acc p,
    best_inv ps acc -> best_inv (ps ++ [p]) (best_step s acc p).
  Proof.
    intros ps acc p Hinv. pose proof (best_inv_le _ _ Hinv) as Hle. unfold best_step.
    assert (Hkeep : len_le p (fst acc) -> best_inv (ps ++ [p]) acc).
    { intros Hp. destruct Hinv as [[-> H0]|(Hpos & before & p0 & after & -> & Ha & Hs & Hall & Hb)].
      - left. split; auto. intros q Hq. apply in_app_or in Hq. destruct Hq as [Hq|[<-|[]]]; auto.
      - right. split; auto. exists before, p0, (after ++ [p]).
        split; [rewrite <- app_assoc; reflexivity|].
        repeat split; auto. intros q Hq.
        apply in_app_or in Hq. destruct Hq as [Hq|[<-|[]]]; auto. }
    destruct (pat_len p s) as [n|] eqn:En.
    - apply pat_len_some in En. destruct En as [Hacc Hmax].
      destruct (fst acc <? n) eqn:Elt.
      + apply Nat.ltb_lt in Elt. right. simpl. split; [lia|].
        exists ps, p, []. repeat split; auto.
        * intros q Hq m Hm. apply in_app_or in Hq. destruct Hq as [Hq|[<-|[]]]; auto.
          apply (Hle q Hq) in Hm. lia.
        * intros q Hq m Hm. apply (Hle q Hq) in Hm. lia.
      + apply Nat.ltb_ge in Elt. apply Hkeep. intros m Hm. apply Hmax in Hm. lia.
    - apply Hkeep. intros m Hm. exfalso. eapply pat_len_none in En. apply En. exact Hm.
  Qed.

  Lemma best_fold_inv : forall ps, best_inv ps (fold_left (best_step s) ps (0, None)).
  Proof.
    induction ps as [|p ps IH] using rev_ind.
    - simpl. left. split; auto. intros q [].
    - rewrite fold_left_app. simpl. apply best_step_inv. auto.
  Qed.
End Best.

Lemma best_spec : forall T s n o,
  best T s = (n, o) ->
  (n = 0 /\ o = None /\ nothing_matches (all_pats T) s) \/ longest_first_choice (all_pats T) s n o.
Proof.
  intros T s n o H. unfold best in H. pose proof (best_fold_inv s (all_pats T)) as Hinv.
  rewrite H in Hinv. destruct Hinv as [[E H0]|(Hpos & before & p & after & Hps & Ha & Hs & Hall & Hb)].
  - injection E as -> ->. left. repeat split; auto. intros q m Hq Hm. apply (H0 q Hq) in Hm. lia.
  - right. simpl in *. split; auto. exists before, p, after. repeat split; auto.
    + intros q m Hq Hm. apply (Hall q Hq); auto.
    + intros q m Hq Hm. apply (Hb q Hq); auto.
Qed.

Lemma best_le : forall T s n o, best T s = (n, o) -> n <= length s.
Proof.
  intros T s n o H. apply best_spec in H. destruct H as [(-> & _)|(_ & _ & p & _ & _ & Ha & _)]; [lia|].
  eapply pat_accepts_le; eauto.
Qed.

(* ---- relational form of the loop of _tokenize_line ---- *)
Inductive line_toks (T : table) (ln : nat) : nat -> str -> list token -> Prop :=
| LT_nil : forall off, line_toks T ln off [] []
| LT_tok : forall off s n sy ts,
    s <> [] -> best T s = (n, Some sy) -> 0 < n ->
    line_toks T ln (off + n) (skipn n s) ts ->
    line_toks T ln off s (mkTok sy (firstn n s) ln (S off) (S (off + n)) :: ts)
| LT_skip : forall off s n ts,
    s <> [] -> best T s = (n, None) -> 0 < n ->
    line_toks T ln (off + n) (skipn n s) ts ->
    line_toks T ln off s ts.

(* the loop stops with "Unrecognized token" at offset e *)
Inductive line_err (T : table) : nat -> str -> nat -> Prop :=
| LE_here : forall off s o, s <> [] -> best T s = (0, o) -> line_err T off s off
| LE_later : forall off s n o e,
    s <> [] -> best T s = (n, o) -> 0 < n ->
    line_err T (off + n) (skipn n s) e -> line_err T off s e.

Lemma tl_loop_sound : forall T fuel ln off s,
  length s <= fuel ->
  match tl_loop T fuel ln off s with
  | LOk ts => line_toks T ln off s ts
  | LErr e => line_err T off s e
  | LFuel => False
  end.
Proof.
  intros T. induction fuel as [|fuel IH]; intros ln off s Hlen.
  - destruct s; simpl in *; [constructor|lia].
  - destruct s as [|c s'] eqn:Es; [simpl; constructor|]. rewrite <- Es in *.
    assert (Hne : s <> []) by (subst; discriminate).
    replace (tl_loop T (S fuel) ln off s) with
      (match best T s with
       | (0, _) => LErr off
       | (S _ as n, osym) =>
           match tl_loop T fuel ln (off + n) (skipn n s) with
           | LOk ts => LOk (match osym with
                            | Some sy => mkTok sy (firstn n s) ln (S off) (S (off + n)) :: ts
                            | None => ts end)
           | e => e
           end
       end) by (subst s; reflexivity).
    destruct (best T s) as [n o] eqn:Eb. destruct n as [|n'].
    + eapply LE_here; eauto.
    + pose proof (best_le _ _ _ _ Eb) as Hn.
      assert (Hl : length (skipn (S n') s) <= fuel) by (rewrite skipn_length; lia).
      specialize (IH ln (off + S n') (skipn (S n') s) Hl).
      destruct (tl_loop T fuel ln (off + S n') (skipn (S n') s)) as [ts|e|]; auto.
      * destruct o as [sy|]; [eapply LT_tok|eapply LT_skip]; eauto; lia.
      * eapply LE_later; eauto. lia.
Qed.

Lemma tokenize_line_ok : forall T ln L ts,
  tokenize_line T ln L = LOk ts -> line_toks T ln 0 L ts.
Proof.
  intros T ln L ts H. pose proof (tl_loop_sound T (length L) ln 0 L (le_n _)) as S.
  unfold tokenize_line in H. rewrite H in S. auto.
Qed.

Lemma tokenize_line_err : forall T ln L e,
  tokenize_line T ln L = LErr e -> line_err T 0 L e.
Proof.
  intros T ln L e H. pose proof (tl_loop_sound T (length L) ln 0 L (le_n _)) as S.
  unfold tokenize_line in H. rewrite H in S. auto.
Qed.

Lemma tokenize_line_no_fuel : forall T ln L, tokenize_line T ln L <> LFuel.
Proof.
  intros T ln L H. pose proof (tl_loop_sound T (length L) ln 0 L (le_n _)) as S.
  unfold tokenize_line in H. rewrite H in S. auto.
Qed.

(* ---- what every token of a line satisfies ---- *)
Definition tok_at (T : table) (ln off : nat) (s : str) (t : token) : Prop :=
  line t = ln /\
  exists k, off <= k /\ c0 t = S k /\ c1 t = c0 t + length (text t) /\
            c1 t <= S (off + length s) /\ text t <> [] /\
            text t = firstn (length (text t)) (skipn (k - off) s) /\
            longest_first_choice (all_pats T) (skipn (k - off) s) (length (text t)) (Some (sym t)).

Lemma line_toks_at : forall T ln off s ts,
  line_toks T ln off s ts -> Forall (tok_at T ln off s) ts.
Proof.
  intros T ln off s ts H. induction H.
  - constructor.
  - pose proof (best_le _ _ _ _ H0) as Hn.
    assert (Hlen : length (firstn n s) = n) by (rewrite firstn_length; lia).
    constructor.
    + split; [reflexivity|]. exists off. simpl. rewrite Hlen, Nat.sub_diag. simpl.
      split; [lia|]. split; [lia|]. split; [lia|]. split; [lia|].
      split; [intros E; rewrite E in Hlen; simpl in Hlen; lia|].
      split; [reflexivity|].
      apply best_spec in H0. destruct H0 as [(-> & _)|H0]; [lia|auto].
    + eapply Forall_impl; [|exact IHline_toks].
      intros t [Hl (k & Hk & Hc0 & Hc1 & Hb & Hne & Htx & Hlf)]. split; auto.
      exists k. rewrite skipn_length in Hb.
      assert (E : skipn (k - (off + n)) (skipn n s) = skipn (k - off) s).
      { rewrite skipn_skipn_add. f_equal. lia. }
      rewrite E in *. split; [lia|]. split; [auto|]. split; [auto|]. split; [lia|]. auto.
  - pose proof (best_le _ _ _ _ H0) as Hn.
    eapply Forall_impl; [|exact IHline_toks].
    intros t [Hl (k & Hk & Hc0 & Hc1 & Hb & Hne & Htx & Hlf)]. split; auto.
    exists k. rewrite skipn_length in Hb.
    assert (E : skipn (k - (off + n)) (skipn n s) = skipn (k - off) s).
    { rewrite skipn_skipn_add. f_equal. lia. }
    rewrite E in *. split; [lia|]. split; [auto|]. split; [auto|]. split; [lia|]. auto.
Qed.

(* ---- symbols of line tokens come from the table ---- *)
Lemma choice_symbol : forall T s n sy,
  longest_first_choice (all_pats T) s n (Some sy) -> In sy (symbols_of T).
Proof.
  intros T s n sy (_ & before & p & after & Hps & _ & Hs & _).
  assert (Hin : In p (all_pats T)) by (rewrite Hps; apply in_or_app; right; left; auto).
  unfold all_pats in Hin. unfold symbols_of. apply in_or_app. apply in_app_or in Hin.
  destruct Hin as [Hin|Hin]; apply in_map_iff in Hin; destruct Hin as (x & <- & Hx); simpl in Hs.
  - left. injection Hs as <-. apply in_map. auto.
  - right. apply in_flat_map. exists x. split; auto. rewrite Hs. left; auto.
Qed.

Lemma reserved_free_lexical : forall T sy t,
  reserved_free T = true -> In sy (symbols_of T) -> sym t = sy -> is_lexical t = true.
Proof.
  intros T sy t Hrf Hin <-. unfold reserved_free in Hrf. rewrite forallb_forall in Hrf.
  apply Hrf in Hin. unfold reserved in Hin. unfold is_lexical.
  rewrite !negb_orb in Hin. auto.
Qed.

Lemma line_toks_lexical : forall T ln off s ts,
  reserved_free T = true -> line_toks T ln off s ts -> Forall (fun t => is_lexical t = true) ts.
Proof.
  intros T ln off s ts Hrf H. apply line_toks_at in H. eapply Forall_impl; [|exact H].
  intros t [_ (k & _ & _ & _ & _ & _ & _ & Hlf)]. eapply reserved_free_lexical; eauto.
  eapply choice_symbol; eauto.
Qed.

(* ---- skipped matches are white space ---- *)
Lemma range_in_sound : forall ws r c,
  range_in ws r = true -> (fst r <=? c)%N && (c <=? snd r)%N = true -> in_ranges ws c = true.
Proof.
  intros ws r c H Hc. unfold range_in in H. unfold in_ranges.
  apply existsb_exists in H. destruct H as (q & Hq & Hq'). apply existsb_exists. exists q. split; auto.
  apply andb_prop in Hq' as [H1 H2]. apply andb_prop in Hc as [H3 H4].
  apply N.leb_le in H1, H2, H3, H4. apply andb_true_intro. split; apply N.leb_le; lia.
Qed.

Lemma only_ws_sound : forall ws r w rest,
  matches r w rest -> only_ws ws r = true -> Forall (fun c => in_ranges ws c = true) w.
Proof.
  intros ws r w rest H. induction H; simpl; intros Ho; auto.
  - apply andb_prop in Ho as [Hn Hf]. destruct neg; [discriminate|]. constructor; auto.
    unfold cls_mem in H. destruct (in_ranges rs c) eqn:E; [|discriminate].
    unfold in_ranges in E. apply existsb_exists in E.
    destruct E as (r & Hr & Hc). rewrite forallb_forall in Hf. eapply range_in_sound; eauto.
  - apply andb_prop in Ho as [H1 H2]. apply Forall_app. split; auto.
  - apply andb_prop in Ho as [H1 H2]. auto.
  - apply andb_prop in Ho as [H1 H2]. auto.
  - apply Forall_app. split; auto.
  - apply Forall_app. split; auto.
Qed.

Lemma skipped_is_ws : forall T s n,
  skips_only_ws T = true -> longest_first_choice (all_pats T) s n None -> all_ws T (firstn n s).
Proof.
  intros T s n Hsk (_ & before & p & after & Hps & Ha & Hs & _).
  assert (Hin : In p (all_pats T)) by (rewrite Hps; apply in_or_app; right; left; auto).
  unfold all_pats in Hin. apply in_app_or in Hin.
  destruct Hin as [Hin|Hin]; apply in_map_iff in Hin; destruct Hin as (x & <- & Hx); simpl in Hs.
  - discriminate.
  - simpl in Ha. destruct Ha as [_ Hm]. unfold skips_only_ws in Hsk. rewrite forallb_forall in Hsk.
    apply Hsk in Hx. rewrite Hs in Hx. unfold all_ws, is_ws. eapply only_ws_sound; eauto.
Qed.

Lemma cover_extend_gap : forall T g col rest ts,
  all_ws T g -> line_cover T (col + length g) rest ts -> line_cover T col (g ++ rest) ts.
Proof.
  intros T g col rest ts Hg H. inversion H; subst.
  - constructor. apply Forall_app. auto.
  - rewrite app_assoc. constructor; auto.
    + apply Forall_app. auto.
    + rewrite app_length. lia.
Qed.

Lemma line_toks_cover : forall T ln off s ts,
  skips_only_ws T = true -> line_toks T ln off s ts -> line_cover T (S off) s ts.
Proof.
  intros T ln off s ts Hsk H. induction H.
  - constructor. constructor.
  - pose proof (best_le _ _ _ _ H0) as Hn.
    assert (Hlen : length (firstn n s) = n) by (rewrite firstn_length; lia).
    rewrite <- (firstn_skipn n s) at 1.
    change (firstn n s ++ skipn n s) with ([] ++ firstn n s ++ skipn n s).
    set (t := mkTok sy (firstn n s) ln (S off) (S (off + n))).
    change (firstn n s) with (text t). constructor; simpl; auto; try lia.
    + constructor.
    + intros E. rewrite E in Hlen. simpl in Hlen. lia.
  - pose proof (best_le _ _ _ _ H0) as Hn.
    assert (Hlen : length (firstn n s) = n) by (rewrite firstn_length; lia).
    rewrite <- (firstn_skipn n s). apply cover_extend_gap.
    + apply skipped_is_ws; auto. apply best_spec in H0. destruct H0 as [(-> & _)|H0]; [lia|auto].
    + rewrite Hlen. replace (S off + n) with (S (off + n)) by lia. auto.
Qed.
