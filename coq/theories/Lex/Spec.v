(* Declarative notions used in the statements of the C10 theorems (definitions only). *)
From Coq Require Import NArith List Bool Arith PeanoNat.
Import ListNotations.
Require Import EmbossV.Lex.Regex EmbossV.Lex.Tokenizer.

(* ---- what a pattern accepts at the start of s: a prefix of length m ---- *)
Definition pat_accepts (p : pattern) (s : str) (m : nat) : Prop :=
  match p with
  | PLit l => m = length l /\ firstn m s = l /\ m <= length s
  | PRe r _ => pref r s m            (* m <= |s| and r matches s[0:m] followed by s[m:] *)
  end.

(* (n, o) is the longest-first choice of the pattern list ps at s:
   some pattern p accepts n > 0 characters and carries symbol o, no pattern of the
   list accepts more than n, and every EARLIER pattern accepts strictly less. *)
Definition longest_first_choice (ps : list pattern) (s : str) (n : nat) (o : option str) : Prop :=
  0 < n /\
  exists before p after,
    ps = before ++ p :: after /\
    pat_accepts p s n /\ pat_sym p = o /\
    (forall q m, In q ps -> pat_accepts q s m -> m <= n) /\
    (forall q m, In q before -> pat_accepts q s m -> m < n).

(* nothing in the table accepts a non-empty prefix *)
Definition nothing_matches (ps : list pattern) (s : str) : Prop :=
  forall q m, In q ps -> pat_accepts q s m -> m = 0.

(* ---- token classes ---- *)
Definition is_lexical (t : token) : bool :=
  negb (str_eqb (sym t) indent_sym) && negb (str_eqb (sym t) dedent_sym) && negb (str_eqb (sym t) newline_sym).

Definition on_line (l : nat) (ts : list token) : list token := filter (fun t => line t =? l) ts.
Definition lexical_on_line (l : nat) (ts : list token) : list token := filter is_lexical (on_line l ts).

Definition all_ws (T : table) (w : str) : Prop := Forall (fun c => is_ws T c = true) w.

(* the lexical tokens ts, in order, and white-space gaps rebuild the text starting at column col *)
Inductive line_cover (T : table) : nat -> str -> list token -> Prop :=
| LC_end : forall col rest, all_ws T rest -> line_cover T col rest []
| LC_tok : forall col gap t rest ts,
    all_ws T gap ->
    text t <> [] ->
    c0 t = col + length gap ->
    c1 t = c0 t + length (text t) ->
    line_cover T (c1 t) rest ts ->
    line_cover T col (gap ++ text t ++ rest) (t :: ts).

(* the token's text is the slice [c0-1, c1-1) of line L *)
Definition slice_of (L : str) (t : token) : Prop :=
  1 <= c0 t /\ c1 t = c0 t + length (text t) /\ c1 t <= S (length L) /\
  text t = firstn (length (text t)) (skipn (c0 t - 1) L).

(* ---- the guards on a table ---- *)
Definition symbols_of (T : table) : list str :=
  map quote (lits T) ++ flat_map (fun p => match snd p with Some s => [s] | None => [] end) (pats T).

Definition reserved (s : str) : bool :=
  str_eqb s indent_sym || str_eqb s dedent_sym || str_eqb s newline_sym.

(* no pattern yields Indent, Dedent or "\n" (true of the Emboss table; checked on the regenerated table) *)
Definition reserved_free (T : table) : bool := forallb (fun s => negb (reserved s)) (symbols_of T).

(* every character class occurring in r is inside the white-space ranges (syntactic, sufficient) *)
Definition range_in (rs : list (N * N)) (r : N * N) : bool :=
  existsb (fun q => (fst q <=? fst r)%N && (snd r <=? snd q)%N) rs.

Fixpoint only_ws (ws : list (N * N)) (r : re) : bool :=
  match r with
  | Nul | Eps | Eol => true
  | Chr neg rs => negb neg && forallb (range_in ws) rs
  | Cat a b | Alt a b => only_ws ws a && only_ws ws b
  | Star a | Rep a _ _ => only_ws ws a
  end.

(* patterns that emit no token consume white space only *)
Definition skips_only_ws (T : table) : bool :=
  forallb (fun p => match snd p with None => only_ws (wsr T) (fst p) | Some _ => true end) (pats T).

(* ---- replaying Indent / Dedent tokens on a stack of open indentation strings (top first) ---- *)
Fixpoint run_stack (st : list str) (ts : list token) : option (list str) :=
  match ts with
  | [] => Some st
  | t :: ts' =>
      if str_eqb (sym t) indent_sym then
        match st with
        | top :: _ => run_stack ((top ++ text t) :: st) ts'
        | [] => None
        end
      else if str_eqb (sym t) dedent_sym then
        match st with
        | _ :: ((_ :: _) as st') => run_stack st' ts'
        | _ => None                       (* would close the outermost level *)
        end
      else run_stack st ts'
  end.

Definition count_sym (s : str) (ts : list token) : nat :=
  length (filter (fun t => str_eqb (sym t) s) ts).

Definition is_prefix (p s : str) : Prop := exists t, s = p ++ t.

(* a significant line: has a lexical token that is not a Comment *)
Definition significant (ts : list token) : Prop :=
  exists t, In t ts /\ sym t <> comment_sym.

(* ---- line terminators ---- *)
Definition is_terminator (w : str) : Prop :=
  w = [13; 10]%N \/ exists c, w = [c] /\ is_break c = true.

Definition no_break (L : str) : Prop := Forall (fun c => is_break c = false) L.
