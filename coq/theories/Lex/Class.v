(* Language-reference rules for names (doc/language-reference.md, "Names") as character
   predicates, and the reference regexes in the shape the translator produces (definitions only). *)
From Coq Require Import NArith List Bool.
Import ListNotations.
Require Import EmbossV.Lex.Regex.
Local Open Scope N_scope.

Definition lower (c : N) : Prop := 97 <= c <= 122.      (* a-z *)
Definition upper (c : N) : Prop := 65 <= c <= 90.       (* A-Z *)
Definition digit (c : N) : Prop := 48 <= c <= 57.       (* 0-9 *)
Definition under (c : N) : Prop := c = 95.              (* _ *)

(* "must start with a lower-case letter, and may only contain lower-case letters, numbers, and underscore" *)
Definition is_snake (w : str) : Prop :=
  exists c cs, w = c :: cs /\ lower c /\ Forall (fun x => lower x \/ under x \/ digit x) cs.

(* "must start with a capital letter, contain at least one lower-case letter, and contain only letters and digits" *)
Definition is_camel (w : str) : Prop :=
  exists c cs, w = c :: cs /\ upper c /\
    Forall (fun x => lower x \/ upper x \/ digit x) cs /\ Exists lower cs.

(* the ShoutyWord regex: capital first, then capitals/digits/underscore with at least one more capital or underscore *)
Definition is_shouty (w : str) : Prop :=
  exists c cs, w = c :: cs /\ upper c /\
    Forall (fun x => upper x \/ under x \/ digit x) cs /\ Exists (fun x => upper x \/ under x) cs.

(* the PROSE of the reference: "must start with a capital letter, may only contain capital letters,
   numbers, and underscore, and must be at least two characters long" *)
Definition is_shouty_prose (w : str) : Prop :=
  exists c cs, w = c :: cs /\ upper c /\
    Forall (fun x => upper x \/ under x \/ digit x) cs /\ (2 <= length w)%nat.

Definition cls_lower : list (N * N) := [(97, 122)].
Definition cls_upper : list (N * N) := [(65, 90)].
Definition cls_snake_tail : list (N * N) := [(97, 122); (95, 95); (48, 57)].
Definition cls_shouty_tail : list (N * N) := [(65, 90); (95, 95); (48, 57)].
Definition cls_shouty_mid : list (N * N) := [(65, 90); (95, 95)].
Definition cls_alnum : list (N * N) := [(97, 122); (65, 90); (48, 57)].

(* [a-z][a-z_0-9]* *)
Definition re_snake : re := Cat (Chr false cls_lower) (Star (Chr false cls_snake_tail)).
(* [A-Z][A-Z_0-9]*[A-Z_][A-Z_0-9]* *)
Definition re_shouty : re :=
  Cat (Chr false cls_upper)
      (Cat (Star (Chr false cls_shouty_tail)) (Cat (Chr false cls_shouty_mid) (Star (Chr false cls_shouty_tail)))).
(* [A-Z][a-zA-Z0-9]*[a-z][a-zA-Z0-9]* *)
Definition re_camel : re :=
  Cat (Chr false cls_upper)
      (Cat (Star (Chr false cls_alnum)) (Cat (Chr false cls_lower) (Star (Chr false cls_alnum)))).

Definition snake_sym : str := [83;110;97;107;101;87;111;114;100].          (* SnakeWord *)
Definition camel_sym : str := [67;97;109;101;108;87;111;114;100].          (* CamelWord *)
Definition shouty_sym : str := [83;104;111;117;116;121;87;111;114;100].    (* ShoutyWord *)
Definition number_sym : str := [78;117;109;98;101;114].                    (* Number *)

(* ---- numeric constants (doc/language-reference.md, "Numeric Constant Formats") ---- *)
Definition hexdig (c : N) : Prop := digit c \/ 97 <= c <= 102 \/ 65 <= c <= 70.   (* 0-9 a-f A-F *)
Definition bindig (c : N) : Prop := 48 <= c <= 49.

(* one or more digits *)
Definition plain (P : N -> Prop) (w : str) : Prop := w <> [] /\ Forall P w.

(* a first group of 1..k digits followed by groups of exactly k digits, each introduced by '_' *)
Definition grouped (P : N -> Prop) (k : nat) (w : str) : Prop :=
  exists g0 gs, w = g0 ++ concat (map (cons 95) gs) /\
    (1 <= length g0 <= k)%nat /\ Forall P g0 /\
    Forall (fun g => length g = k /\ Forall P g) gs.

(* the documented formats: decimal with optional thousands separators; 0x / 0b with optional
   separators every 4 or every 8 digits (never mixed) *)
Definition is_number_doc (w : str) : Prop :=
  plain digit w \/ grouped digit 3 w \/
  (exists b, w = 48 :: 120 :: b /\ (plain hexdig b \/ grouped hexdig 4 b \/ grouped hexdig 8 b)) \/
  (exists b, w = 48 :: 98 :: b /\ (plain bindig b \/ grouped bindig 4 b \/ grouped bindig 8 b)).

(* what the Number patterns accept: additionally one '_' directly after 0x / 0b in the grouped forms *)
Definition opt_under (P : str -> Prop) (b : str) : Prop := P b \/ exists b', b = 95 :: b' /\ P b'.

Definition is_number (w : str) : Prop :=
  plain digit w \/ grouped digit 3 w \/
  (exists b, w = 48 :: 120 :: b /\
     (plain hexdig b \/ opt_under (grouped hexdig 4) b \/ opt_under (grouped hexdig 8) b)) \/
  (exists b, w = 48 :: 98 :: b /\
     (plain bindig b \/ opt_under (grouped bindig 4) b \/ opt_under (grouped bindig 8) b)).

Definition cls_digit : list (N * N) := [(48, 57)].
Definition cls_hex : list (N * N) := [(48, 57); (97, 102); (65, 70)].
Definition cls_bin : list (N * N) := [(48, 48); (49, 49)].
Definition chr1 (c : N) : re := Chr false [(c, c)].

(* X+ *)
Definition re_plain (X : list (N * N)) : re := Cat (Chr false X) (Star (Chr false X)).
(* X{1,k}(?:_X{k})* *)
Definition re_grouped (X : list (N * N)) (k : nat) : re :=
  Cat (Rep (Chr false X) 1 k) (Star (Cat (chr1 95) (Rep (Chr false X) k k))).
(* 0<p>R  and  0<p>_?R *)
Definition re_pref (p : N) (R : re) : re := Cat (chr1 48) (Cat (chr1 p) R).
Definition re_pref_u (p : N) (R : re) : re := Cat (chr1 48) (Cat (chr1 p) (Cat (Alt (chr1 95) Eps) R)).

(* the eight Number rows of the table, in order *)
Definition re_numbers : list re :=
  [ re_plain cls_digit; re_grouped cls_digit 3;
    Cat (chr1 48) (Cat (chr1 120) (re_plain cls_hex)); re_pref_u 120 (re_grouped cls_hex 4); re_pref_u 120 (re_grouped cls_hex 8);
    Cat (chr1 48) (Cat (chr1 98) (re_plain cls_bin)); re_pref_u 98 (re_grouped cls_bin 4); re_pref_u 98 (re_grouped cls_bin 8) ].
