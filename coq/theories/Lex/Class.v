(* Language-reference rules for names (doc/language-reference.md, "Names") as character
   predicates, and the reference regexes in the shape the translator produces (definitions only). *)
From Coq Require Import NArith List Bool.
Import ListNotations.
Require Import EmbossV.Lex.Regex.
Local Open Scope N_scope.

Definition lower (c : N) : Prop := 97 <= c <= 122.      (* a-z *)
Definition upper (c : N) : Prop := 65 <= c <= 90.       (* A-Z *)
Definition digit (c : N) : Prop := 48 <= c <= 57.       (* 0-9 *)
Definition under (c : N) : Prop := c = 95.              (* _ *)

(* "must start with a lower-case letter, and may only contain lower-case letters, numbers, and underscore" *)
Definition is_snake (w : str) : Prop :=
  exists c cs, w = c :: cs /\ lower c /\ Forall (fun x => lower x \/ under x \/ digit x) cs.

(* "must start with a capital letter, contain at least one lower-case letter, and contain only letters and digits" *)
Definition is_camel (w : str) : Prop :=
  exists c cs, w = c :: cs /\ upper c /\
    Forall (fun x => lower x \/ upper x \/ digit x) cs /\ Exists lower cs.

(* the ShoutyWord regex: capital first, then capitals/digits/underscore with at least one more capital or underscore *)
Definition is_shouty (w : str) : Prop :=
  exists c cs, w = c :: cs /\ upper c /\
    Forall (fun x => upper x \/ under x \/ digit x) cs /\ Exists (fun x => upper x \/ under x) cs.

(* the PROSE of the reference: "must start with a capital letter, may only contain capital letters,
   numbers, and underscore, and must be at least two characters long" *)
Definition is_shouty_prose (w : str) : Prop :=
  exists c cs, w = c :: cs /\ upper c /\
    Forall (fun x => upper x \/ under x \/ digit x) cs /\ (2 <= length w)%nat.

Definition cls_lower : list (N * N) := [(97, 122)].
Definition cls_upper : list (N * N) := [(65, 90)].
Definition cls_snake_tail : list (N * N) := [(97, 122); (95, 95); (48, 57)].
Definition cls_shouty_tail : list (N * N) := [(65, 90); (95, 95); (48, 57)].
Definition cls_shouty_mid : list (N * N) := [(65, 90); (95, 95)].
Definition cls_alnum : list (N * N) := [(97, 122); (65, 90); (48, 57)].

(* [a-z][a-z_0-9]* *)
Definition re_snake : re := Cat (Chr false cls_lower) (Star (Chr false cls_snake_tail)).
(* [A-Z][A-Z_0-9]*[A-Z_][A-Z_0-9]* *)
Definition re_shouty : re :=
  Cat (Chr false cls_upper)
      (Cat (Star (Chr false cls_shouty_tail)) (Cat (Chr false cls_shouty_mid) (Star (Chr false cls_shouty_tail)))).
(* [A-Z][a-zA-Z0-9]*[a-z][a-zA-Z0-9]* *)
Definition re_camel : re :=
  Cat (Chr false cls_upper)
      (Cat (Star (Chr false cls_alnum)) (Cat (Chr false cls_lower) (Star (Chr false cls_alnum)))).

Definition snake_sym : str := [83;110;97;107;101;87;111;114;100].          (* SnakeWord *)
Definition camel_sym : str := [67;97;109;101;108;87;111;114;100].          (* CamelWord *)
Definition shouty_sym : str := [83;104;111;117;116;121;87;111;114;100].    (* ShoutyWord *)
Definition number_sym : str := [78;117;109;98;101;114].                    (* Number *)
