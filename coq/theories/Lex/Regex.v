(* Regular expressions for exactly the subset of Python `re` syntax that
   compiler/front_end/tokenizer.py uses, with a Brzozowski-derivative matcher
   that returns the length of the LONGEST matching prefix.

   Strings are lists of Unicode code points (N).  A regex is matched against a
   prefix [w] of the input with the remaining input [rest] visible, because `$`
   looks at what follows: [matches r w rest].

   Main result: [longest_spec]. *)
From Coq Require Import NArith List Bool Lia Arith PeanoNat.
Import ListNotations.

Definition str := list N.

(* ---- character classes: a list of inclusive ranges, possibly negated ---- *)
Definition in_ranges (rs : list (N * N)) (c : N) : bool :=
  existsb (fun r => (fst r <=? c)%N && (c <=? snd r)%N) rs.

Definition cls_mem (neg : bool) (rs : list (N * N)) (c : N) : bool :=
  xorb neg (in_ranges rs c).

Inductive re :=
| Nul                                   (* matches nothing; only produced by derivatives *)
| Eps                                   (* empty string *)
| Eol                                   (* `$` : empty string, only at end of input *)
| Chr (neg : bool) (rs : list (N * N))  (* [..], [^..], single characters, `.`, \s *)
| Cat (a b : re)
| Alt (a b : re)
| Star (a : re)
| Rep (a : re) (m n : nat).             (* a{m,n} *)

Definition Plus (a : re) : re := Cat a (Star a).
Definition Opt (a : re) : re := Alt a Eps.

(* [matches r w rest]: r matches exactly w when w is followed by rest *)
Inductive matches : re -> str -> str -> Prop :=
| MEps : forall rest, matches Eps [] rest
| MEol : matches Eol [] []
| MChr : forall neg rs c rest, cls_mem neg rs c = true -> matches (Chr neg rs) [c] rest
| MCat : forall a b w1 w2 rest,
    matches a w1 (w2 ++ rest) -> matches b w2 rest -> matches (Cat a b) (w1 ++ w2) rest
| MAltL : forall a b w rest, matches a w rest -> matches (Alt a b) w rest
| MAltR : forall a b w rest, matches b w rest -> matches (Alt a b) w rest
| MStar0 : forall a rest, matches (Star a) [] rest
| MStarS : forall a w1 w2 rest,
    matches a w1 (w2 ++ rest) -> matches (Star a) w2 rest -> matches (Star a) (w1 ++ w2) rest
| MRep0 : forall a n rest, matches (Rep a 0 n) [] rest
| MRepS : forall a m n w1 w2 rest,
    matches a w1 (w2 ++ rest) -> matches (Rep a (pred m) n) w2 rest ->
    matches (Rep a m (S n)) (w1 ++ w2) rest.

(* ---- inversion principles as equivalences ---- *)
Lemma matches_nul : forall w r, matches Nul w r <-> False.
Proof. split; [intros H; inversion H|tauto]. Qed.

Lemma matches_eps : forall w r, matches Eps w r <-> w = [].
Proof. split; [intros H; inversion H; auto|intros ->; constructor]. Qed.

Lemma matches_eol : forall w r, matches Eol w r <-> w = [] /\ r = [].
Proof. split; [intros H; inversion H; auto|intros [-> ->]; constructor]. Qed.

Lemma matches_chr : forall neg rs w r,
  matches (Chr neg rs) w r <-> exists c, w = [c] /\ cls_mem neg rs c = true.
Proof.
  split; [intros H; inversion H; subst; eauto|intros (c & -> & H); constructor; auto].
Qed.

Lemma matches_cat : forall a b w r,
  matches (Cat a b) w r <->
  exists w1 w2, w = w1 ++ w2 /\ matches a w1 (w2 ++ r) /\ matches b w2 r.
Proof.
  split; [intros H; inversion H; subst; eauto|intros (w1 & w2 & -> & H1 & H2); constructor; auto].
Qed.

Lemma matches_alt : forall a b w r,
  matches (Alt a b) w r <-> matches a w r \/ matches b w r.
Proof.
  split; [intros H; inversion H; subst; auto|intros [H|H]; [apply MAltL|apply MAltR]; auto].
Qed.

Lemma matches_star : forall a w r,
  matches (Star a) w r <->
  w = [] \/ exists w1 w2, w = w1 ++ w2 /\ matches a w1 (w2 ++ r) /\ matches (Star a) w2 r.
Proof.
  split.
  - intros H; inversion H; subst; [left; auto|right; eauto].
  - intros [->|(w1 & w2 & -> & H1 & H2)]; [constructor|constructor; auto].
Qed.

Lemma matches_rep : forall a m n w r,
  matches (Rep a m n) w r <->
  (m = 0 /\ w = []) \/
  exists n' w1 w2, n = S n' /\ w = w1 ++ w2 /\ matches a w1 (w2 ++ r) /\
                   matches (Rep a (pred m) n') w2 r.
Proof.
  split.
  - intros H; inversion H; subst; [left; auto|right; eauto 8].
  - intros [[-> ->]|(n' & w1 & w2 & -> & -> & H1 & H2)]; [constructor|constructor; auto].
Qed.

(* ---- boolean equality on regexes (sound; used for ACI-normalisation and table comparison) ---- *)
Fixpoint ranges_eqb (a b : list (N * N)) : bool :=
  match a, b with
  | [], [] => true
  | (x1, y1) :: a', (x2, y2) :: b' => (x1 =? x2)%N && (y1 =? y2)%N && ranges_eqb a' b'
  | _, _ => false
  end.

Lemma ranges_eqb_eq : forall a b, ranges_eqb a b = true -> a = b.
Proof.
  induction a as [|[x1 y1] a IH]; destruct b as [|[x2 y2] b]; simpl; try discriminate; auto.
  intros H. apply andb_prop in H as [H H3]. apply andb_prop in H as [H1 H2].
  apply N.eqb_eq in H1, H2. subst. f_equal. auto.
Qed.

Lemma ranges_eqb_refl : forall a, ranges_eqb a a = true.
Proof. induction a as [|[x y] a IH]; simpl; auto. rewrite !N.eqb_refl, IH. auto. Qed.

Fixpoint re_eqb (a b : re) : bool :=
  match a, b with
  | Nul, Nul | Eps, Eps | Eol, Eol => true
  | Chr n1 r1, Chr n2 r2 => Bool.eqb n1 n2 && ranges_eqb r1 r2
  | Cat a1 a2, Cat b1 b2 | Alt a1 a2, Alt b1 b2 => re_eqb a1 b1 && re_eqb a2 b2
  | Star a1, Star b1 => re_eqb a1 b1
  | Rep a1 m1 n1, Rep b1 m2 n2 => re_eqb a1 b1 && (m1 =? m2) && (n1 =? n2)
  | _, _ => false
  end.

Lemma re_eqb_eq : forall a b, re_eqb a b = true -> a = b.
Proof.
  induction a; destruct b; simpl; try discriminate; auto; intros H.
  - apply andb_prop in H as [H1 H2]. apply Bool.eqb_prop in H1. apply ranges_eqb_eq in H2. subst; auto.
  - apply andb_prop in H as [H1 H2]. f_equal; auto.
  - apply andb_prop in H as [H1 H2]. f_equal; auto.
  - f_equal; auto.
  - apply andb_prop in H as [H H3]. apply andb_prop in H as [H1 H2].
    apply Nat.eqb_eq in H2, H3. subst. f_equal; auto.
Qed.

Lemma re_eqb_refl : forall a, re_eqb a a = true.
Proof.
  induction a; simpl; auto.
  - rewrite Bool.eqb_reflx, ranges_eqb_refl; auto.
  - rewrite IHa1, IHa2; auto.
  - rewrite IHa1, IHa2; auto.
  - rewrite IHa, !Nat.eqb_refl; auto.
Qed.

(* ---- nullability; [e] = "the remaining input is empty" ---- *)
Fixpoint nullable (e : bool) (r : re) : bool :=
  match r with
  | Nul => false
  | Eps => true
  | Eol => e
  | Chr _ _ => false
  | Cat a b => nullable e a && nullable e b
  | Alt a b => nullable e a || nullable e b
  | Star _ => true
  | Rep a m n => (m =? 0) || ((m <=? n) && nullable e a)
  end.

Definition is_nil {A} (l : list A) : bool := match l with [] => true | _ => false end.

Lemma rep_null_aux : forall a rest,
  forall n m, matches (Rep a m n) [] rest <-> m = 0 \/ (m <= n /\ matches a [] rest).
Proof.
  intros a rest. induction n as [|n IH]; intros m; rewrite matches_rep.
  - split.
    + intros [[-> _]|(n' & _ & _ & Hn & _)]; [auto|discriminate].
    + intros [->|[Hm Ha]]; [auto|]. left. split; [lia|auto].
  - split.
    + intros [[-> _]|(n' & w1 & w2 & Hn & Hw & H1 & H2)]; [auto|].
      injection Hn as <-. symmetry in Hw. apply app_eq_nil in Hw as [-> ->].
      simpl in H1. apply IH in H2. right. split; [lia|auto].
    + intros [->|[Hm Ha]]; [auto|]. right. exists n, [], []. simpl.
      repeat split; auto. apply IH. destruct m as [|m]; [auto|]. right. simpl. split; [lia|auto].
Qed.

Lemma nullable_spec : forall r rest, matches r [] rest <-> nullable (is_nil rest) r = true.
Proof.
  induction r; intros rest; simpl.
  - rewrite matches_nul. split; [tauto|discriminate].
  - rewrite matches_eps. tauto.
  - rewrite matches_eol. destruct rest; simpl; split; auto; try discriminate. intros [_ H]; discriminate.
  - rewrite matches_chr. split; [intros (c & H & _); discriminate|discriminate].
  - rewrite matches_cat, andb_true_iff, <- IHr1, <- IHr2. split.
    + intros (w1 & w2 & Hw & H1 & H2). symmetry in Hw. apply app_eq_nil in Hw as [-> ->]. auto.
    + intros [H1 H2]. exists [], []. auto.
  - rewrite matches_alt, orb_true_iff, <- IHr1, <- IHr2. tauto.
  - split; auto. intros _. constructor.
  - rewrite rep_null_aux, orb_true_iff, andb_true_iff, Nat.eqb_eq, Nat.leb_le, <- IHr. tauto.
Qed.

Lemma nullable_mono : forall r, nullable false r = true -> nullable true r = true.
Proof.
  induction r; simpl; auto; intros H.
  - apply andb_prop in H as [H1 H2]. rewrite IHr1, IHr2; auto.
  - apply orb_prop in H as [H|H]; [rewrite IHr1|rewrite IHr2]; auto using orb_true_r.
  - apply orb_prop in H as [H|H]; [rewrite H; auto|].
    apply andb_prop in H as [H1 H2]. rewrite H1, IHr; auto using orb_true_r.
Qed.

Lemma nullable_any : forall r e, nullable false r = true -> nullable e r = true.
Proof. intros r [|]; auto using nullable_mono. Qed.

(* ---- smart constructors: Alt is kept flat and duplicate-free (ACI), Nul/Eps absorbed ---- *)
Fixpoint alt_mem (x a : re) : bool :=
  re_eqb x a || match a with Alt a1 a2 => alt_mem x a1 || alt_mem x a2 | _ => false end.

Definition alt1 (a b : re) : re :=
  match a, b with
  | Nul, _ => b
  | _, Nul => a
  | _, _ => if alt_mem b a then a else Alt a b
  end.

Fixpoint alt (a b : re) : re :=
  match b with
  | Alt b1 b2 => alt (alt a b1) b2
  | _ => alt1 a b
  end.

Definition cat (a b : re) : re :=
  match a with
  | Nul => Nul
  | Eps => b
  | _ => match b with Nul => Nul | _ => Cat a b end
  end.

Lemma alt_mem_sound : forall x a w r, alt_mem x a = true -> matches x w r -> matches a w r.
Proof.
  induction a; simpl; intros w r H Hm;
    try (rewrite orb_false_r in H; apply re_eqb_eq in H; subst; assumption).
  apply orb_prop in H as [H|H]; [apply re_eqb_eq in H; subst; assumption|].
  apply orb_prop in H as [H|H]; [apply MAltL|apply MAltR]; auto.
Qed.

Lemma alt1_ok : forall a b w r, matches (alt1 a b) w r <-> matches a w r \/ matches b w r.
Proof.
  intros a b w r.
  assert (G : matches (if alt_mem b a then a else Alt a b) w r <-> matches a w r \/ matches b w r).
  { destruct (alt_mem b a) eqn:E.
    - split; auto. intros [H|H]; auto. eapply alt_mem_sound; eauto.
    - apply matches_alt. }
  destruct a; simpl; try (rewrite matches_nul; tauto);
    destruct b; try exact G; rewrite ?matches_nul; tauto.
Qed.

Lemma alt_ok : forall b a w r, matches (alt a b) w r <-> matches a w r \/ matches b w r.
Proof.
  induction b; intros a0 w r; try apply alt1_ok.
  simpl. rewrite IHb2, IHb1, matches_alt. tauto.
Qed.

Lemma cat_ok : forall a b w r, matches (cat a b) w r <-> matches (Cat a b) w r.
Proof.
  intros a b w r.
  assert (G : matches (match b with Nul => Nul | _ => Cat a b end) w r <-> matches (Cat a b) w r).
  { destruct b; try tauto. rewrite matches_cat, matches_nul. split; [tauto|].
    intros (w1 & w2 & _ & _ & H). inversion H. }
  destruct a; try exact G; simpl.
  - rewrite matches_cat, matches_nul. split; [tauto|]. intros (w1 & w2 & _ & H & _). inversion H.
  - rewrite matches_cat. split.
    + intros H. exists [], w. split; auto. split; [constructor|auto].
    + intros (w1 & w2 & -> & H1 & H2). apply matches_eps in H1. subst. auto.
Qed.

(* ---- derivative ---- *)
Fixpoint deriv (c : N) (r : re) : re :=
  match r with
  | Nul | Eps | Eol => Nul
  | Chr neg rs => if cls_mem neg rs c then Eps else Nul
  | Cat a b => alt (cat (deriv c a) b) (if nullable false a then deriv c b else Nul)
  | Alt a b => alt (deriv c a) (deriv c b)
  | Star a => cat (deriv c a) (Star a)
  | Rep a m n => match n with 0 => Nul | S n' => cat (deriv c a) (Rep a (pred m) n') end
  end.

Lemma star_cons : forall a x rest, matches (Star a) x rest ->
  forall c w, x = c :: w ->
  exists w1 w2, w = w1 ++ w2 /\ matches a (c :: w1) (w2 ++ rest) /\ matches (Star a) w2 rest.
Proof.
  intros a x rest H. remember (Star a) as r eqn:Er. revert Er.
  induction H; intros Er; try discriminate; injection Er as ->; intros c w Hx.
  destruct w1 as [|c1 w1].
  - simpl in Hx. apply IHmatches2; auto.
  - simpl in Hx. injection Hx as -> <-. exists w1, w2. auto.
Qed.

Lemma nullable_matches_any : forall a rest rest', matches a [] rest -> rest <> [] -> matches a [] rest'.
Proof.
  intros a rest rest' H Hne. apply nullable_spec. apply nullable_spec in H.
  destruct rest; [congruence|]. simpl in H. apply nullable_any; auto.
Qed.

Lemma rep_cons : forall a c rest n m w, matches (Rep a m n) (c :: w) rest ->
  exists n' w1 w2, n = S n' /\ w = w1 ++ w2 /\ matches a (c :: w1) (w2 ++ rest) /\
                   matches (Rep a (pred m) n') w2 rest.
Proof.
  intros a c rest. induction n as [|n IH]; intros m w H; apply matches_rep in H.
  - destruct H as [[_ H]|(n' & _ & _ & H & _)]; discriminate.
  - destruct H as [[_ H]|(n' & w1 & w2 & Hn & Hw & H1 & H2)]; [discriminate|].
    injection Hn as <-. destruct w1 as [|c1 w1]; simpl in Hw.
    + subst w2. apply IH in H2. destruct H2 as (n'' & w1 & w2 & -> & -> & Ha & Hr).
      exists (S n''), w1, w2. repeat split; auto.
      change w2 with ([] ++ w2). constructor; auto.
      simpl. eapply nullable_matches_any; [exact H1|]. simpl. discriminate.
    + injection Hw as <- ->. exists n, w1, w2. auto.
Qed.

Lemma deriv_spec : forall r c w rest, matches r (c :: w) rest <-> matches (deriv c r) w rest.
Proof.
  induction r; intros c w rest; simpl.
  - rewrite !matches_nul. tauto.
  - rewrite matches_eps, matches_nul. split; [discriminate|tauto].
  - rewrite matches_eol, matches_nul. split; [intros [H _]; discriminate|tauto].
  - rewrite matches_chr. destruct (cls_mem neg rs c) eqn:E.
    + rewrite matches_eps. split.
      * intros (c' & H & _). injection H as _ ->. auto.
      * intros ->. eauto.
    + rewrite matches_nul. split; [|tauto]. intros (c' & H & H'). injection H as -> _. congruence.
  - rewrite alt_ok, cat_ok, !matches_cat. split.
    + intros (w1 & w2 & Hw & H1 & H2). destruct w1 as [|c1 w1]; simpl in Hw.
      * subst w2. right. apply nullable_spec in H1. simpl in H1. rewrite H1. apply IHr2; auto.
      * injection Hw as <- ->. left. exists w1, w2. split; auto. split; auto. apply IHr1; auto.
    + intros [(w1 & w2 & -> & H1 & H2)|H].
      * exists (c :: w1), w2. split; auto. split; auto. apply IHr1; auto.
      * destruct (nullable false r1) eqn:E; [|inversion H].
        exists [], (c :: w). split; auto. split; [|apply IHr2; auto].
        apply nullable_spec. simpl. auto.
  - rewrite alt_ok, !matches_alt, IHr1, IHr2. tauto.
  - rewrite cat_ok, matches_cat. split.
    + intros H. destruct (star_cons _ _ _ H c w eq_refl) as (w1 & w2 & -> & H1 & H2).
      exists w1, w2. split; auto. split; auto. apply IHr; auto.
    + intros (w1 & w2 & -> & H1 & H2). change (c :: w1 ++ w2) with ((c :: w1) ++ w2).
      constructor; auto. apply IHr; auto.
  - split.
    + intros H. apply rep_cons in H. destruct H as (n' & w1 & w2 & -> & -> & H1 & H2).
      apply cat_ok, matches_cat. exists w1, w2. split; auto. split; auto. apply IHr; auto.
    + destruct n as [|n']; [intros H; inversion H|].
      intros H. apply cat_ok, matches_cat in H. destruct H as (w1 & w2 & -> & H1 & H2).
      change (c :: w1 ++ w2) with ((c :: w1) ++ w2). constructor; auto. apply IHr; auto.
Qed.

(* ---- longest matching prefix ---- *)
Definition is_nul (r : re) : bool := match r with Nul => true | _ => false end.

Fixpoint longest_go (r : re) (s : str) (pos : nat) (best : option nat) : option nat :=
  match s with
  | [] => if nullable true r then Some pos else best
  | c :: s' =>
      let best' := if nullable false r then Some pos else best in
      if is_nul r then best' else longest_go (deriv c r) s' (S pos) best'
  end.

Definition longest (r : re) (s : str) : option nat := longest_go r s 0 None.

(* r matches the prefix of length k of s (seeing the rest of s) *)
Definition pref (r : re) (s : str) (k : nat) : Prop :=
  k <= length s /\ matches r (firstn k s) (skipn k s).

Lemma pref_zero : forall r s, pref r s 0 <-> nullable (is_nil s) r = true.
Proof.
  intros r s. unfold pref. simpl. rewrite nullable_spec. split; [tauto|]. intros H; split; [lia|auto].
Qed.

Lemma pref_succ : forall r c s k, pref r (c :: s) (S k) <-> pref (deriv c r) s k.
Proof.
  intros r c s k. unfold pref. simpl. rewrite deriv_spec. split; intros [H1 H2]; split; auto; lia.
Qed.

Lemma pref_nul : forall s k, ~ pref Nul s k.
Proof. intros s k [_ H]. inversion H. Qed.

Lemma longest_go_spec : forall s r pos best,
  (longest_go r s pos best = best /\ forall k, ~ pref r s k) \/
  (exists k, longest_go r s pos best = Some (pos + k) /\ pref r s k /\ forall m, pref r s m -> m <= k).
Proof.
  induction s as [|c s IH]; intros r pos best; simpl.
  - destruct (nullable true r) eqn:E.
    + right. exists 0. rewrite Nat.add_0_r. split; auto. split; [apply pref_zero; auto|].
      intros m [Hm _]. simpl in Hm. lia.
    + left. split; auto. intros k [Hk Hm]. simpl in Hk. assert (k = 0) by lia. subst.
      simpl in Hm. apply nullable_spec in Hm. simpl in Hm. congruence.
  - destruct (is_nul r) eqn:En.
    + destruct r; try discriminate. simpl. left. split; auto. intros k. apply pref_nul.
    + set (best' := if nullable false r then Some pos else best).
      destruct (IH (deriv c r) (S pos) best') as [[Hres Hno]|(k & Hres & Hk & Hmax)].
      * rewrite Hres. unfold best'. destruct (nullable false r) eqn:E.
        -- right. exists 0. rewrite Nat.add_0_r. split; auto. split; [apply pref_zero; auto|].
           intros m Hm. destruct m as [|m]; [lia|]. apply pref_succ in Hm. exfalso. eapply Hno; eauto.
        -- left. split; auto. intros [|k] Hk.
           ++ apply pref_zero in Hk. simpl in Hk. congruence.
           ++ apply pref_succ in Hk. eapply Hno; eauto.
      * right. exists (S k). rewrite Hres. split; [f_equal; lia|]. split; [apply pref_succ; auto|].
        intros [|m] Hm; [lia|]. apply pref_succ in Hm. apply Hmax in Hm. lia.
Qed.

Lemma longest_some : forall r s n,
  longest r s = Some n <-> pref r s n /\ forall m, pref r s m -> m <= n.
Proof.
  intros r s n. unfold longest.
  destruct (longest_go_spec s r 0 None) as [[Hres Hno]|(k & Hres & Hk & Hmax)]; rewrite Hres; simpl.
  - split; [discriminate|]. intros [H _]. exfalso. eapply Hno; eauto.
  - split.
    + intros H. injection H as <-. auto.
    + intros [Hn Hmx]. f_equal. apply Hmx in Hk. apply Hmax in Hn. lia.
Qed.

Lemma longest_none : forall r s, longest r s = None <-> forall k, ~ pref r s k.
Proof.
  intros r s. unfold longest.
  destruct (longest_go_spec s r 0 None) as [[Hres Hno]|(k & Hres & Hk & Hmax)]; rewrite Hres; simpl.
  - tauto.
  - split; [discriminate|]. intros H. exfalso. eapply H; eauto.
Qed.

(* The statement of DESIGN.md Appendix B. *)
Lemma longest_spec_proof : forall r s n,
  longest r s = Some n <->
  n <= length s /\ matches r (firstn n s) (skipn n s) /\
  forall m, n < m <= length s -> ~ matches r (firstn m s) (skipn m s).
Proof.
  intros r s n. rewrite longest_some. unfold pref. split.
  - intros [[H1 H2] H3]. repeat split; auto. intros m [Hm1 Hm2] Hm.
    assert (m <= n) by (apply H3; auto). lia.
  - intros (H1 & H2 & H3). split; auto. intros m [Hm1 Hm2].
    destruct (le_lt_dec m n); auto. exfalso. apply (H3 m); auto.
Qed.

Lemma longest_le : forall r s n, longest r s = Some n -> n <= length s.
Proof. intros r s n H. apply longest_some in H. destruct H as [[H _] _]. auto. Qed.
