(* C11, handler level: the formatter never fails on trees of the grammar (proofs about Lex/FmtTyping.v).
   Part 1: sets of names, subtyping.  Part 2: every combinator keeps rows narrow / blocks well-kinded.
   Part 3: soundness of the type inference [ety] for the handler DSL.  Part 4: trees. *)
From Coq Require Import NArith List Bool Arith PeanoNat Lia.
Import ListNotations.
Require Import EmbossV.Lex.Regex EmbossV.Lex.FmtModel EmbossV.Lex.FmtProofs EmbossV.Lex.FmtTyping.

(* ---------- Part 1 ---------- *)
Lemma seqb_eq : forall a b, seqb a b = true <-> a = b.
Proof.
  induction a as [|x a IH]; destruct b as [|y b]; simpl; split; intro H; try discriminate; try reflexivity.
  - apply andb_true_iff in H. destruct H as [H1 H2]. apply N.eqb_eq in H1. apply IH in H2. subst. reflexivity.
  - inv H. rewrite N.eqb_refl. simpl. apply IH. reflexivity.
Qed.
Lemma seqb_refl : forall a, seqb a a = true.
Proof. intro. apply seqb_eq. reflexivity. Qed.

Lemma mem_str_In : forall s l, mem_str s l = true <-> In s l.
Proof.
  induction l as [|x l IH]; simpl; split; intro H; try discriminate; try contradiction.
  - apply orb_true_iff in H. destruct H as [H|H]; [left; symmetry; apply seqb_eq; exact H|right; apply IH; exact H].
  - apply orb_true_iff. destruct H as [H|H]; [left; apply seqb_eq; symmetry; exact H|right; apply IH; exact H].
Qed.

Lemma kadd_in : forall x k ks, In x (kadd k ks) <-> x = k \/ In x ks.
Proof.
  intros. unfold kadd. destruct (mem_str k ks) eqn:E.
  - apply mem_str_In in E. split; [auto|]. intros [->|H]; assumption.
  - simpl. split; intros [H|H]; auto.
Qed.
Lemma kunion_in : forall x a b, In x (kunion a b) <-> In x a \/ In x b.
Proof.
  induction a as [|k a IH]; intro b; simpl.
  - split; [auto|]. intros [[]|H]; exact H.
  - rewrite kadd_in, IH. split; [intros [H|[H|H]]|intros [[H|H]|H]]; auto.
Qed.
Lemma ksubset_in : forall a b, ksubset a b = true -> forall x, In x a -> In x b.
Proof.
  unfold ksubset. intros a b H x Hx. rewrite forallb_forall in H. apply mem_str_In. apply H. exact Hx.
Qed.

Lemma block_ok_mono : forall k1 k2 b, (forall x, In x k1 -> In x k2) -> block_ok k1 b = true -> block_ok k2 b = true.
Proof.
  unfold block_ok. intros k1 k2 b H Hb. apply andb_true_iff in Hb. destruct Hb as [Hb H3]. rewrite Hb. simpl.
  apply mem_str_In. apply H. apply mem_str_In. exact H3.
Qed.
Lemma blocks_ok_mono : forall k1 k2 bs, (forall x, In x k1 -> In x k2) ->
  forallb (block_ok k1) bs = true -> forallb (block_ok k2) bs = true.
Proof.
  intros k1 k2 bs H. induction bs as [|b bs IH]; simpl; [reflexivity|]. intro Hb.
  apply andb_true_iff in Hb. destruct Hb as [H1 H2]. rewrite (block_ok_mono _ _ _ H H1), (IH H2). reflexivity.
Qed.

(* lists of items *)
Lemma as_rows_map : forall rs, as_rows (map IRow rs) = Some rs.
Proof. induction rs as [|r rs IH]; [reflexivity|]. simpl. rewrite IH. reflexivity. Qed.
Lemma as_blocks_map : forall bs, as_blocks (map IBlock bs) = Some bs.
Proof. induction bs as [|r rs IH]; [reflexivity|]. simpl. rewrite IH. reflexivity. Qed.
Lemma as_rowss_map : forall rss, as_rowss (map IRows rss) = Some rss.
Proof. induction rss as [|r rs IH]; [reflexivity|]. simpl. rewrite IH. reflexivity. Qed.

Lemma as_strs_inv : forall l ss, as_strs l = Some ss -> l = map IStr ss.
Proof.
  induction l as [|i l IH]; simpl; intros ss H; [inv H; reflexivity|].
  destruct i; try discriminate. destruct (as_strs l); simpl in H; [|discriminate]. inv H. simpl. rewrite (IH _ eq_refl). reflexivity.
Qed.
Lemma as_rows_inv : forall l rs, as_rows l = Some rs -> l = map IRow rs.
Proof.
  induction l as [|i l IH]; simpl; intros ss H; [inv H; reflexivity|].
  destruct i; try discriminate. destruct (as_rows l); simpl in H; [|discriminate]. inv H. simpl. rewrite (IH _ eq_refl). reflexivity.
Qed.
Lemma as_blocks_inv : forall l bs, as_blocks l = Some bs -> l = map IBlock bs.
Proof.
  induction l as [|i l IH]; simpl; intros ss H; [inv H; reflexivity|].
  destruct i; try discriminate. destruct (as_blocks l); simpl in H; [|discriminate]. inv H. simpl. rewrite (IH _ eq_refl). reflexivity.
Qed.
Lemma as_rowss_inv : forall l rss, as_rowss l = Some rss -> l = map IRows rss.
Proof.
  induction l as [|i l IH]; simpl; intros ss H; [inv H; reflexivity|].
  destruct i; try discriminate. destruct (as_rowss l); simpl in H; [|discriminate]. inv H. simpl. rewrite (IH _ eq_refl). reflexivity.
Qed.

(* ---------- the views ---------- *)
Lemma view_rows : forall v t, has_ty v t = true -> ty_rows t = true ->
  exists rs, v = vrows rs /\ narrows rs = true.
Proof.
  intros v t H Ht. destruct t; try discriminate; destruct v; try discriminate; simpl in H.
  - destruct l; [|discriminate]. exists []. split; reflexivity.
  - destruct (as_rows l) as [rs|] eqn:E; [|discriminate]. exists rs. split; [|exact H].
    unfold vrows. rewrite (as_rows_inv _ _ E). reflexivity.
Qed.
Lemma view_strs : forall v t n, has_ty v t = true -> ty_strs t = Some n ->
  exists ss, v = vstrs ss /\ (forall k, n = Some k -> length ss = k).
Proof.
  intros v t n H Ht. destruct t; try discriminate; destruct v; try discriminate; simpl in H, Ht; inv Ht.
  - destruct l; [|discriminate]. exists []. split; [reflexivity|]. intros k Hk. inv Hk. reflexivity.
  - destruct (as_strs l) as [ss|] eqn:E; [|discriminate]. exists ss. split.
    + unfold vstrs. rewrite (as_strs_inv _ _ E). reflexivity.
    + intros k Hk. subst n. apply Nat.eqb_eq. exact H.
Qed.
Lemma view_blocks : forall v t ne ks, has_ty v t = true -> ty_blocks t = Some (ne, ks) ->
  exists bs, v = vblocks bs /\ forallb (block_ok ks) bs = true /\ (ne = true -> bs <> []).
Proof.
  intros v t ne ks H Ht. destruct t; try discriminate; destruct v; try discriminate; simpl in H, Ht; inv Ht.
  - destruct l; [|discriminate]. exists []. repeat split. discriminate.
  - destruct (as_blocks l) as [bs|] eqn:E; [|discriminate]. exists bs.
    apply andb_true_iff in H. destruct H as [H1 H2]. split; [|split; [exact H1|]].
    + unfold vblocks. rewrite (as_blocks_inv _ _ E). reflexivity.
    + intros ->. simpl in H2. destruct bs; [discriminate|discriminate].
Qed.
Lemma view_rowss : forall v t, has_ty v t = true -> ty_rowss t = true ->
  exists rss, v = VList (map IRows rss) /\ forallb narrows rss = true.
Proof.
  intros v t H Ht. destruct t; try discriminate; destruct v; try discriminate; simpl in H.
  - destruct l; [|discriminate]. exists []. split; reflexivity.
  - destruct (as_rowss l) as [rs|] eqn:E; [|discriminate]. exists rs. split; [|exact H].
    rewrite (as_rowss_inv _ _ E). reflexivity.
Qed.

Lemma ty_vrows : forall rs, narrows rs = true -> has_ty (vrows rs) TRows = true.
Proof. intros. unfold vrows. simpl. rewrite as_rows_map. assumption. Qed.
Lemma ty_vstrs : forall ss n, (forall k, n = Some k -> length ss = k) -> has_ty (vstrs ss) (TStrs n) = true.
Proof.
  intros. unfold vstrs. simpl. rewrite as_strs_map. destruct n as [k|]; [|reflexivity].
  apply Nat.eqb_eq. apply H. reflexivity.
Qed.
Lemma ty_vblocks : forall bs ne ks, forallb (block_ok ks) bs = true -> (ne = true -> bs <> []) ->
  has_ty (vblocks bs) (TBlocks ne ks) = true.
Proof.
  intros. unfold vblocks. simpl. rewrite as_blocks_map, H. simpl. destruct ne; [|reflexivity].
  destruct bs; [exfalso; apply H0; reflexivity|reflexivity].
Qed.
Lemma ty_vrowss : forall rss, forallb narrows rss = true -> has_ty (VList (map IRows rss)) TRowss = true.
Proof. intros. simpl. rewrite as_rowss_map. assumption. Qed.

Lemma get_rows_vrows : forall rs, get_rows (Some (vrows rs)) = Some rs.
Proof. intros. unfold vrows. simpl. apply as_rows_map. Qed.
Lemma get_blocks_vblocks : forall bs, get_blocks (Some (vblocks bs)) = Some bs.
Proof. intros. unfold vblocks. simpl. apply as_blocks_map. Qed.

(* ---------- subtyping ---------- *)
Lemma sub_sound : forall a b v, sub a b = true -> has_ty v a = true -> has_ty v b = true.
Proof.
  intros a b v Hs Hv. destruct a, b; simpl in Hs; try discriminate.
  - exact Hv.
  - exact Hv.
  - destruct v; try discriminate. simpl in Hv. destruct l; [|discriminate]. simpl.
    destruct n as [[|k]|]; try discriminate; reflexivity.
  - destruct v; try discriminate. simpl in Hv. destruct l; [|discriminate]. reflexivity.
  - destruct v; try discriminate. simpl in Hv. destruct l; [|discriminate]. simpl.
    destruct ne; [discriminate|reflexivity].
  - destruct v; try discriminate. simpl in Hv. destruct l; [|discriminate]. reflexivity.
  - destruct v; try discriminate. simpl in *. destruct (as_strs l); [|discriminate].
    destruct n0 as [m|]; [|reflexivity]. destruct n as [k|]; simpl in Hs; [|discriminate].
    apply Nat.eqb_eq in Hs. subst. exact Hv.
  - destruct v; try discriminate. simpl in *. apply andb_true_iff in Hs. destruct Hs as [H1 H2].
    apply andb_true_iff in Hv. destruct Hv as [H3 H4]. apply seqb_eq in H1. apply seqb_eq in H3. subst.
    rewrite seqb_refl. simpl. destruct nar0; [|reflexivity]. destruct nar; [exact H4|discriminate].
  - destruct v; try discriminate. simpl in *. apply seqb_eq in Hs. subst. exact Hv.
  - exact Hv.
  - destruct v; try discriminate. simpl in *. destruct (as_blocks l) as [bs|]; [|discriminate].
    apply andb_true_iff in Hs. destruct Hs as [H1 H2]. apply andb_true_iff in Hv. destruct Hv as [H3 H4].
    rewrite (blocks_ok_mono _ _ _ (ksubset_in _ _ H2) H3). simpl.
    destruct ne0; [|reflexivity]. destruct ne; [exact H4|discriminate].
  - exact Hv.
  - destruct v; try discriminate. simpl in *. apply andb_true_iff in Hv. destruct Hv as [H3 H4].
    rewrite H3, (blocks_ok_mono _ _ _ (ksubset_in _ _ Hs) H4). reflexivity.
Qed.

(* ---------- Part 2: the shared combinators ---------- *)
Lemma narrows_app : forall a b, narrows (a ++ b) = narrows a && narrows b.
Proof. intros. unfold narrows. apply forallb_app. Qed.

Lemma narrows_indent : forall l, narrows (indent_rows l) = narrows l.
Proof. induction l as [|r l IH]; [reflexivity|]. simpl. rewrite IH. reflexivity. Qed.

Lemma block_ok_indent : forall ks b, block_ok ks (indent_block b) = block_ok ks b.
Proof. intros. unfold block_ok, indent_block. simpl. rewrite !narrows_indent. reflexivity. Qed.
Lemma blocks_ok_indent : forall ks bs, forallb (block_ok ks) (indent_blocks bs) = forallb (block_ok ks) bs.
Proof. induction bs as [|b bs IH]; [reflexivity|]. simpl. rewrite IH, block_ok_indent. reflexivity. Qed.

Lemma narrows_intersperse_go : forall sep, narrows sep = true ->
  forall secs acc, forallb narrows secs = true -> narrows acc = true -> narrows (intersperse_go sep acc secs) = true.
Proof.
  intros sep Hs. induction secs as [|s secs IH]; intros acc H Ha; simpl; [exact Ha|].
  simpl in H. apply andb_true_iff in H. destruct H as [H1 H2].
  destruct s as [|r s']; [apply IH; assumption|].
  apply IH; [exact H2|]. destruct acc; [exact H1|]. rewrite !narrows_app, Ha, Hs, H1. reflexivity.
Qed.
Lemma narrows_intersperse : forall sep secs, narrows sep = true -> forallb narrows secs = true ->
  narrows (intersperse sep secs) = true.
Proof. intros. unfold intersperse. apply narrows_intersperse_go; auto. Qed.

Lemma narrows_drop_leading : forall l, narrows l = true -> narrows (drop_leading_empty l) = true.
Proof.
  induction l as [|r l IH]; [reflexivity|]. intro H. simpl. destruct (has_cols r); [exact H|].
  simpl in H. apply andb_true_iff in H. apply IH. apply H.
Qed.
Lemma narrows_drop_trailing : forall l, narrows l = true -> narrows (drop_trailing_empty l) = true.
Proof.
  induction l as [|r l IH]; [reflexivity|]. intro H. simpl in H. apply andb_true_iff in H. destruct H as [H1 H2].
  simpl. destruct (drop_trailing_empty l) eqn:E.
  - destruct (has_cols r); [simpl; rewrite H1; reflexivity|reflexivity].
  - change (narrows (r :: r0 :: l0)) with (narrow r && narrows (r0 :: l0)). rewrite H1, (IH H2). reflexivity.
Qed.
Lemma narrows_strip : forall l, narrows l = true -> narrows (strip_comment_lines l) = true.
Proof. intros. unfold strip_comment_lines. apply narrows_drop_trailing. apply narrows_drop_leading. assumption. Qed.

Lemma narrows_ibc : forall l, narrows (fst (ibc_go l)) = narrows l.
Proof.
  induction l as [|r l IH]; [reflexivity|]. simpl. destruct (ibc_go l) as [res pi]. simpl in IH.
  destruct (row_blank r || seqb (rname r) name_comment); simpl; rewrite IH; reflexivity.
Qed.
Lemma narrows_dedent : forall l pi pb, narrows (dedent_go pi pb l) = narrows l.
Proof.
  induction l as [|r l IH]; intros; [reflexivity|]. simpl.
  destruct ((rindent r <? pi) && negb pb && negb (row_blank r)); simpl; rewrite IH; reflexivity.
Qed.

Lemma narrows_columnize_block : forall ws iw ic all ks b, block_ok ks b = true ->
  narrows (columnize_block ws iw ic all b) = true.
Proof.
  intros. unfold block_ok in H. apply andb_true_iff in H. destruct H as [H H3]. apply andb_true_iff in H. destruct H as [H1 H2].
  unfold columnize_block. rewrite !narrows_app, H1, H2. reflexivity.
Qed.

Lemma distinct_names_spec : forall ks bs seen,
  NoDup seen -> (forall x, In x seen -> In x ks) -> forallb (block_ok ks) bs = true ->
  NoDup (distinct_names bs seen) /\ (forall x, In x (distinct_names bs seen) -> In x ks).
Proof.
  intros ks. induction bs as [|b bs IH]; intros seen Hn Hi Hb; simpl; [split; assumption|].
  simpl in Hb. apply andb_true_iff in Hb. destruct Hb as [Hb1 Hb2].
  destruct (mem_str (rname (bheader b)) seen) eqn:E; [apply IH; assumption|].
  apply IH; [| |exact Hb2].
  - constructor; [|exact Hn]. intro Hin. apply mem_str_In in Hin. rewrite Hin in E. discriminate.
  - intros x [<-|Hx]; [|apply Hi; exact Hx]. unfold block_ok in Hb1. apply andb_true_iff in Hb1. apply mem_str_In. apply Hb1.
Qed.

Lemma narrows_columnize_map : forall ws iw ic all ks bs, forallb (block_ok ks) bs = true ->
  forallb narrows (map (columnize_block ws iw ic all) bs) = true.
Proof.
  induction bs as [|b bs IH]; [reflexivity|]. simpl. intro Hb. apply andb_true_iff in Hb. destruct Hb as [H1 H2].
  rewrite (narrows_columnize_block ws iw ic all ks b H1), (IH H2). reflexivity.
Qed.

Lemma columnize_total : forall ws iw ic ks bs, length ks < 3 -> forallb (block_ok ks) bs = true ->
  exists rss, columnize ws iw ic bs = Some rss /\ forallb narrows rss = true.
Proof.
  intros ws iw ic ks bs Hk Hb. unfold columnize.
  destruct (distinct_names_spec ks bs [] (NoDup_nil _) (fun x (H : In x []) => match H with end) Hb) as [Hn Hi].
  pose proof (NoDup_incl_length Hn Hi) as Hl.
  assert (E : (length (distinct_names bs []) <? 3) = true) by (apply Nat.ltb_lt; lia). rewrite E.
  eexists. split; [reflexivity|]. apply (narrows_columnize_map ws iw ic bs ks bs Hb).
Qed.

Lemma render_rows_total : forall ws iw rows, narrows rows = true -> exists g, render_rows ws iw rows = Some g.
Proof.
  induction rows as [|r rows IH]; intro H; [exists []; reflexivity|].
  simpl in H. apply andb_true_iff in H. destruct H as [H1 H2]. destruct (IH H2) as [g E]. simpl. rewrite E.
  unfold render_row. unfold narrow in H1. destruct (rcols r) as [|c [|c' cs]]; try discriminate; eexists; reflexivity.
Qed.

(* ---------- Part 3: soundness of the type inference ---------- *)
Lemma have_tys_nth : forall args ts i t, have_tys args ts = true -> nth_error ts i = Some t ->
  exists v, nth_error args i = Some v /\ has_ty v t = true.
Proof.
  induction args as [|a args IH]; destruct ts as [|t0 ts]; simpl; intros i t H Hn; try discriminate.
  - destruct i; discriminate.
  - apply andb_true_iff in H. destruct H as [H1 H2]. destruct i; simpl in *.
    + inv Hn. eauto.
    + apply (IH ts i t H2 Hn).
Qed.
Lemma have_tys_length : forall args ts, have_tys args ts = true -> length args = length ts.
Proof.
  induction args as [|a args IH]; destruct ts as [|t0 ts]; simpl; intro H; try discriminate; [reflexivity|].
  apply andb_true_iff in H. f_equal. apply IH. apply H.
Qed.

Lemma tstr_inv : forall v t, has_ty v t = true -> is_tstr t = true -> exists s, v = VStr s.
Proof. intros v t H Ht. destruct t; try discriminate. destruct v; try discriminate. eauto. Qed.
Lemma tnil_inv : forall v t, has_ty v t = true -> is_tnil t = true -> v = VList [].
Proof. intros v t H Ht. destruct t; try discriminate. destruct v; try discriminate. simpl in H. destruct l; [reflexivity|discriminate]. Qed.

Lemma items_of_tstrs : forall args ts, have_tys args ts = true -> forallb is_tstr ts = true ->
  exists ss, items_of args = Some (map IStr ss) /\ length ss = length ts.
Proof.
  induction args as [|a args IH]; destruct ts as [|t0 ts]; simpl; intros H Hs; try discriminate.
  - exists []. split; reflexivity.
  - apply andb_true_iff in H. destruct H as [H1 H2]. apply andb_true_iff in Hs. destruct Hs as [H3 H4].
    destruct (tstr_inv _ _ H1 H3) as [s ->]. destruct (IH ts H2 H4) as [ss [E L]].
    exists (s :: ss). simpl. rewrite E, L. split; reflexivity.
Qed.

Lemma cty_total : forall args ts c, have_tys args ts = true -> cty ts c = true -> exists b, ceval args c = Some b.
Proof.
  intros args ts c Ha. induction c; simpl; intro H.
  - destruct (nth_error ts i) as [t|] eqn:E; [|discriminate]. destruct (have_tys_nth _ _ _ _ Ha E) as [v [Ev _]].
    rewrite Ev. simpl. eauto.
  - destruct (IHc H) as [b E]. rewrite E. simpl. eauto.
  - apply andb_true_iff in H. destruct H as [H1 H2]. destruct (IHc1 H1) as [b1 E1]. rewrite E1.
    destruct b1; [apply IHc2; exact H2|eauto].
  - destruct (nth_error ts i) as [t|] eqn:E; [|discriminate]. destruct (have_tys_nth _ _ _ _ Ha E) as [v [Ev _]].
    rewrite Ev. destruct v; eauto.
  - destruct (nth_error ts i) as [t|] eqn:E; [|discriminate]. destruct t; try discriminate.
    destruct (have_tys_nth _ _ _ _ Ha E) as [v [Ev Hv]]. rewrite Ev. destruct v; try discriminate. eauto.
  - destruct (nth_error ts i) as [t|] eqn:E; [|discriminate]. destruct (ty_blocks t) as [[ne ks]|] eqn:Eb; [|discriminate].
    destruct (have_tys_nth _ _ _ _ Ha E) as [v [Ev Hv]]. rewrite Ev.
    destruct (view_blocks _ _ _ _ Hv Eb) as [bs [-> _]]. unfold vblocks. rewrite as_blocks_map. simpl. eauto.
Qed.

Lemma oplus_some : forall n m k, oplus n m = Some k -> exists a b, n = Some a /\ m = Some b /\ k = a + b.
Proof. intros [a|] [b|] k H; simpl in H; try discriminate. inv H. eauto. Qed.

Lemma ty_add_sound : forall va vb ta tb t, has_ty va ta = true -> has_ty vb tb = true -> ty_add ta tb = Some t ->
  exists v, match va, vb with
            | VStr x, VStr y => Some (VStr (x ++ y))
            | VList x, VList y => Some (VList (x ++ y))
            | _, _ => None
            end = Some v /\ has_ty v t = true.
Proof.
  intros va vb ta tb t Ha Hb H. unfold ty_add in H.
  destruct (is_tstr ta && is_tstr tb) eqn:E1.
  { apply andb_true_iff in E1. destruct E1 as [X Y]. destruct (tstr_inv _ _ Ha X) as [x ->]. destruct (tstr_inv _ _ Hb Y) as [y ->].
    inv H. eauto. }
  destruct (is_tnil ta && is_tnil tb) eqn:E2.
  { apply andb_true_iff in E2. destruct E2 as [X Y]. rewrite (tnil_inv _ _ Ha X), (tnil_inv _ _ Hb Y). inv H. eauto. }
  destruct (ty_strs ta) as [n|] eqn:Sa; [destruct (ty_strs tb) as [m|] eqn:Sb|].
  { inv H. destruct (view_strs _ _ _ Ha Sa) as [s1 [-> L1]]. destruct (view_strs _ _ _ Hb Sb) as [s2 [-> L2]].
    unfold vstrs. rewrite <- map_app. eexists. split; [reflexivity|]. apply (ty_vstrs (s1 ++ s2)).
    intros k Hk. apply oplus_some in Hk. destruct Hk as [a [b [-> [-> ->]]]]. rewrite app_length, (L1 _ eq_refl), (L2 _ eq_refl). reflexivity. }
  all: (destruct (ty_rows ta && ty_rows tb) eqn:E3;
    [ apply andb_true_iff in E3; destruct E3 as [X Y]; inv H;
      destruct (view_rows _ _ Ha X) as [r1 [-> N1]]; destruct (view_rows _ _ Hb Y) as [r2 [-> N2]];
      unfold vrows; rewrite <- map_app; eexists; split; [reflexivity|]; apply (ty_vrows (r1 ++ r2));
      rewrite narrows_app, N1, N2; reflexivity |]).
  all: (destruct (ty_rowss ta && ty_rowss tb) eqn:E4;
    [ apply andb_true_iff in E4; destruct E4 as [X Y]; inv H;
      destruct (view_rowss _ _ Ha X) as [r1 [-> N1]]; destruct (view_rowss _ _ Hb Y) as [r2 [-> N2]];
      rewrite <- map_app; eexists; split; [reflexivity|]; apply (ty_vrowss (r1 ++ r2));
      rewrite forallb_app, N1, N2; reflexivity |]).
  all: (destruct (ty_blocks ta) as [[n1 k1]|] eqn:Ba; [|discriminate]; destruct (ty_blocks tb) as [[n2 k2]|] eqn:Bb; [|discriminate]; inv H;
        destruct (view_blocks _ _ _ _ Ha Ba) as [b1 [-> [O1 Q1]]]; destruct (view_blocks _ _ _ _ Hb Bb) as [b2 [-> [O2 Q2]]];
        unfold vblocks; rewrite <- map_app; eexists; split; [reflexivity|]; apply (ty_vblocks (b1 ++ b2));
        [ rewrite forallb_app; apply andb_true_iff; split;
          [ apply (blocks_ok_mono k1); [intros x Hx; apply kunion_in; left; exact Hx|exact O1]
          | apply (blocks_ok_mono k2); [intros x Hx; apply kunion_in; right; exact Hx|exact O2] ]
        | intros Hne Happ; apply app_eq_nil in Happ; destruct Happ as [-> ->]; apply orb_true_iff in Hne;
          destruct Hne as [Hne|Hne]; [apply (Q1 Hne); reflexivity|apply (Q2 Hne); reflexivity] ]).
Qed.

Lemma ty_cons_sound : forall va vl ta tl t, has_ty va ta = true -> has_ty vl tl = true -> ty_cons ta tl = Some t ->
  exists li i, vl = VList li /\ item_of va = Some i /\ has_ty (VList (i :: li)) t = true.
Proof.
  intros va vl ta tl t Ha Hl H. unfold ty_cons in H. destruct (ty_item ta) as [[| |k|]|] eqn:Ei; [| | | |discriminate].
  - destruct ta; try discriminate; [|destruct nar; discriminate]. destruct va; try discriminate.
    destruct (ty_strs tl) as [n|] eqn:Es; [|discriminate]. inv H. destruct (view_strs _ _ _ Hl Es) as [ss [-> L]].
    eexists. eexists. split; [reflexivity|]. split; [reflexivity|]. apply (ty_vstrs (s :: ss)).
    intros k Hk. destruct n as [m|]; [|discriminate]. inv Hk. simpl. rewrite (L _ eq_refl). reflexivity.
  - destruct ta; try discriminate. destruct nar; [|discriminate]. destruct va; try discriminate. simpl in Ha.
    apply andb_true_iff in Ha. destruct Ha as [_ Ha].
    destruct (ty_rows tl) eqn:Er; [|discriminate]. inv H. destruct (view_rows _ _ Hl Er) as [rs [-> Nr]].
    eexists. eexists. split; [reflexivity|]. split; [reflexivity|]. apply (ty_vrows (r :: rs)). simpl. rewrite Ha, Nr. reflexivity.
  - destruct ta; try discriminate; [destruct nar; discriminate|]. inv Ei. destruct va; try discriminate. simpl in Ha.
    destruct (ty_blocks tl) as [[ne ks]|] eqn:Eb; [|discriminate]. inv H. destruct (view_blocks _ _ _ _ Hl Eb) as [bs [-> [O _]]].
    eexists. eexists. split; [reflexivity|]. split; [reflexivity|]. apply (ty_vblocks (b :: bs)); [|discriminate].
    simpl. apply andb_true_iff. split.
    + apply (block_ok_mono [k]); [|exact Ha]. intros x [<-|[]]. apply kadd_in. left. reflexivity.
    + apply (blocks_ok_mono ks); [|exact O]. intros x Hx. apply kadd_in. right. exact Hx.
  - assert (Hr : ty_rows ta = true) by (destruct ta; try discriminate; try reflexivity; destruct nar; discriminate).
    destruct (view_rows _ _ Ha Hr) as [rs [-> Nr]].
    destruct (ty_rowss tl) eqn:Er; [|discriminate]. inv H. destruct (view_rowss _ _ Hl Er) as [rss [-> Nrs]].
    eexists. eexists. split; [reflexivity|]. split; [unfold vrows; simpl; rewrite as_rows_map; reflexivity|].
    apply (ty_vrowss (rs :: rss)). simpl. rewrite Nr, Nrs. reflexivity.
Qed.

Section Sound.
Variable ws : N -> bool.
Variable iw : nat.

Ltac ob H := unfold obind in H; cbv beta in H.
Local Arguments has_ty : simpl never.
Ltac useIH IH E A v Ev Hv := destruct (IH _ E A) as [v [Ev Hv]].

Lemma ety_sound : forall args ts, have_tys args ts = true ->
  forall e t, ety ts e = Some t -> Forall (fun c => ceval args c = Some true) (asserted e) ->
  exists v, eval ws iw args e = Some v /\ has_ty v t = true.
Proof.
  intros args ts Ha. induction e; intros t H A; simpl in H, A; ob H.
  - (* EArg *) apply (have_tys_nth _ _ _ _ Ha H).
  - (* EArgs *) destruct (forallb is_tstr ts) eqn:E; [|discriminate]. inv H.
    destruct (items_of_tstrs _ _ Ha E) as [ss [Es L]]. simpl. rewrite Es. simpl. exists (vstrs ss). split; [reflexivity|].
    apply ty_vstrs. intros k Hk. inv Hk. exact L.
  - (* ELit *) inv H. simpl. eauto.
  - (* ENil *) inv H. simpl. eauto.
  - (* ECons *) apply Forall_app in A. destruct A as [A1 A2].
    destruct (ety ts e1) as [ta|] eqn:E1; [|discriminate]. destruct (ety ts e2) as [tl|] eqn:E2; [|discriminate].
    destruct (IHe1 _ eq_refl A1) as [va [Eva Hva]]. destruct (IHe2 _ eq_refl A2) as [vl [Evl Hvl]].
    destruct (ty_cons_sound _ _ _ _ _ Hva Hvl H) as [li [i [-> [Ei Ht]]]].
    simpl. rewrite Eva, Evl, Ei. simpl. eauto.
  - (* EAdd *) apply Forall_app in A. destruct A as [A1 A2].
    destruct (ety ts e1) as [ta|] eqn:E1; [|discriminate]. destruct (ety ts e2) as [tb|] eqn:E2; [|discriminate].
    destruct (IHe1 _ eq_refl A1) as [va [Eva Hva]]. destruct (IHe2 _ eq_refl A2) as [vb [Evb Hvb]].
    destruct (ty_add_sound _ _ _ _ _ Hva Hvb H) as [v [Ev Hv]].
    simpl. rewrite Eva, Evb. exists v. split; [|exact Hv]. destruct va, vb; try discriminate; exact Ev.
  - (* EJoin *) destruct (ety ts e) as [tl|] eqn:E1; [|discriminate]. destruct (ty_strs tl) as [n|] eqn:Es; [|discriminate]. inv H.
    destruct (IHe _ eq_refl A) as [vl [Evl Hvl]]. destruct (view_strs _ _ _ Hvl Es) as [ss [-> L]].
    simpl. rewrite Evl, get_strs_vstrs. simpl. eauto.
  - (* EFilterTruthy *) destruct (ety ts e) as [tl|] eqn:E1; [|discriminate]. destruct (ty_strs tl) as [n|] eqn:Es; [|discriminate]. inv H.
    destruct (IHe _ eq_refl A) as [vl [Evl Hvl]]. destruct (view_strs _ _ _ Hvl Es) as [ss [-> L]].
    simpl. rewrite Evl, get_strs_vstrs. simpl. eexists. split; [reflexivity|]. apply ty_vstrs. discriminate.
  - (* EMapPrefix *) destruct (ety ts e) as [tl|] eqn:E1; [|discriminate]. destruct (ty_strs tl) as [n|] eqn:Es; [|discriminate]. inv H.
    destruct (IHe _ eq_refl A) as [vl [Evl Hvl]]. destruct (view_strs _ _ _ Hvl Es) as [ss [-> L]].
    simpl. rewrite Evl, get_strs_vstrs. simpl. eexists. split; [reflexivity|]. apply ty_vstrs.
    intros k Hk. rewrite map_length. apply L. exact Hk.
  - (* ERstrip *) destruct (ety ts e) as [t0|] eqn:E1; [|discriminate]. destruct (is_tstr t0) eqn:Es; [|discriminate]. inv H.
    destruct (IHe _ eq_refl A) as [v0 [Ev0 Hv0]]. destruct (tstr_inv _ _ Hv0 Es) as [s ->]. simpl. rewrite Ev0. eauto.
  - (* EFst *) destruct (nth_error ts i) as [t0|] eqn:E; [|discriminate]. destruct t0; try discriminate.
    destruct n as [[|[|[|k]]]|]; try discriminate. inv H.
    destruct (have_tys_nth _ _ _ _ Ha E) as [v [Ev Hv]]. destruct (view_strs v (TStrs (Some 2)) (Some 2) Hv eq_refl) as [ss [-> L]].
    specialize (L 2 eq_refl). destruct ss as [|a [|b [|c ss]]]; try discriminate. simpl. rewrite Ev. simpl. eauto.
  - (* ESnd *) destruct (nth_error ts i) as [t0|] eqn:E; [|discriminate]. destruct t0; try discriminate.
    destruct n as [[|[|[|k]]]|]; try discriminate. inv H.
    destruct (have_tys_nth _ _ _ _ Ha E) as [v [Ev Hv]]. destruct (view_strs v (TStrs (Some 2)) (Some 2) Hv eq_refl) as [ss [-> L]].
    specialize (L 2 eq_refl). destruct ss as [|a [|b [|c ss]]]; try discriminate. simpl. rewrite Ev. simpl. eauto.
  - (* EBodyHdr *) destruct (nth_error ts i) as [t0|] eqn:E; [|discriminate]. destruct t0; try discriminate. inv H.
    destruct (have_tys_nth _ _ _ _ Ha E) as [v [Ev Hv]]. destruct v; try discriminate. unfold has_ty in Hv.
    apply andb_true_iff in Hv. destruct Hv as [H1 H2]. simpl. rewrite Ev. eexists. split; [reflexivity|]. apply ty_vrows. exact H1.
  - (* EBodyBlocks *) destruct (nth_error ts i) as [t0|] eqn:E; [|discriminate]. destruct t0; try discriminate. inv H.
    destruct (have_tys_nth _ _ _ _ Ha E) as [v [Ev Hv]]. destruct v; try discriminate. unfold has_ty in Hv.
    apply andb_true_iff in Hv. destruct Hv as [H1 H2]. simpl. rewrite Ev. eexists. split; [reflexivity|]. apply ty_vblocks; [exact H2|discriminate].
  - (* EBodyMk *) apply Forall_app in A. destruct A as [A1 A2].
    destruct (ety ts e1) as [th|] eqn:E1; [|discriminate]. destruct (ety ts e2) as [tb|] eqn:E2; [|discriminate].
    destruct (ty_rows th) eqn:Er; [|discriminate]. destruct (ty_blocks tb) as [[ne ks]|] eqn:Eb; [|discriminate]. inv H.
    destruct (IHe1 _ eq_refl A1) as [vh [Evh Hvh]]. destruct (IHe2 _ eq_refl A2) as [vb [Evb Hvb]].
    destruct (view_rows _ _ Hvh Er) as [rs [-> Nr]]. destruct (view_blocks _ _ _ _ Hvb Eb) as [bs [-> [O _]]].
    simpl. rewrite Evh, Evb, get_rows_vrows, get_blocks_vblocks. eexists. split; [reflexivity|]. unfold has_ty. rewrite Nr, O. reflexivity.
  - (* ERow *) destruct (ety ts e) as [tc|] eqn:E1; [|discriminate]. destruct (ty_strs tc) as [n|] eqn:Es; [|discriminate].
    destruct (IHe _ eq_refl A) as [vc [Evc Hvc]]. destruct (view_strs _ _ _ Hvc Es) as [ss [-> L]].
    simpl. rewrite Evc, get_strs_vstrs. simpl. eexists. split; [reflexivity|].
    destruct n as [k|]; inv H; unfold has_ty; simpl; rewrite seqb_refl; simpl; [|reflexivity].
    specialize (L k eq_refl). destruct (k <=? 1) eqn:Ek; [|reflexivity]. apply Nat.leb_le in Ek. simpl.
    unfold narrow. simpl. destruct ss as [|a [|b ss]]; try reflexivity. simpl in L. lia.
  - (* EBlock *) apply Forall_app in A. destruct A as [A1 A]. apply Forall_app in A. destruct A as [A2 A3].
    destruct (ety ts e1) as [tp|] eqn:E1; [|discriminate]. destruct (ety ts e2) as [th|] eqn:E2; [|discriminate].
    destruct (ety ts e3) as [tb|] eqn:E3; [|discriminate]. destruct th; try discriminate.
    destruct (ty_rows tp && ty_rows tb) eqn:Er; [|discriminate]. apply andb_true_iff in Er. destruct Er as [R1 R3]. inv H.
    destruct (IHe1 _ eq_refl A1) as [vp [Evp Hvp]]. destruct (IHe2 _ eq_refl A2) as [vh [Evh Hvh]]. destruct (IHe3 _ eq_refl A3) as [vb [Evb Hvb]].
    destruct (view_rows _ _ Hvp R1) as [pr [-> Np]]. destruct (view_rows _ _ Hvb R3) as [br [-> Nb]].
    destruct vh; try discriminate. unfold has_ty in Hvh. apply andb_true_iff in Hvh. destruct Hvh as [Hn _].
    simpl. rewrite Evp, Evh, Evb, !get_rows_vrows. eexists. split; [reflexivity|].
    unfold has_ty, block_ok. simpl. rewrite Np, Nb, Hn. reflexivity.
  - (* EIndentRows *) destruct (ety ts e) as [t0|] eqn:E1; [|discriminate]. destruct (ty_rows t0) eqn:Er; [|discriminate]. inv H.
    destruct (IHe _ eq_refl A) as [v0 [Ev0 Hv0]]. destruct (view_rows _ _ Hv0 Er) as [rs [-> Nr]].
    simpl. rewrite Ev0, get_rows_vrows. simpl. eexists. split; [reflexivity|]. apply ty_vrows. rewrite narrows_indent. exact Nr.
  - (* EIndentBlocks *) destruct (ety ts e) as [t0|] eqn:E1; [|discriminate]. destruct (ty_blocks t0) as [[ne ks]|] eqn:Eb; [|discriminate]. inv H.
    destruct (IHe _ eq_refl A) as [v0 [Ev0 Hv0]]. destruct (view_blocks _ _ _ _ Hv0 Eb) as [bs [-> [O Q]]].
    simpl. rewrite Ev0, get_blocks_vblocks. simpl. eexists. split; [reflexivity|]. apply ty_vblocks.
    + rewrite blocks_ok_indent. exact O.
    + intros Hne Hnil. apply (Q Hne). destruct bs; [reflexivity|discriminate].
  - (* EIntersperse *) apply Forall_app in A. destruct A as [A1 A2].
    destruct (ety ts e1) as [t1|] eqn:E1; [|discriminate]. destruct (ety ts e2) as [t2|] eqn:E2; [|discriminate].
    destruct (ty_rows t1 && ty_rowss t2) eqn:Er; [|discriminate]. apply andb_true_iff in Er. destruct Er as [R1 R2]. inv H.
    destruct (IHe1 _ eq_refl A1) as [v1 [Ev1 Hv1]]. destruct (IHe2 _ eq_refl A2) as [v2 [Ev2 Hv2]].
    destruct (view_rows _ _ Hv1 R1) as [sep [-> Ns]]. destruct (view_rowss _ _ Hv2 R2) as [rss [-> Nrs]].
    simpl. rewrite Ev1, Ev2, get_rows_vrows, as_rowss_map. simpl. eexists. split; [reflexivity|]. apply ty_vrows.
    apply narrows_intersperse; assumption.
  - (* EColumnize *) destruct (ety ts e) as [t0|] eqn:E1; [|discriminate]. destruct (ty_blocks t0) as [[ne ks]|] eqn:Eb; [|discriminate].
    destruct (length ks <? 3) eqn:Ek; [|discriminate]. apply Nat.ltb_lt in Ek. inv H.
    destruct (IHe _ eq_refl A) as [v0 [Ev0 Hv0]]. destruct (view_blocks _ _ _ _ Hv0 Eb) as [bs [-> [O Q]]].
    destruct (columnize_total ws iw ic ks bs Ek O) as [rss [Ec Nr]].
    simpl. rewrite Ev0, get_blocks_vblocks, Ec. simpl. eexists. split; [reflexivity|]. apply ty_vrowss. exact Nr.
  - (* EStripComments *) destruct (ety ts e) as [t0|] eqn:E1; [|discriminate]. destruct (ty_rows t0) eqn:Er; [|discriminate]. inv H.
    destruct (IHe _ eq_refl A) as [v0 [Ev0 Hv0]]. destruct (view_rows _ _ Hv0 Er) as [rs [-> Nr]].
    simpl. rewrite Ev0, get_rows_vrows. simpl. eexists. split; [reflexivity|]. apply ty_vrows. apply narrows_strip. exact Nr.
  - (* EPrependFirst *) apply Forall_app in A. destruct A as [A1 A2].
    destruct (ety ts e1) as [tr|] eqn:E1; [|discriminate]. destruct (ety ts e2) as [tb|] eqn:E2; [|discriminate].
    destruct (ty_blocks tb) as [[[|] ks]|] eqn:Eb; try discriminate. destruct (ty_rows tr) eqn:Er; [|discriminate]. inv H.
    destruct (IHe1 _ eq_refl A1) as [v1 [Ev1 Hv1]]. destruct (IHe2 _ eq_refl A2) as [v2 [Ev2 Hv2]].
    destruct (view_rows _ _ Hv1 Er) as [rs [-> Nr]]. destruct (view_blocks _ _ _ _ Hv2 Eb) as [bs [-> [O Q]]].
    destruct bs as [|b0 rest]; [exfalso; apply (Q eq_refl); reflexivity|].
    simpl. rewrite Ev1, Ev2, get_rows_vrows, get_blocks_vblocks. eexists. split; [reflexivity|].
    apply (ty_vblocks (_ :: rest)); [|discriminate]. simpl in O |- *. apply andb_true_iff in O. destruct O as [O1 O2].
    rewrite O2. unfold block_ok in *. simpl. apply andb_true_iff in O1. destruct O1 as [O1 O3]. apply andb_true_iff in O1. destruct O1 as [O1 O4].
    rewrite narrows_app, Nr, O1, O4, O3. reflexivity.
  - (* EIf *) apply Forall_app in A. destruct A as [A1 A2].
    destruct (cty ts c) eqn:Ec; [|discriminate].
    destruct (ety ts e1) as [ta|] eqn:E1; [|discriminate]. destruct (ety ts e2) as [tb|] eqn:E2; [|discriminate].
    destruct (join ta tb) as [j|]; [|discriminate]. destruct (sub ta j && sub tb j) eqn:Es; [|discriminate]. inv H.
    apply andb_true_iff in Es. destruct Es as [S1 S2].
    destruct (cty_total _ _ _ Ha Ec) as [b Eb]. simpl. rewrite Eb. destruct b.
    + destruct (IHe1 _ eq_refl A1) as [v [Ev Hv]]. exists v. split; [exact Ev|]. apply (sub_sound _ _ _ S1 Hv).
    + destruct (IHe2 _ eq_refl A2) as [v [Ev Hv]]. exists v. split; [exact Ev|]. apply (sub_sound _ _ _ S2 Hv).
  - (* EAssert *) destruct (cty ts c) eqn:Ec; [|discriminate]. inversion A as [|c' l' Hc Hl]; subst.
    simpl. rewrite Hc. apply (IHe _ H Hl).
  - (* EIndentBlanks *) destruct (ety ts e) as [t0|] eqn:E1; [|discriminate]. destruct (ty_rows t0) eqn:Er; [|discriminate]. inv H.
    destruct (IHe _ eq_refl A) as [v0 [Ev0 Hv0]]. destruct (view_rows _ _ Hv0 Er) as [rs [-> Nr]].
    simpl. rewrite Ev0, get_rows_vrows. simpl. eexists. split; [reflexivity|]. apply ty_vrows.
    unfold indent_blanks_and_comments. rewrite narrows_ibc. exact Nr.
  - (* EDedentBlanks *) destruct (ety ts e) as [t0|] eqn:E1; [|discriminate]. destruct (ty_rows t0) eqn:Er; [|discriminate]. inv H.
    destruct (IHe _ eq_refl A) as [v0 [Ev0 Hv0]]. destruct (view_rows _ _ Hv0 Er) as [rs [-> Nr]].
    simpl. rewrite Ev0, get_rows_vrows. simpl. eexists. split; [reflexivity|]. apply ty_vrows.
    unfold add_blank_rows_on_dedent. rewrite narrows_dedent. exact Nr.
  - (* ERender *) destruct (ety ts e) as [t0|] eqn:E1; [|discriminate]. destruct (ty_rows t0) eqn:Er; [|discriminate]. inv H.
    destruct (IHe _ eq_refl A) as [v0 [Ev0 Hv0]]. destruct (view_rows _ _ Hv0 Er) as [rs [-> Nr]].
    destruct (render_rows_total ws iw rs Nr) as [g Eg].
    simpl. rewrite Ev0, get_rows_vrows, Eg. simpl. eauto.
Qed.
End Sound.

(* ---------- Part 4: trees of the grammar ---------- *)
Lemma syms_ty_spec : forall tbl sg rhs ts, syms_ty tbl sg rhs = Some ts ->
  Forall2 (fun s t => sym_ty tbl sg s = Some t) rhs ts.
Proof.
  induction rhs as [|s rhs IH]; simpl; intros ts H; [inv H; constructor|].
  destruct (sym_ty tbl sg s) eqn:E1; [|discriminate]. destruct (syms_ty tbl sg rhs) eqn:E2; [|discriminate]. inv H.
  constructor; [exact E1|apply IH; reflexivity].
Qed.

Lemma Forall2_len : forall (A B : Type) (R : A -> B -> Prop) l1 l2, Forall2 R l1 l2 -> length l1 = length l2.
Proof. induction 1; simpl; congruence. Qed.

Lemma forallb_Forall' : forall (A : Type) (f : A -> bool) l, forallb f l = true -> Forall (fun x => f x = true) l.
Proof. intros. apply Forall_forall. apply forallb_forall. assumption. Qed.

Lemma lhs_not_terminal : forall tbl p h, nth_error tbl p = Some h -> is_terminal tbl (hlhs h) = false.
Proof.
  intros tbl p h H. unfold is_terminal. destruct (forallb (fun h0 => negb (seqb (hlhs h0) (hlhs h))) tbl) eqn:E; [|reflexivity].
  pose proof (nth_error_forallb _ _ _ _ _ E H) as X. simpl in X. rewrite seqb_refl in X. discriminate.
Qed.

Section Trees.
Variable ws : N -> bool.
Variable iw : nat.
Variable tbl : list handler.
Variable sg : sigt.
Hypothesis Hsig : sig_ok tbl sg = true.

Definition typed_result (t : tree) (v : value) : Prop :=
  forall s, root_sym tbl t = Some s -> exists ty, sym_ty tbl sg s = Some ty /\ has_ty v ty = true.

Lemma children_typed : forall cs,
  Forall (fun c => tree_wf tbl c -> leaves_terminal tbl c = true -> asserts_ok tbl c = true ->
                   exists v, format ws iw tbl c = Some v /\ typed_result c v) cs ->
  Forall (tree_wf tbl) cs -> forallb (leaves_terminal tbl) cs = true -> forallb (asserts_ok tbl) cs = true ->
  forall rhs ts, map (root_sym tbl) cs = map Some rhs -> Forall2 (fun s t => sym_ty tbl sg s = Some t) rhs ts ->
  exists vs, format_list (format ws iw tbl) cs = Some vs /\ have_tys vs ts = true.
Proof.
  induction cs as [|c cs IHc]; intros HI Hw Hl Ha rhs ts Hm Ht.
  - destruct rhs; [|discriminate]. inv Ht. exists []. split; reflexivity.
  - destruct rhs as [|s rhs]; [discriminate|]. simpl in Hm. injection Hm as Hs Hm.
    inversion Ht as [|s' ty0 rhs' ts' Hty0 Hts]; subst. inversion HI as [|c' cs' Hc Hcs]; subst.
    inversion Hw as [|c'' cs'' Wc Wcs]; subst.
    simpl in Hl, Ha. apply andb_true_iff in Hl. destruct Hl as [L1 L2]. apply andb_true_iff in Ha. destruct Ha as [A1 A2].
    destruct (Hc Wc L1 A1) as [v [Ev Tv]]. destruct (Tv s Hs) as [ty [Ety Hty]].
    rewrite Hty0 in Ety. inv Ety.
    destruct (IHc Hcs Wcs L2 A2 rhs ts' Hm Hts) as [vs [Evs Hvs]].
    exists (v :: vs). simpl. rewrite Ev, Evs, Hty, Hvs. split; reflexivity.
Qed.

Lemma format_list_nth : forall f cs vs i c, format_list f cs = Some vs -> nth_error cs i = Some c ->
  exists v, nth_error vs i = Some v /\ f c = Some v.
Proof.
  induction cs as [|c0 cs IH]; simpl; intros vs i c H Hn; [destruct i; discriminate|].
  destruct (f c0) eqn:E1; [|discriminate]. destruct (format_list f cs) eqn:E2; [|discriminate]. inv H.
  destruct i; simpl in *; [inv Hn; eauto|]. apply (IH _ _ _ eq_refl Hn).
Qed.

Lemma cond_ok_holds : forall cs vs c, format_list (format ws iw tbl) cs = Some vs -> cond_ok tbl cs c = true ->
  ceval vs c = Some true.
Proof.
  intros cs vs c Hf H. destruct c; try discriminate. destruct c; try discriminate. simpl in H.
  destruct (nth_error cs i) as [t|] eqn:En; [|discriminate].
  destruct (format_list_nth _ _ _ _ _ Hf En) as [v [Ev Fv]]. simpl. rewrite Ev. simpl.
  destruct t as [|q [|c0 cs0]]; try discriminate. simpl in H. rewrite format_node in Fv.
  destruct (nth_error tbl q) as [hq|]; [|discriminate]. destruct (hexpr hq) eqn:Eh; try discriminate.
  destruct s; [|simpl in H; discriminate]. simpl in Fv. destruct (length (hrhs hq)); simpl in Fv; [|discriminate]. inv Fv.
  reflexivity.
Qed.

Theorem format_typed : forall t, tree_wf tbl t -> leaves_terminal tbl t = true -> asserts_ok tbl t = true ->
  exists v, format ws iw tbl t = Some v /\ typed_result t v.
Proof.
  induction t as [sy tx|p cs IH] using tree_ind2; intros Hw Hl Ha.
  - exists (VStr [GTok sy tx]). split; [reflexivity|]. intros s Hs. simpl in Hs. inv Hs. simpl in Hl.
    exists TStr. unfold sym_ty. rewrite Hl. split; reflexivity.
  - apply tree_wf_node in Hw. destruct Hw as [h [Eh [Hm Hw]]].
    simpl in Hl. simpl in Ha. rewrite Eh in Ha. apply andb_true_iff in Ha. destruct Ha as [Hc Ha].
    pose proof (nth_error_forallb _ _ _ _ _ Hsig Eh) as Hh. unfold handler_typed, handler_ty, obind in Hh.
    destruct (syms_ty tbl sg (hrhs h)) as [ts|] eqn:Ets; [|discriminate].
    destruct (ety ts (hexpr h)) as [t0|] eqn:Ety; [|discriminate].
    destruct (lookup sg (hlhs h)) as [u|] eqn:Elk; [|discriminate].
    destruct (children_typed cs IH Hw Hl Ha (hrhs h) ts Hm (syms_ty_spec _ _ _ _ Ets)) as [vs [Evs Hvs]].
    assert (Hlen : length vs = length (hrhs h)).
    { rewrite (have_tys_length _ _ Hvs). symmetry. apply (Forall2_len _ _ _ _ _ (syms_ty_spec _ _ _ _ Ets)). }
    assert (Hass : Forall (fun c => ceval vs c = Some true) (asserted (hexpr h))).
    { apply Forall_forall. intros c Hin. rewrite forallb_forall in Hc. apply (cond_ok_holds cs vs c Evs (Hc c Hin)). }
    destruct (ety_sound ws iw vs ts Hvs (hexpr h) t0 Ety Hass) as [v [Ev Hv]].
    exists v. split.
    + rewrite format_node, Eh, Evs, Hlen, Nat.eqb_refl. exact Ev.
    + intros s Hs. simpl in Hs. rewrite Eh in Hs. simpl in Hs. inv Hs. exists u. split.
      * unfold sym_ty. rewrite (lhs_not_terminal _ _ _ Eh). exact Elk.
      * apply (sub_sound _ _ _ Hh Hv).
Qed.
End Trees.

Theorem format_total_proof : forall ws iw tbl, table_typed_ok tbl = true ->
  forall t, tree_gwf tbl t -> asserts_ok tbl t = true -> exists v, format ws iw tbl t = Some v.
Proof.
  intros ws iw tbl H t [Hw Hl] Ha. destruct (format_typed ws iw tbl (infer tbl) H t Hw Hl Ha) as [v [Ev _]]. eauto.
Qed.

Theorem format_text_total_proof : forall ws iw tbl, table_typed_ok tbl = true ->
  forall t s, tree_gwf tbl t -> asserts_ok tbl t = true ->
  root_sym tbl t = Some s -> sym_ty tbl (infer tbl) s = Some TStr ->
  exists txt, format_text ws iw tbl t = Some txt.
Proof.
  intros ws iw tbl H t s [Hw Hl] Ha Hr Hs. destruct (format_typed ws iw tbl (infer tbl) H t Hw Hl Ha) as [v [Ev Tv]].
  destruct (Tv s Hr) as [ty [E1 E2]]. rewrite Hs in E1. inv E1. destruct v; try discriminate.
  unfold format_text. rewrite Ev. eauto.
Qed.

(* with an explicit symbol typing instead of the inferred one *)
Theorem format_total_sig_proof : forall ws iw tbl sg, sig_ok tbl sg = true ->
  forall t, tree_gwf tbl t -> asserts_ok tbl t = true ->
  exists v, format ws iw tbl t = Some v /\
            forall s, root_sym tbl t = Some s -> exists ty, sym_ty tbl sg s = Some ty /\ has_ty v ty = true.
Proof. intros ws iw tbl sg H t [Hw Hl] Ha. apply (format_typed ws iw tbl sg H t Hw Hl Ha). Qed.

(* the boolean tree checks *)
Lemma roots_match_spec : forall tbl cs rhs, roots_match tbl cs rhs = true -> map (root_sym tbl) cs = map Some rhs.
Proof.
  induction cs as [|c cs IH]; destruct rhs as [|s rhs]; simpl; intro H; try discriminate; [reflexivity|].
  apply andb_true_iff in H. destruct H as [H1 H2]. rewrite (IH _ H2). f_equal.
  unfold ostr_eqb in H1. destruct (root_sym tbl c); [|discriminate]. apply seqb_eq in H1. subst. reflexivity.
Qed.
Lemma tree_wfb_sound : forall tbl t, tree_wfb tbl t = true -> tree_wf tbl t.
Proof.
  intros tbl. induction t as [sy tx|p cs IH] using tree_ind2; intro H; [exact I|].
  simpl in H. simpl. destruct (nth_error tbl p) as [h|]; [|discriminate].
  apply andb_true_iff in H. destruct H as [H1 H2]. split; [apply roots_match_spec; exact H1|].
  clear H1. induction cs as [|c cs IHc]; [exact I|]. simpl in H2. apply andb_true_iff in H2. destruct H2 as [H2 H3].
  inversion IH as [|c' cs' Hc Hcs]; subst. split; [apply Hc; exact H2|]. apply IHc; [exact Hcs|exact H3].
Qed.

Theorem tree_gwfb_sound_proof : forall tbl t, tree_gwfb tbl t = true -> tree_gwf tbl t.
Proof.
  intros tbl t H. unfold tree_gwfb in H. apply andb_true_iff in H. destruct H as [H1 H2].
  split; [apply tree_wfb_sound; exact H1|exact H2].
Qed.

Lemma toy_fmt_total_example_proof :
  table_typed_ok toy_fmt_table = true /\ tree_gwf toy_fmt_table toy_tree /\ asserts_ok toy_fmt_table toy_tree = true /\
  sym_ty toy_fmt_table (infer toy_fmt_table) [97]%N = Some TStr.
Proof.
  split; [vm_compute; reflexivity|]. split; [apply tree_gwfb_sound_proof; vm_compute; reflexivity|].
  split; vm_compute; reflexivity.
Qed.
