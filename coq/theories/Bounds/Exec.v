(* Executable glue used by the C05 correspondence harness: builds the leaf
   environment from (kind, size) specs, enumerates the annotations of every
   sub-expression in pre-order, and decides equality of results. *)
From Coq Require Import ZArith List Bool.
Import ListNotations.
Require Import EmbossV.Bounds.Model.
Open Scope Z_scope.

Definition tenv_of_specs (specs : list (ikind * option Z)) : tenv :=
  fun i => match nth_error specs i with
           | Some (k, s) => leaf_aval k s
           | None => mk_aval NegInf PosInf (Some 1) 0
           end.

(* pre-order annotations, not descending through virtual-field references *)
Fixpoint annots (G : tenv) (e : expr) {struct e} : list (option ares) :=
  bounds_of G e ::
  match e with
  | EAdd a b | ESub a b | EMul a b | ECmp _ a b | EECmp _ a b | EBop _ a b => annots G a ++ annots G b
  | EChoice c t f => annots G c ++ annots G t ++ annots G f
  | EMax args => flat_map (annots G) args
  | EUpper a | ELower a => annots G a
  | _ => []
  end.

Definition modulus_eqb (a b : modulus) : bool :=
  match a, b with
  | None, None => true
  | Some x, Some y => x =? y
  | _, _ => false
  end.

Definition aval_eqb (a b : aval) : bool :=
  ext_eqb a.(lo) b.(lo) && ext_eqb a.(hi) b.(hi) && modulus_eqb a.(md) b.(md) && (a.(mv) =? b.(mv)).

Definition optb {A} (f : A -> A -> bool) (a b : option A) : bool :=
  match a, b with
  | None, None => true
  | Some x, Some y => f x y
  | _, _ => false
  end.

Definition ares_eqb (a b : ares) : bool :=
  match a, b with
  | AInt x, AInt y => aval_eqb x y
  | ABool x, ABool y => optb Bool.eqb x y
  | AEnum x, AEnum y => optb Z.eqb x y
  | _, _ => false
  end.

Fixpoint list_eqb {A} (f : A -> A -> bool) (a b : list A) : bool :=
  match a, b with
  | [], [] => true
  | x :: a', y :: b' => f x y && list_eqb f a' b'
  | _, _ => false
  end.

Definition value_eqb (a b : value) : bool :=
  match a, b with
  | VInt x, VInt y | VEnum x, VEnum y => x =? y
  | VBool x, VBool y => Bool.eqb x y
  | _, _ => false
  end.

(* One expression case: annotations of all sub-expressions, constant_value of the
   root, and the verdict of the 64-bit gate. *)
Definition run_expr (c : list (ikind * option Z) * expr) : list (option ares) * option value * bool :=
  let G := tenv_of_specs (fst c) in
  (annots G (snd c), constant_value G (snd c), gate G (snd c)).

Definition run_expr_eqb (a b : list (option ares) * option value * bool) : bool :=
  list_eqb (optb ares_eqb) (fst (fst a)) (fst (fst b))
  && optb value_eqb (snd (fst a)) (snd (fst b))
  && Bool.eqb (snd a) (snd b).

(* ---- direct helper correspondence ---- *)
Inductive hcall :=
| HAdd (a b : ext) | HSub (a b : ext) | HMul (a b : ext)
| HMin (l : list ext) | HMax (l : list ext)
| HGcd (a b : modulus)
| HShared (lm : modulus) (lv : Z) (rm : modulus) (rv : Z).

Inductive hres := RExt (r : option ext) | RMod (m : modulus) | RShared (r : option (modulus * Z)).

Definition run_helper (c : hcall) : hres :=
  match c with
  | HAdd a b => RExt (ext_add a b)
  | HSub a b => RExt (ext_sub a b)
  | HMul a b => RExt (Some (ext_mul a b))
  | HMin l => RExt (ext_min_list l)
  | HMax l => RExt (ext_max_list l)
  | HGcd a b => RMod (gcdx a b)
  | HShared lm lv rm rv => RShared (shared_modular_value lm lv rm rv)
  end.

Definition hres_eqb (a b : hres) : bool :=
  match a, b with
  | RExt x, RExt y => optb ext_eqb x y
  | RMod x, RMod y => modulus_eqb x y
  | RShared x, RShared y =>
      optb (fun p q => modulus_eqb (fst p) (fst q) && (snd p =? snd q)) x y
  | _, _ => false
  end.
