(* C05 — lemmas about extended integers and moduli. *)
From Coq Require Import ZArith List Bool Lia ZifyBool Znumtheory.
Import ListNotations.
Require Import EmbossV.Bounds.Model.
Open Scope Z_scope.

(* ---------- the order on ext ---------- *)
Lemma ext_le_refl a : ext_le a a.
Proof. destruct a; simpl; lia. Qed.

Lemma ext_le_trans a b c : ext_le a b -> ext_le b c -> ext_le a c.
Proof. destruct a, b, c; simpl; try tauto; lia. Qed.

Lemma ext_le_max2_l a b : ext_le a (ext_max2 a b).
Proof. destruct a, b; simpl; try tauto; lia. Qed.
Lemma ext_le_max2_r a b : ext_le b (ext_max2 a b).
Proof. destruct a, b; simpl; try tauto; lia. Qed.
Lemma ext_le_min2_l a b : ext_le (ext_min2 a b) a.
Proof. destruct a, b; simpl; try tauto; lia. Qed.
Lemma ext_le_min2_r a b : ext_le (ext_min2 a b) b.
Proof. destruct a, b; simpl; try tauto; lia. Qed.

Lemma ext_max2_lub a b c : ext_le a c -> ext_le b c -> ext_le (ext_max2 a b) c.
Proof. destruct a, b, c; simpl; try tauto; lia. Qed.
Lemma ext_min2_glb a b c : ext_le c a -> ext_le c b -> ext_le c (ext_min2 a b).
Proof. destruct a, b, c; simpl; try tauto; lia. Qed.

Lemma ext_max2_mono a a' b b' : ext_le a a' -> ext_le b b' -> ext_le (ext_max2 a b) (ext_max2 a' b').
Proof.
  intros H1 H2. apply ext_max2_lub.
  - eapply ext_le_trans; [exact H1|apply ext_le_max2_l].
  - eapply ext_le_trans; [exact H2|apply ext_le_max2_r].
Qed.
Lemma ext_min2_mono a a' b b' : ext_le a a' -> ext_le b b' -> ext_le (ext_min2 a b) (ext_min2 a' b').
Proof.
  intros H1 H2. apply ext_min2_glb.
  - eapply ext_le_trans; [apply ext_le_min2_l|exact H1].
  - eapply ext_le_trans; [apply ext_le_min2_r|exact H2].
Qed.

(* folds *)
Lemma fold_max2_ge_acc l : forall acc, ext_le acc (fold_left ext_max2 l acc).
Proof.
  induction l as [|x t IH]; intros acc; simpl; [apply ext_le_refl|].
  eapply ext_le_trans; [apply ext_le_max2_l|apply IH].
Qed.
Lemma fold_max2_ge_in l : forall acc x, In x l -> ext_le x (fold_left ext_max2 l acc).
Proof.
  induction l as [|y t IH]; intros acc x Hin; [destruct Hin|].
  simpl. destruct Hin as [->|Hin].
  - eapply ext_le_trans; [apply ext_le_max2_r|apply fold_max2_ge_acc].
  - apply IH; exact Hin.
Qed.
Lemma fold_min2_le_acc l : forall acc, ext_le (fold_left ext_min2 l acc) acc.
Proof.
  induction l as [|x t IH]; intros acc; simpl; [apply ext_le_refl|].
  eapply ext_le_trans; [apply IH|apply ext_le_min2_l].
Qed.
Lemma fold_min2_le_in l : forall acc x, In x l -> ext_le (fold_left ext_min2 l acc) x.
Proof.
  induction l as [|y t IH]; intros acc x Hin; [destruct Hin|].
  simpl. destruct Hin as [->|Hin].
  - eapply ext_le_trans; [apply fold_min2_le_acc|apply ext_le_min2_r].
  - apply IH; exact Hin.
Qed.

Lemma ext_max_list_ge l m x : ext_max_list l = Some m -> In x l -> ext_le x m.
Proof.
  destruct l as [|y t]; simpl; [discriminate|]. intros [= <-] [->|Hin].
  - apply fold_max2_ge_acc.
  - apply fold_max2_ge_in; exact Hin.
Qed.
Lemma ext_min_list_le l m x : ext_min_list l = Some m -> In x l -> ext_le m x.
Proof.
  destruct l as [|y t]; simpl; [discriminate|]. intros [= <-] [->|Hin].
  - apply fold_min2_le_acc.
  - apply fold_min2_le_in; exact Hin.
Qed.

(* the fold result is bounded above by any common upper bound *)
Lemma fold_max2_lub l : forall acc c, ext_le acc c -> (forall x, In x l -> ext_le x c) ->
  ext_le (fold_left ext_max2 l acc) c.
Proof.
  induction l as [|y t IH]; intros acc c Ha Hl; simpl; [exact Ha|].
  apply IH; [apply ext_max2_lub; [exact Ha|apply Hl; left; reflexivity]|].
  intros x Hx; apply Hl; right; exact Hx.
Qed.

Lemma ext_eqb_eq a b : ext_eqb a b = true <-> a = b.
Proof.
  destruct a, b; simpl; split; intro H; try discriminate; try reflexivity; try congruence.
  - apply Z.eqb_eq in H; congruence.
  - inversion H; subst; apply Z.eqb_refl.
Qed.

(* ---------- addition / subtraction ---------- *)
Lemma ext_add_lower a b c x y :
  ext_add a b = Some c -> ext_le a (Fin x) -> ext_le b (Fin y) -> ext_le c (Fin (x + y)).
Proof. destruct a, b; simpl; intros [= <-]; simpl; try tauto; lia. Qed.

Lemma ext_add_upper a b c x y :
  ext_add a b = Some c -> ext_le (Fin x) a -> ext_le (Fin y) b -> ext_le (Fin (x + y)) c.
Proof. destruct a, b; simpl; intros [= <-]; simpl; try tauto; lia. Qed.

Lemma ext_neg_le_upper b y : ext_le b (Fin y) -> ext_le (Fin (- y)) (ext_neg b).
Proof. destruct b; simpl; try tauto; lia. Qed.
Lemma ext_neg_le_lower b y : ext_le (Fin y) b -> ext_le (ext_neg b) (Fin (- y)).
Proof. destruct b; simpl; try tauto; lia. Qed.

Lemma ext_sub_lower a b c x y :
  ext_sub a b = Some c -> ext_le a (Fin x) -> ext_le (Fin y) b -> ext_le c (Fin (x - y)).
Proof.
  unfold ext_sub; intros H Ha Hb.
  replace (x - y) with (x + - y) by lia.
  eapply ext_add_lower; eauto using ext_neg_le_lower.
Qed.
Lemma ext_sub_upper a b c x y :
  ext_sub a b = Some c -> ext_le (Fin x) a -> ext_le b (Fin y) -> ext_le (Fin (x - y)) c.
Proof.
  unfold ext_sub; intros H Ha Hb.
  replace (x - y) with (x + - y) by lia.
  eapply ext_add_upper; eauto using ext_neg_le_upper.
Qed.

(* ---------- multiplication ---------- *)
Lemma ext_mul_comm a b : ext_mul a b = ext_mul b a.
Proof.
  destruct a, b; simpl; try reflexivity; try (f_equal; lia);
    rewrite ?(Z.mul_comm (Z.sgn _)); reflexivity.
Qed.

(* For fixed a, y |-> a*y is monotone or antitone, hence bounded by the two ends. *)
Lemma mul_le_max z l h y : l <= y -> y <= h -> z * y <= Z.max (z * l) (z * h).
Proof.
  intros Hl Hh. destruct (Z_le_gt_dec 0 z) as [Hz|Hz].
  - apply Z.le_trans with (z * h); [apply Z.mul_le_mono_nonneg_l; lia|apply Z.le_max_r].
  - apply Z.le_trans with (z * l); [apply Z.mul_le_mono_nonpos_l; lia|apply Z.le_max_l].
Qed.
Lemma mul_ge_min z l h y : l <= y -> y <= h -> Z.min (z * l) (z * h) <= z * y.
Proof.
  intros Hl Hh. destruct (Z_le_gt_dec 0 z) as [Hz|Hz].
  - apply Z.le_trans with (z * l); [apply Z.le_min_l|apply Z.mul_le_mono_nonneg_l; lia].
  - apply Z.le_trans with (z * h); [apply Z.le_min_r|apply Z.mul_le_mono_nonpos_l; lia].
Qed.

Ltac ext_mul_crush :=
  cbn [ext_mul ext_sign ext_max2 ext_min2 ext_le] in *;
  repeat match goal with
         | |- context [Z.sgn ?t] => let H := fresh in pose proof (Z.sgn_spec t) as H;
                                    generalize dependent (Z.sgn t); intros
         end;
  repeat match goal with
         | |- context [if ?c then _ else _] => destruct c eqn:?
         end;
  cbn [ext_max2 ext_min2 ext_le]; try tauto; try nia;
  try (apply mul_le_max; lia); try (apply mul_ge_min; lia).

Lemma ext_mul_between_hi (a l h : ext) (y : Z) :
  ext_le l (Fin y) -> ext_le (Fin y) h ->
  ext_le (ext_mul a (Fin y)) (ext_max2 (ext_mul a l) (ext_mul a h)).
Proof.
  intros Hl Hh.
  destruct a as [|z|]; destruct l as [|lz|]; destruct h as [|hz|];
    cbn [ext_le] in Hl, Hh; try tauto; ext_mul_crush.
Qed.

Lemma ext_mul_between_lo (a l h : ext) (y : Z) :
  ext_le l (Fin y) -> ext_le (Fin y) h ->
  ext_le (ext_min2 (ext_mul a l) (ext_mul a h)) (ext_mul a (Fin y)).
Proof.
  intros Hl Hh.
  destruct a as [|z|]; destruct l as [|lz|]; destruct h as [|hz|];
    cbn [ext_le] in Hl, Hh; try tauto; ext_mul_crush.
Qed.
