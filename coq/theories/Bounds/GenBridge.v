(* C05 — support for the REGENERATED model of expression_bounds.py.

   harness/bounds_x.py translates the arithmetic functions of /repo's current
   compiler/front_end/expression_bounds.py into Gallina on every run (file
   BoundsGen.v in the check's build directory).  This static file holds
   (1) the small run-time library the translated code is written against
       (python values = [ext]; exceptions/asserts = [None]),
   (2) the conversions between the model's types and the python-side records,
   (3) bridge lemmas about the hand-written model (Model.v) that the generated
       equality proofs use, and the tactics of their fixed proof scripts.
   No definitions of the model live here and Model.v contains no proofs. *)
From Coq Require Import ZArith List Bool Lia ZifyBool.
Import ListNotations.
Require Import EmbossV.Bounds.Model.
Open Scope Z_scope.

(* ---------- the option monad of "python raised" ---------- *)
Notation "x <- e ;; k" := (match e with Some x => k | None => None end)
  (at level 61, e at next level, right associativity, only parsing).

(* ---------- python values ----------
   A python value that is an int, a stringified int, "infinity" or "-infinity"
   is an [ext]; ints and stringified ints are both [Fin z] (the translator's
   documented conflation: str() is the identity, int() fails on the two words). *)
Definition py_int (a : ext) : option Z := match a with Fin z => Some z | _ => None end.
Definition py_mod (a b : Z) : option Z := if b =? 0 then None else Some (a mod b).
Definition py_floordiv (a b : Z) : option Z := if b =? 0 then None else Some (a / b).

Fixpoint py_mapM {A B} (f : A -> option B) (l : list A) : option (list B) :=
  match l with
  | [] => Some []
  | x :: t => match f x with
              | Some y => match py_mapM f t with Some t' => Some (y :: t') | None => None end
              | None => None
              end
  end.

(* max()/min() of a python iterable of ints: ValueError on an empty one *)
Definition py_max_ints (l : list Z) : option Z :=
  match l with [] => None | x :: t => Some (fold_left Z.max t x) end.
Definition py_min_ints (l : list Z) : option Z :=
  match l with [] => None | x :: t => Some (fold_left Z.min t x) end.

(* a for loop with loop-carried state *)
Fixpoint py_foldM {A S} (f : S -> A -> option S) (l : list A) (s : S) : option S :=
  match l with
  | [] => Some s
  | x :: t => match f s x with Some s' => py_foldM f t s' | None => None end
  end.

Definition py_nth {A} (l : list A) (i : nat) : option A := nth_error l i.

(* ---------- records ---------- *)
(* expression.type.integer of the IR: four python values *)
Record grec := mk_grec { g_minimum_value : ext; g_maximum_value : ext; g_modulus : ext; g_modular_value : ext }.

(* ir_data.FunctionMapping members the additive rule distinguishes *)
Inductive gfn := ADDITION | SUBTRACTION.
Definition gfn_eqb (a b : gfn) : bool :=
  match a, b with ADDITION, ADDITION | SUBTRACTION, SUBTRACTION => true | _, _ => false end.

Definition m2e (m : modulus) : ext := match m with None => PosInf | Some z => Fin z end.
Definition a2g (a : aval) : grec := mk_grec a.(lo) a.(hi) (m2e a.(md)) (Fin a.(mv)).
Definition fn_of (sub : bool) : gfn := if sub then SUBTRACTION else ADDITION.
Definition sh2g (p : modulus * Z) : ext * ext := (m2e (fst p), Fin (snd p)).

Definition md_nonneg (m : modulus) : Prop := match m with Some z => 0 <= z | None => True end.
Definition md_nonnegb (m : modulus) : bool := match m with Some z => 0 <=? z | None => true end.

(* what _greatest_common_divisor computes on python values, in terms of the model's gcdx:
   the asserts a >= 0, b >= 0 are part of the source, not of gcdx *)
Definition gcd_spec (a b : ext) : option ext :=
  match a, b with
  | NegInf, _ | _, NegInf => None
  | _, _ =>
      let ma := match a with Fin z => Some z | _ => None end in
      let mb := match b with Fin z => Some z | _ => None end in
      if md_nonnegb ma && md_nonnegb mb then Some (m2e (gcdx ma mb)) else None
  end.
