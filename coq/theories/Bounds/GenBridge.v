(* C05 — support for the REGENERATED model of expression_bounds.py.

   harness/bounds_x.py translates the arithmetic functions of /repo's current
   compiler/front_end/expression_bounds.py into Gallina on every run (file
   BoundsGen.v in the check's build directory).  This static file holds
   (1) the small run-time library the translated code is written against
       (python values = [ext]; exceptions/asserts = [None]),
   (2) the conversions between the model's types and the python-side records,
   (3) bridge lemmas about the hand-written model (Model.v) that the generated
       equality proofs use, and the tactics of their fixed proof scripts.
   No definitions of the model live here and Model.v contains no proofs. *)
From Coq Require Import ZArith List Bool Lia ZifyBool.
Import ListNotations.
Require Import EmbossV.Bounds.Model.
Open Scope Z_scope.

(* ---------- the option monad of "python raised" ---------- *)
Notation "x <- e ;; k" := (match e with Some x => k | None => None end)
  (at level 61, e at next level, right associativity, only parsing).

(* ---------- python values ----------
   A python value that is an int, a stringified int, "infinity" or "-infinity"
   is an [ext]; ints and stringified ints are both [Fin z] (the translator's
   documented conflation: str() is the identity, int() fails on the two words). *)
Definition py_int (a : ext) : option Z := match a with Fin z => Some z | _ => None end.
Definition py_mod (a b : Z) : option Z := if b =? 0 then None else Some (a mod b).
Definition py_floordiv (a b : Z) : option Z := if b =? 0 then None else Some (a / b).

Fixpoint py_mapM {A B} (f : A -> option B) (l : list A) : option (list B) :=
  match l with
  | [] => Some []
  | x :: t => match f x with
              | Some y => match py_mapM f t with Some t' => Some (y :: t') | None => None end
              | None => None
              end
  end.

(* max()/min() of a python iterable of ints: ValueError on an empty one *)
Definition py_max_ints (l : list Z) : option Z :=
  match l with [] => None | x :: t => Some (fold_left Z.max t x) end.
Definition py_min_ints (l : list Z) : option Z :=
  match l with [] => None | x :: t => Some (fold_left Z.min t x) end.

(* a for loop with loop-carried state *)
Fixpoint py_foldM {A S} (f : S -> A -> option S) (l : list A) (s : S) : option S :=
  match l with
  | [] => Some s
  | x :: t => match f s x with Some s' => py_foldM f t s' | None => None end
  end.

Definition py_nth {A} (l : list A) (i : nat) : option A := nth_error l i.

(* ---------- records ---------- *)
(* expression.type.integer of the IR: four python values *)
Record grec := mk_grec { g_minimum_value : ext; g_maximum_value : ext; g_modulus : ext; g_modular_value : ext }.

(* ir_data.FunctionMapping members the additive rule distinguishes *)
Inductive gfn := ADDITION | SUBTRACTION.
Definition gfn_eqb (a b : gfn) : bool :=
  match a, b with ADDITION, ADDITION | SUBTRACTION, SUBTRACTION => true | _, _ => false end.

Definition m2e (m : modulus) : ext := match m with None => PosInf | Some z => Fin z end.
Definition a2g (a : aval) : grec := mk_grec a.(lo) a.(hi) (m2e a.(md)) (Fin a.(mv)).
Definition fn_of (sub : bool) : gfn := if sub then SUBTRACTION else ADDITION.
Definition sh2g (p : modulus * Z) : ext * ext := (m2e (fst p), Fin (snd p)).

Definition md_nonneg (m : modulus) : Prop := match m with Some z => 0 <= z | None => True end.
Definition md_nonnegb (m : modulus) : bool := match m with Some z => 0 <=? z | None => true end.

(* what _greatest_common_divisor computes on python values, in terms of the model's gcdx:
   the asserts a >= 0, b >= 0 are part of the source, not of gcdx *)
Definition gcd_spec (a b : ext) : option ext :=
  match a, b with
  | NegInf, _ | _, NegInf => None
  | _, _ =>
      let ma := match a with Fin z => Some z | _ => None end in
      let mb := match b with Fin z => Some z | _ => None end in
      if md_nonnegb ma && md_nonnegb mb then Some (m2e (gcdx ma mb)) else None
  end.

(* ---------- partial inverse of a2g (the $max rule may store "infinity" as modular_value) ---------- *)
Definition e2m (e : ext) : option modulus :=
  match e with PosInf => Some None | Fin z => Some (Some z) | NegInf => None end.
Definition g2a (g : grec) : option aval :=
  match e2m g.(g_modulus), g.(g_modular_value) with
  | Some m, Fin v => Some (mk_aval g.(g_minimum_value) g.(g_maximum_value) m v)
  | _, _ => None
  end.

Lemma g2a_a2g : forall a, g2a (a2g a) = Some a.
Proof. intros [l h [m|] v]; reflexivity. Qed.

(* well-formedness under which the source's extra asserts (a >= 0, b >= 0 in the gcd) cannot fire *)
Definition aval_wf (a : aval) : Prop :=
  match a.(md) with Some m => 0 < m /\ 0 <= a.(mv) | None => True end.

(* ---------- facts about the model's gcdx ---------- *)
Lemma gcdx_nonzero : forall a b m, gcdx a b = Some m -> m <> 0.
Proof.
  intros [[|p|p]|] [[|q|q]|] m H; cbn in H; try discriminate; inversion H; subst; try discriminate;
    intro E; apply Z.gcd_eq_0_l in E; discriminate.
Qed.

Lemma gcdx_nonneg : forall a b, md_nonneg a -> md_nonneg b -> md_nonneg (gcdx a b).
Proof.
  intros [[|p|p]|] [[|q|q]|] Ha Hb; cbn in *; try lia; try exact I; apply Z.gcd_nonneg.
Qed.

Lemma gcd_spec_m2e : forall a b, md_nonneg a -> md_nonneg b ->
  gcd_spec (m2e a) (m2e b) = Some (m2e (gcdx a b)).
Proof.
  intros [x|] [y|] Ha Hb; cbn in *;
    repeat match goal with |- context [?u <=? ?v] => replace (u <=? v) with true by (symmetry; apply Z.leb_le; assumption) end;
    reflexivity.
Qed.

Lemma py_mod_nz : forall a m, m <> 0 -> py_mod a m = Some (a mod m).
Proof. intros a m H. unfold py_mod. destruct (m =? 0) eqn:E; [apply Z.eqb_eq in E; contradiction|reflexivity]. Qed.

Lemma py_floordiv_nz : forall a m, m <> 0 -> py_floordiv a m = Some (a / m).
Proof. intros a m H. unfold py_floordiv. destruct (m =? 0) eqn:E; [apply Z.eqb_eq in E; contradiction|reflexivity]. Qed.

(* ---------- _max / _min: the shape the source has today, and its equality with the model ---------- *)
Definition max_shape (is_inf : ext -> bool) (l : list ext) : option ext :=
  if existsb (fun n => ext_eqb n PosInf) l then Some PosInf
  else if forallb (fun n => ext_eqb n NegInf) l then Some NegInf
  else (z <- (xs <- py_mapM (fun n => py_int n) (filter (fun n => negb (is_inf n)) l);; py_max_ints xs);; Some (Fin z)).
Definition min_shape (is_inf : ext -> bool) (l : list ext) : option ext :=
  if existsb (fun n => ext_eqb n NegInf) l then Some NegInf
  else if forallb (fun n => ext_eqb n PosInf) l then Some PosInf
  else (z <- (xs <- py_mapM (fun n => py_int n) (filter (fun n => negb (is_inf n)) l);; py_min_ints xs);; Some (Fin z)).

Section MaxMin.
  Variable is_inf : ext -> bool.
  Hypothesis is_inf_ok : forall a, is_inf a = ext_is_inf a.

  Lemma max_shape_step : forall x y l, max_shape is_inf (x :: y :: l) = max_shape is_inf (ext_max2 x y :: l).
  Proof.
    intros x y l. unfold max_shape. cbn [existsb forallb filter]. rewrite !is_inf_ok.
    destruct x as [|a|], y as [|b|]; cbn; rewrite ?is_inf_ok; cbn; try reflexivity;
      try (destruct (existsb _ l); [reflexivity|]; destruct (forallb _ l); reflexivity).
    - destruct (existsb _ l); [reflexivity|].
      destruct (py_mapM _ _); reflexivity.
  Qed.

  Lemma max_shape_model : forall x l, max_shape is_inf (x :: l) = ext_max_list (x :: l).
  Proof.
    intros x l. revert x. induction l as [|y l IH]; intro x.
    - unfold max_shape. cbn. rewrite is_inf_ok. destruct x; reflexivity.
    - rewrite max_shape_step, IH. reflexivity.
  Qed.

  Lemma min_shape_step : forall x y l, min_shape is_inf (x :: y :: l) = min_shape is_inf (ext_min2 x y :: l).
  Proof.
    intros x y l. unfold min_shape. cbn [existsb forallb filter]. rewrite !is_inf_ok.
    destruct x as [|a|], y as [|b|]; cbn; rewrite ?is_inf_ok; cbn; try reflexivity;
      try (destruct (existsb _ l); [reflexivity|]; destruct (forallb _ l); reflexivity).
    - destruct (existsb _ l); [reflexivity|].
      destruct (py_mapM _ _); reflexivity.
  Qed.

  Lemma min_shape_model : forall x l, min_shape is_inf (x :: l) = ext_min_list (x :: l).
  Proof.
    intros x l. revert x. induction l as [|y l IH]; intro x.
    - unfold min_shape. cbn. rewrite is_inf_ok. destruct x; reflexivity.
    - rewrite min_shape_step, IH. reflexivity.
  Qed.
End MaxMin.

(* ---------- the fixed proof scripts of the generated equality theorems ---------- *)
Ltac bx_arith := repeat (first [reflexivity | lia | progress f_equal]).
Ltac bx_fin :=
  cbn; rewrite ?andb_false_r, ?andb_true_r, ?orb_false_r, ?orb_true_r;
  repeat match goal with |- context [if ?c then _ else _] => destruct c eqn:? end;
  first [reflexivity | congruence | solve [bx_arith] | exfalso; lia].

(* helpers on python values: split every argument into -inf / 0 / positive / negative / +inf *)
Ltac bx_ext := intros;
  repeat match goal with a : ext |- _ => destruct a as [|[|?|?]|] end;
  bx_fin.

Lemma gcd_spec_m2e_fin : forall a z, md_nonneg a -> 0 <= z ->
  gcd_spec (m2e a) (Fin z) = Some (m2e (gcdx a (Some z))).
Proof. intros a z Ha Hz. exact (gcd_spec_m2e a (Some z) Ha Hz). Qed.
Lemma gcd_spec_fin_fin : forall x y, 0 <= x -> 0 <= y ->
  gcd_spec (Fin x) (Fin y) = Some (m2e (gcdx (Some x) (Some y))).
Proof. intros x y Hx Hy. exact (gcd_spec_m2e (Some x) (Some y) Hx Hy). Qed.

Ltac bx_side :=
  first [assumption | apply gcdx_nonneg; bx_side | apply Z.abs_nonneg | exact I | cbn; lia
        | cbn; apply Z.div_pos; lia ].
Ltac bx_nz := repeat first [assumption | lia | apply Z.neq_mul_0; split].
(* replace every call of the translated gcd by the model's gcdx (the asserts a >= 0, b >= 0 discharged) *)
Ltac bx_cbn :=
  cbn -[Z.add Z.sub Z.opp Z.mul Z.modulo Z.div Z.abs Z.gcd Z.eqb Z.leb Z.ltb gcdx gcd_spec py_mod py_floordiv].
Ltac bx_gcd gcd_eq :=
  repeat first
    [ rewrite gcd_eq
    | rewrite gcd_spec_m2e by bx_side
    | rewrite gcd_spec_m2e_fin by bx_side
    | rewrite gcd_spec_fin_fin by bx_side
    | progress cbn [py_int m2e fst snd g_minimum_value g_maximum_value g_modulus g_modular_value a2g lo hi md mv] ].
(* case split on the result of a gcdx, remembering that it is never 0 (and not negative when its arguments are not) *)
Ltac bx_gcd_cases :=
  repeat match goal with
  | |- context [gcdx ?a ?b] =>
      let E := fresh "E" in let m := fresh "m" in let N := fresh "N" in
      try (assert (N : md_nonneg (gcdx a b)) by (apply gcdx_nonneg; bx_side));
      destruct (gcdx a b) as [m|] eqn:E;
      [ pose proof (gcdx_nonzero _ _ _ E); cbn [md_nonneg] in *; cbn [py_int m2e];
        rewrite ?py_mod_nz, ?py_floordiv_nz by assumption
      | cbn [py_int m2e] ]
  end.

(* ---------- the loop of the $max rule ---------- *)
Lemma shared_nonneg : forall lm lv rm rv m v, md_nonneg lm -> md_nonneg rm ->
  shared_modular_value lm lv rm rv = Some (m, v) -> md_nonneg m.
Proof.
  intros lm lv rm rv m v Hl Hr H. unfold shared_modular_value in H.
  assert (N : md_nonneg (gcdx (gcdx lm rm) (Some (Z.abs (lv - rv))))) by (apply gcdx_nonneg; bx_side).
  destruct (gcdx (gcdx lm rm) (Some (Z.abs (lv - rv)))) as [k|].
  - destruct (lv mod k =? rv mod k); inversion H; subst; exact N.
  - destruct ((lv =? rv) && _); inversion H; subst; exact I.
Qed.

Lemma g2a_mk : forall a b m v, g2a (mk_grec a b (m2e m) (Fin v)) = Some (mk_aval a b m v).
Proof. intros a b [m|] v; reflexivity. Qed.

Lemma map_a2g_lo : forall l, map (fun g => g_minimum_value g) (map a2g l) = map lo l.
Proof. intro l. rewrite map_map. reflexivity. Qed.
Lemma map_a2g_hi : forall l, map (fun g => g_maximum_value g) (map a2g l) = map hi l.
Proof. intro l. rewrite map_map. reflexivity. Qed.

Section MaxLoop.
  Variable gsh : ext * ext -> ext * ext -> option (ext * ext).
  Hypothesis gsh_ok : forall lm lv rm rv, md_nonneg lm -> md_nonneg rm ->
    gsh (m2e lm, Fin lv) (m2e rm, Fin rv) = option_map sh2g (shared_modular_value lm lv rm rv).

  Lemma foldM_shared : forall rest m v, md_nonneg m -> Forall (fun a => md_nonneg a.(md)) rest ->
    py_foldM (fun (st : ext * ext) (arg : grec) =>
                let '(rm, rv) := st in
                match gsh (rm, rv) (g_modulus arg, g_modular_value arg) with
                | Some p => let '(rm', rv') := p in Some (rm', rv')
                | None => None
                end) (map a2g rest) (m2e m, Fin v)
    = option_map sh2g (shared_fold m v rest).
  Proof.
    induction rest as [|a rest IH]; intros m v Hm Hall.
    - reflexivity.
    - inversion Hall as [|? ? Ha Hrest]; subst.
      cbn [map py_foldM shared_fold a2g g_modulus g_modular_value].
      rewrite gsh_ok by assumption.
      destruct (shared_modular_value m v (md a) (mv a)) as [[m' v']|] eqn:E; cbn [option_map sh2g fst snd].
      + apply IH; [exact (shared_nonneg _ _ _ _ _ _ Hm Ha E)|assumption].
      + reflexivity.
  Qed.
End MaxLoop.

Ltac bx_proj :=
  cbn [py_int m2e fst snd g_minimum_value g_maximum_value g_modulus g_modular_value a2g lo hi md mv
       py_nth nth_error map tl ext_min_list ext_max_list fold_left].

(* ---------- decidable comparisons used when a generated equality stops checking:
   both sides are evaluated on a grid of arguments and compared with these ---------- *)
Definition bx_opt {A} (f : A -> A -> bool) (a b : option A) : bool :=
  match a, b with None, None => true | Some x, Some y => f x y | _, _ => false end.
Definition bx_pair_eqb (a b : ext * ext) : bool := ext_eqb (fst a) (fst b) && ext_eqb (snd a) (snd b).
Definition grec_eqb (a b : grec) : bool :=
  ext_eqb a.(g_minimum_value) b.(g_minimum_value) && ext_eqb a.(g_maximum_value) b.(g_maximum_value)
  && ext_eqb a.(g_modulus) b.(g_modulus) && ext_eqb a.(g_modular_value) b.(g_modular_value).
Definition bx_mod_eqb (a b : modulus) : bool := ext_eqb (m2e a) (m2e b).
Definition aval_eqb' (a b : aval) : bool :=
  ext_eqb a.(lo) b.(lo) && ext_eqb a.(hi) b.(hi) && bx_mod_eqb a.(md) b.(md) && (a.(mv) =? b.(mv)).
