(* C05 — property-level corollaries of analyze_sound and of the gate theorems. *)
From Coq Require Import ZArith List Bool Lia ZifyBool.
Import ListNotations.
Require Import EmbossV.Bounds.Model EmbossV.Bounds.ProofsExt EmbossV.Bounds.Proofs
  EmbossV.Bounds.Sound EmbossV.Bounds.Gate EmbossV.Bounds.Exec.
Open Scope Z_scope.

Lemma bounds_sound_lem G r e a v :
  env_in G r -> bounds_of G e = Some a -> eval G r e = Some v -> in_ares a v.
Proof.
  intros Henv Hb He. unfold bounds_of in Hb.
  destruct (analyze G e) as [i|] eqn:E; [|discriminate]. cbn in Hb. inversion Hb; subst a.
  exact (proj1 (analyze_sound G r Henv e i v E He)).
Qed.

(* the same statement spelled out for integers: interval and congruence *)
Lemma integer_bounds_sound_lem G r e a x :
  env_in G r -> bounds_of G e = Some (AInt a) -> eval G r e = Some (VInt x) ->
  ext_le a.(lo) (Fin x) /\ ext_le (Fin x) a.(hi) /\
  match a.(md) with
  | None => x = a.(mv)                       (* modulus "infinity": the expression is that constant *)
  | Some m => (x - a.(mv)) mod m = 0 \/ (m = 0 /\ x = a.(mv))
  end.
Proof.
  intros Henv Hb He. pose proof (bounds_sound_lem _ _ _ _ _ Henv Hb He) as H.
  cbn in H. destruct H as (H1 & H2 & H3). repeat split; auto.
  destruct (md a) as [m|]; [|exact H3].
  destruct (Z.eq_dec m 0) as [->|Hm].
  - right. split; [reflexivity|]. apply Z.divide_0_l in H3. lia.
  - left. apply Z.mod_divide; assumption.
Qed.

Lemma constant_value_exact_lem G r e c v :
  env_in G r -> constant_value G e = Some c -> eval G r e = Some v -> v = c.
Proof.
  intros Henv Hc He. unfold constant_value in Hc.
  destruct (analyze G e) as [i|] eqn:E; [|discriminate].
  symmetry. exact (proj2 (analyze_sound G r Henv e i v E He) c Hc).
Qed.

(* an expression whose annotation is constant (modulus infinity / boolean value set) has exactly that value *)
Lemma constant_type_exact_lem G r e a v :
  env_in G r -> bounds_of G e = Some a -> ares_is_constant a = true -> eval G r e = Some v ->
  match a with
  | AInt i => v = VInt i.(mv)
  | ABool (Some b) => v = VBool b
  | AEnum (Some z) => v = VEnum z
  | _ => False
  end.
Proof.
  intros Henv Hb Hc He. pose proof (bounds_sound_lem _ _ _ _ _ Henv Hb He) as H.
  destruct a as [i|[b|]|[z|]]; cbn in Hc; try discriminate.
  - destruct (md i) eqn:Em; [discriminate|]. destruct v; cbn in H; try contradiction.
    unfold in_aval in H. rewrite Em in H. f_equal. tauto.
  - destruct v; cbn in H; try contradiction. congruence.
  - destruct v; cbn in H; try contradiction. congruence.
Qed.

(* $upper_bound / $lower_bound are true bounds of their argument *)
Lemma upper_bound_true_lem G r a u x :
  env_in G r -> eval G r (EUpper a) = Some (VInt u) -> eval G r a = Some (VInt x) -> x <= u.
Proof.
  intros Henv Hu Hx. cbn [eval] in Hu.
  destruct (bounds_of G a) as [[av| |]|] eqn:Eb; try discriminate.
  destruct (hi av) as [|h|] eqn:Eh; try discriminate. inversion Hu; subst u.
  pose proof (bounds_sound_lem _ _ _ _ _ Henv Eb Hx) as H. cbn in H.
  destruct H as (_ & H & _). rewrite Eh in H. exact H.
Qed.
Lemma lower_bound_true_lem G r a u x :
  env_in G r -> eval G r (ELower a) = Some (VInt u) -> eval G r a = Some (VInt x) -> u <= x.
Proof.
  intros Henv Hu Hx. cbn [eval] in Hu.
  destruct (bounds_of G a) as [[av| |]|] eqn:Eb; try discriminate.
  destruct (lo av) as [|l|] eqn:El; try discriminate. inversion Hu; subst u.
  pose proof (bounds_sound_lem _ _ _ _ _ Henv Eb Hx) as H. cbn in H.
  destruct H as (H & _ & _). rewrite El in H. exact H.
Qed.

(* leaf ranges: a w-bit unsigned / two's complement value is inside the leaf's abstract value *)
Lemma leaf_uint_sound_lem w x : 0 <= w -> 0 <= x < 2 ^ w -> in_aval (leaf_aval KUInt (Some w)) x.
Proof.
  intros Hw Hx. unfold in_aval, leaf_aval. destruct (w <? 1); cbn; repeat split; try lia; try exact I; apply Z.divide_1_l.
Qed.
Lemma leaf_int_sound_lem w x : 1 <= w -> - 2 ^ (w - 1) <= x < 2 ^ (w - 1) -> in_aval (leaf_aval KInt (Some w)) x.
Proof.
  intros Hw Hx. unfold in_aval, leaf_aval. destruct (w <? 1); cbn; repeat split; try lia; try exact I; apply Z.divide_1_l.
Qed.
Lemma leaf_unknown_size_sound_lem k x : in_aval (leaf_aval k None) x.
Proof. unfold in_aval; cbn. repeat split; auto. apply Z.divide_1_l. Qed.

(* The gate, end to end: for an accepted expression, every run-time operation node and all of its
   integer operands lie in one 64-bit type, and the C++ type the back end picks for the union of
   their ranges exists and contains that union. *)
Lemma gate_cpp_type_lem G e n :
  gate G e = true -> rt_node G e n ->
  exists sg, Forall (clause_fits G sg) (n :: children n) /\
             forall mn mx, fits sg mn mx = true ->
                           exists t, cpp_type_for_range mn mx = Some t /\
                                     cpp_type_lo t <= mn /\ mx <= cpp_type_hi t.
Proof.
  intros Hg Hn. destruct (gate_fits G e n Hg Hn) as [sg H]. exists sg. split; [exact H|].
  intros mn mx Hf. destruct (cpp_type_for_range_total mn mx sg Hf) as (t & A & B & C & _).
  exists t. auto.
Qed.

(* Leaves as the front end produces them never trip the pass's own consistency assertion: a field of
   a possible width (>= 1) has lo < hi, and a field of an impossible width gets the unbounded range
   (fix 90ef553; before it, a zero-width leaf gave [0,0] with modulus 1 and the assertion fired —
   finding F18). *)
Lemma leaf_consistent_lem k w : aval_consistent (leaf_aval k w) = true.
Proof.
  destruct w as [w|]; [|reflexivity]. unfold leaf_aval.
  destruct (w <? 1) eqn:E; [reflexivity|].
  assert (Hw : 1 <= w) by lia.
  assert (P : 0 < 2 ^ (w - 1)) by (apply Z.pow_pos_nonneg; lia).
  assert (Q : 2 ^ w = 2 * 2 ^ (w - 1)).
  { replace w with (1 + (w - 1)) at 1 by lia. rewrite Z.pow_add_r by lia. reflexivity. }
  destruct k; unfold aval_consistent; cbn [md lo hi mv ext_eqb].
  - rewrite !Z.mod_1_r. lia.
  - rewrite !Z.mod_1_r. lia.
  - rewrite !Z.mod_1_r.
    assert (R : 0 < 10 ^ (w / 4)) by (apply Z.pow_pos_nonneg; [lia|apply Z.div_pos; lia]).
    assert (S : 0 < 2 ^ (w mod 4)) by (apply Z.pow_pos_nonneg; [lia|apply Z.mod_pos_bound; lia]).
    assert (T : 2 <= 10 ^ (w / 4) * 2 ^ (w mod 4)).
    { destruct (Z_lt_ge_dec w 4) as [L|L].
      - rewrite Z.div_small by lia. rewrite Z.mod_small by lia.
        change (10 ^ 0) with 1. rewrite Z.mul_1_l.
        assert (2 ^ 1 <= 2 ^ w) by (apply Z.pow_le_mono_r; lia). change (2 ^ 1) with 2 in *. lia.
      - assert (1 <= w / 4) by (apply Z.div_le_lower_bound; lia).
        assert (10 ^ 1 <= 10 ^ (w / 4)) by (apply Z.pow_le_mono_r; lia). change (10 ^ 1) with 10 in *. nia. }
    lia.
Qed.

(* Non-vacuity: a concrete expression over concrete leaves is analysed, passes the gate, evaluates. *)
Definition ex_G : tenv := tenv_of_specs [(KUInt, Some 8); (KInt, Some 16)].
Definition ex_e : expr :=
  EAdd (EMul (EVar 0) (EConst 4)) (EChoice (ECmp CLt (EVar 1) (EConst 0)) (EConst 2) (EMax [EVar 0; EConst 6])).
Definition ex_r : env := mk_env (fun i => match i with O => 200 | _ => -5 end) (fun _ => false) (fun _ => 0).

Lemma example_nonvacuous_lem :
  env_in ex_G ex_r /\
  bounds_of ex_G ex_e = Some (AInt (mk_aval (Fin 2) (Fin 1275) (Some 1) 0)) /\
  eval ex_G ex_r ex_e = Some (VInt 802) /\ gate ex_G ex_e = true /\ rt_node ex_G ex_e ex_e.
Proof.
  split; [|split; [|split; [|split]]]; try (vm_compute; reflexivity).
  - intros [|[|i]]; unfold in_aval, ex_G, tenv_of_specs; cbn [nth_error ints ex_r];
      [| |destruct i]; cbn; repeat split; try lia; try apply Z.divide_1_l; try exact I.
  - apply rt_here. vm_compute. reflexivity.
Qed.
