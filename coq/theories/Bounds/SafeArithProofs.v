(* C04 / C05 — proof that the 64-bit gate makes the generated C++ arithmetic overflow-free:
   [ceval] (SafeArith.v) agrees with the unbounded semantics [eval] on every gated expression. *)
From Coq Require Import ZArith List Bool Lia ZifyBool.
Import ListNotations.
Require Import EmbossV.Bounds.Model EmbossV.Bounds.ProofsExt EmbossV.Bounds.Proofs
  EmbossV.Bounds.Sound EmbossV.Bounds.Gate EmbossV.Bounds.Corollaries EmbossV.Bounds.EvalTotal
  EmbossV.Bounds.SafeArith EmbossV.Bounds.Exec.
Open Scope Z_scope.

(* ---------- constants ---------- *)
Lemma const_of_ann_none a : const_of_ann a = None -> ares_is_constant a = false.
Proof.
  destruct a as [i|[b|]|[z|]]; cbn; try discriminate; try reflexivity.
  destruct (md i); [reflexivity|discriminate].
Qed.

Lemma const_of_ann_some G r e a c v :
  env_in G r -> bounds_of G e = Some a -> const_of_ann a = Some c -> eval G r e = Some v -> v = c.
Proof.
  intros Henv Hb Hc He.
  assert (K : ares_is_constant a = true).
  { destruct a as [i|[b|]|[z|]]; cbn in *; try discriminate; try reflexivity.
    destruct (md i); [discriminate|reflexivity]. }
  pose proof (constant_type_exact_lem _ _ _ _ _ Henv Hb K He) as H.
  destruct a as [i|[b|]|[z|]]; cbn in Hc; try discriminate.
  - destruct (md i); [discriminate|]. congruence.
  - congruence.
  - congruence.
Qed.

(* ---------- folds of min / max ---------- *)
Lemma fold_min_le rest : forall l,
  fold_left Z.min rest l <= l /\ forall x, In x rest -> fold_left Z.min rest l <= x.
Proof.
  induction rest as [|y t IH]; intros l; cbn [fold_left]; [split; [lia|intros x []]|].
  destruct (IH (Z.min l y)) as [A B]. split; [lia|].
  intros x [<-|Hx]; [lia|auto].
Qed.

Lemma fold_min_glb rest : forall l m,
  m <= l -> (forall x, In x rest -> m <= x) -> m <= fold_left Z.min rest l.
Proof.
  induction rest as [|y t IH]; intros l m Hl H; cbn [fold_left]; [exact Hl|].
  apply IH; [|intros x Hx; apply H; right; exact Hx].
  pose proof (H y (or_introl eq_refl)). lia.
Qed.

Lemma fold_max_ge rest : forall h,
  h <= fold_left Z.max rest h /\ forall x, In x rest -> x <= fold_left Z.max rest h.
Proof.
  induction rest as [|y t IH]; intros h; cbn [fold_left]; [split; [lia|intros x []]|].
  destruct (IH (Z.max h y)) as [A B]. split; [lia|].
  intros x [<-|Hx]; [lia|auto].
Qed.

Lemma fold_max_lub rest : forall h m,
  h <= m -> (forall x, In x rest -> x <= m) -> fold_left Z.max rest h <= m.
Proof.
  induction rest as [|y t IH]; intros h m Hh H; cbn [fold_left]; [exact Hh|].
  apply IH; [|intros x Hx; apply H; right; exact Hx].
  pose proof (H y (or_introl eq_refl)). lia.
Qed.

(* ---------- one signedness for a whole node ---------- *)
Definition fits_lo (sg : bool) : Z := if sg then - 2 ^ 63 else 0.
Definition fits_hi (sg : bool) : Z := if sg then 2 ^ 63 - 1 else 2 ^ 64 - 1.

Lemma fits_iff sg l h : fits sg l h = true <-> fits_lo sg <= l /\ h <= fits_hi sg.
Proof.
  unfold fits, fits_i64, fits_u64, fits_lo, fits_hi.
  set (a := 2 ^ 63). set (b := 2 ^ 64). destruct sg; lia.
Qed.

Lemma fold_fits sg l h rest :
  Forall (fun lh => fits sg (fst lh) (snd lh) = true) ((l, h) :: rest) ->
  fits sg (fold_left Z.min (map fst rest) l) (fold_left Z.max (map snd rest) h) = true.
Proof.
  intros H. inversion H as [|x t H1 H2]; subst. cbn [fst snd] in H1.
  apply fits_iff in H1. apply fits_iff. rewrite Forall_forall in H2. split.
  - apply fold_min_glb; [tauto|]. intros x Hx. apply in_map_iff in Hx.
    destruct Hx as (lh & <- & Hin). specialize (H2 lh Hin). apply fits_iff in H2. tauto.
  - apply fold_max_lub; [tauto|]. intros x Hx. apply in_map_iff in Hx.
    destruct Hx as (lh & <- & Hin). specialize (H2 lh Hin). apply fits_iff in H2. tauto.
Qed.

Lemma fold_contains l h rest l' h' :
  In (l', h') ((l, h) :: rest) ->
  fold_left Z.min (map fst rest) l <= l' /\ h' <= fold_left Z.max (map snd rest) h.
Proof.
  destruct (fold_min_le (map fst rest) l) as [A1 A2].
  destruct (fold_max_ge (map snd rest) h) as [B1 B2].
  intros [E|Hin].
  - inversion E; subst. split; assumption.
  - split.
    + apply A2. apply in_map_iff. exists (l', h'). split; [reflexivity|exact Hin].
    + apply B2. apply in_map_iff. exists (l', h'). split; [reflexivity|exact Hin].
Qed.

Lemma ranges_fits G sg cs :
  Forall (clause_fits G sg) cs ->
  exists L, ranges G cs = Some L /\
            Forall (fun lh => fits sg (fst lh) (snd lh) = true) L /\
            forall c a, In c cs -> bounds_of G c = Some (AInt a) ->
                        exists l h, lo a = Fin l /\ hi a = Fin h /\ In (l, h) L.
Proof.
  induction 1 as [|c t Hc Ht IH].
  - exists []. split; [reflexivity|]. split; [constructor|]. intros c a [].
  - destruct IH as (L & HL & HF & HI).
    unfold clause_fits in Hc. cbn [ranges]. unfold is_int_clause, int_range.
    destruct (bounds_of G c) as [[a| |]|] eqn:Eb; try contradiction.
    + destruct (lo a) as [|l|] eqn:El; try contradiction.
      destruct (hi a) as [|h|] eqn:Eh; try contradiction.
      rewrite HL. exists ((l, h) :: L). split; [reflexivity|]. split; [constructor; assumption|].
      intros c' a' [<-|Hin] Hb.
      * rewrite Eb in Hb. inversion Hb; subst a'. exists l, h. rewrite El, Eh. repeat split. left; reflexivity.
      * destruct (HI c' a' Hin Hb) as (l' & h' & A & B & C). exists l', h'. repeat split; auto. right; exact C.
    + exists L. split; [exact HL|]. split; [exact HF|].
      intros c' a' [<-|Hin] Hb; [rewrite Eb in Hb; discriminate|eauto].
    + exists L. split; [exact HL|]. split; [exact HF|].
      intros c' a' [<-|Hin] Hb; [rewrite Eb in Hb; discriminate|eauto].
Qed.

(* ---------- a gated run-time node: IntermediateT exists and holds every operand and the result ---------- *)
Lemma node_type G r e a :
  env_in G r -> gate G e = true -> bounds_of G e = Some a ->
  is_function e = true -> const_of_ann a = None ->
  (forall c, In c (children e) -> gate G c = true) /\
  exists ty, intermediate G e = Some ty /\
             forall c v, In c (e :: children e) -> eval G r c = Some v -> in_cpp ty v = true.
Proof.
  intros Henv Hg Hb Hf Hc. apply const_of_ann_none in Hc.
  assert (Hrt : runtime_fn G e = true).
  { unfold runtime_fn. rewrite Hb, Hf, Hc. reflexivity. }
  split.
  - pose proof Hg as Hg'. rewrite gate_unfold, Hb, Hf, Hc in Hg'. cbn [negb andb] in Hg'.
    apply andb_prop in Hg'. destruct Hg' as [Hg' _]. apply andb_prop in Hg'. destruct Hg' as [Hg' _].
    rewrite forallb_forall in Hg'. exact Hg'.
  - destruct (gate_fits G e e Hg (rt_here G e Hrt)) as [sg HF].
    destruct (ranges_fits G sg _ HF) as (L & HL & HFit & HI).
    unfold intermediate. rewrite HL.
    assert (Hval : forall c z, In c (e :: children e) -> eval G r c = Some (VInt z) ->
                               exists l h, In (l, h) L /\ l <= z <= h).
    { intros c z Hin He. rewrite Forall_forall in HF. pose proof (HF c Hin) as Hcf.
      unfold clause_fits in Hcf. destruct (bounds_of G c) as [rc|] eqn:Ec; [|contradiction].
      pose proof (bounds_sound_lem _ _ _ _ _ Henv Ec He) as Hs.
      destruct rc as [ac|[?|]|[?|]]; cbn in Hs; try contradiction.
      destruct (HI c ac Hin Ec) as (l & h & El & Eh & HinL). exists l, h. split; [exact HinL|].
      destruct Hs as (S1 & S2 & _). rewrite El in S1. rewrite Eh in S2. cbn in S1, S2. lia. }
    destruct L as [|[l h] rest].
    + exists None. split; [reflexivity|]. intros c v _ _. reflexivity.
    + destruct (cpp_type_for_range_total _ _ sg (fold_fits sg l h rest HFit)) as (t & Et & T1 & T2 & _).
      rewrite Et. exists (Some t). split; [reflexivity|].
      intros c v Hin He. destruct v as [z| |]; try reflexivity.
      destruct (Hval c z Hin He) as (l' & h' & HinL & Hz).
      destruct (fold_contains l h rest l' h' HinL) as [F1 F2].
      cbn [in_cpp]. lia.
Qed.

(* ---------- $max arguments ---------- *)
Lemma max_args G r ty args :
  Forall (fun a => forall v, gate G a = true -> eval G r a = Some v -> ceval G r a = Some v) args ->
  (forall c, In c args -> gate G c = true) ->
  (forall c v, In c args -> eval G r c = Some v -> in_cpp ty v = true) ->
  forall zs,
    sequence (map (fun a => match eval G r a with Some (VInt z) => Some z | _ => None end) args) = Some zs ->
    sequence (map (ceval G r) args) = Some (map VInt zs) /\
    forallb (in_cpp ty) (map VInt zs) = true /\
    sequence (map (fun v => match v with VInt z => Some z | _ => None end) (map VInt zs)) = Some zs.
Proof.
  induction 1 as [|a t Ha Ht IH]; intros Hg Hin zs Hs.
  - cbn in Hs. inversion Hs; subst. cbn. auto.
  - cbn [map sequence] in Hs.
    destruct (eval G r a) as [[z| |]|] eqn:Ea; try discriminate.
    destruct (sequence (map (fun a => match eval G r a with Some (VInt z) => Some z | _ => None end) t))
      as [zs0|] eqn:Es; [|discriminate].
    inversion Hs; subst zs; clear Hs.
    destruct (IH (fun c Hc => Hg c (or_intror Hc)) (fun c v Hc => Hin c v (or_intror Hc)) zs0 eq_refl)
      as (I1 & I2 & I3).
    cbn [map sequence forallb].
    rewrite (Ha (VInt z) (Hg a (or_introl eq_refl)) eq_refl), I1, I2, I3.
    rewrite (Hin a (VInt z) (or_introl eq_refl) Ea). auto.
Qed.

Lemma gate_bounds G e : gate G e = true -> exists a, bounds_of G e = Some a.
Proof.
  rewrite gate_unfold. destruct (bounds_of G e) as [a|]; [eauto|discriminate].
Qed.

Lemma gate_analyze G e : gate G e = true -> exists i, analyze G e = Some i.
Proof.
  intros H. destruct (gate_bounds G e H) as [a Ha]. unfold bounds_of in Ha.
  destruct (analyze G e) as [i|]; [eauto|discriminate].
Qed.

(* ---------- the theorem ---------- *)
Theorem safe_arith : forall G r e v,
  env_in G r -> gate G e = true -> eval G r e = Some v -> ceval G r e = Some v.
Proof.
  intros G r e v Henv. revert v.
  induction e using expr_ind2; intros v Hg He;
    destruct (gate_bounds G _ Hg) as [an Han];
    cbn [ceval]; rewrite Han;
    (destruct (const_of_ann an) as [cst|] eqn:Ec;
     [f_equal; symmetry; exact (const_of_ann_some G r _ an cst v Henv Han Ec He)|]);
    try exact He.
  1-6: (destruct (node_type G r _ an Henv Hg Han eq_refl Ec) as (Hch & ty & Hty & Hin);
    rewrite Hty; pose proof He as He'; cbn [eval] in He';
    destruct (eval G r e1) as [[?|?|?]|] eqn:E1; try discriminate;
    destruct (eval G r e2) as [[?|?|?]|] eqn:E2; try discriminate;
    rewrite (IHe1 _ (Hch e1 (or_introl eq_refl)) eq_refl),
            (IHe2 _ (Hch e2 (or_intror (or_introl eq_refl))) eq_refl);
    unfold guarded; cbn [forallb];
    rewrite (Hin e1 _ (or_intror (or_introl eq_refl)) E1),
            (Hin e2 _ (or_intror (or_intror (or_introl eq_refl))) E2);
    inversion He'; subst v;
    rewrite (Hin _ _ (or_introl eq_refl) He); reflexivity).
  - (* EChoice: C++ evaluates both branches *)
    destruct (node_type G r _ an Henv Hg Han eq_refl Ec) as (Hch & ty & Hty & Hin).
    rewrite Hty. pose proof He as He'. cbn [eval] in He'.
    destruct (eval G r e1) as [[?|b|?]|] eqn:E1; try discriminate.
    pose proof (Hch e1 (or_introl eq_refl)) as G1.
    pose proof (Hch e2 (or_intror (or_introl eq_refl))) as G2.
    pose proof (Hch e3 (or_intror (or_intror (or_introl eq_refl)))) as G3.
    destruct (gate_analyze G e2 G2) as [i2 A2]. destruct (eval_total G r Henv e2 i2 A2) as (vt & Vt & _).
    destruct (gate_analyze G e3 G3) as [i3 A3]. destruct (eval_total G r Henv e3 i3 A3) as (vf & Vf & _).
    rewrite (IHe1 _ G1 eq_refl), (IHe2 _ G2 Vt), (IHe3 _ G3 Vf).
    unfold guarded. cbn [forallb].
    rewrite (Hin e1 _ (or_intror (or_introl eq_refl)) E1),
            (Hin e2 _ (or_intror (or_intror (or_introl eq_refl))) Vt),
            (Hin e3 _ (or_intror (or_intror (or_intror (or_introl eq_refl)))) Vf).
    cbn [andb].
    destruct b.
    + assert (vt = v) by congruence. subst vt. rewrite (Hin _ _ (or_introl eq_refl) He). reflexivity.
    + assert (vf = v) by congruence. subst vf. rewrite (Hin _ _ (or_introl eq_refl) He). reflexivity.
  - (* EMax *)
    destruct (node_type G r _ an Henv Hg Han eq_refl Ec) as (Hch & ty & Hty & Hin).
    rewrite Hty. pose proof He as He'. cbn [eval] in He'.
    destruct (sequence (map (fun a => match eval G r a with Some (VInt z) => Some z | _ => None end) args))
      as [zs|] eqn:Es; [|discriminate].
    destruct (max_args G r ty args H Hch (fun c v Hc => Hin c v (or_intror Hc)) zs Es) as (M1 & M2 & M3).
    rewrite M1. unfold guarded. rewrite M3, He', M2. cbn [andb].
    rewrite (Hin _ _ (or_introl eq_refl) He). reflexivity.
Qed.

(* ---------- non-vacuity: 64-bit-range operands, unsigned 64-bit IntermediateT ---------- *)
Definition sa_G : tenv := tenv_of_specs [(KUInt, Some 64); (KUInt, Some 64); (KUInt, Some 32); (KUInt, Some 32)].
Definition sa_prod : expr := EAdd (EMul (EVar 2) (EVar 3)) (EVar 2).        (* up to 2^64 - 2^32 *)
Definition sa_e : expr :=
  EChoice (ECmp CLe sa_prod (EVar 0)) (EMax [EVar 0; EVar 1]) sa_prod.
Definition sa_r : env :=
  mk_env (fun i => match i with
                   | O => 2 ^ 64 - 1 | S O => 2 ^ 63 | _ => 2 ^ 32 - 1
                   end) (fun _ => false) (fun _ => 0).

Lemma sa_env_in : env_in sa_G sa_r.
Proof.
  intros [|[|[|[|i]]]]; unfold in_aval, sa_G, tenv_of_specs; cbn [nth_error ints sa_r];
    [| | | |destruct i]; cbn; repeat split; try lia; try apply Z.divide_1_l; try exact I.
Qed.

Example safe_arith_nonvacuous :
  env_in sa_G sa_r /\ gate sa_G sa_e = true /\
  intermediate sa_G sa_e = Some (Some (false, 64)) /\
  intermediate sa_G sa_prod = Some (Some (false, 64)) /\
  eval sa_G sa_r sa_e = Some (VInt (2 ^ 64 - 1)) /\
  ceval sa_G sa_r sa_e = Some (VInt (2 ^ 64 - 1)) /\
  eval sa_G sa_r sa_prod = Some (VInt (2 ^ 64 - 2 ^ 32)) /\
  ceval sa_G sa_r sa_prod = Some (VInt (2 ^ 64 - 2 ^ 32)).
Proof.
  split; [exact sa_env_in|]. repeat split; vm_compute; reflexivity.
Qed.

(* the theorem instantiated on the example (hypotheses are satisfiable) *)
Example safe_arith_instance : ceval sa_G sa_r sa_e = eval sa_G sa_r sa_e.
Proof.
  destruct (eval sa_G sa_r sa_e) as [v|] eqn:E; [|vm_compute in E; discriminate].
  apply safe_arith; [exact sa_env_in|vm_compute; reflexivity|exact E].
Qed.

(* ---------- the gate is needed: Int:64 field minus UInt:64 field ---------- *)
Definition rf_G : tenv := tenv_of_specs [(KInt, Some 64); (KUInt, Some 64)].
Definition rf_r : env := mk_env (fun i => match i with O => 0 | _ => 1 end) (fun _ => false) (fun _ => 0).

Lemma rf_env_in : env_in rf_G rf_r.
Proof.
  intros [|[|i]]; unfold in_aval, rf_G, tenv_of_specs; cbn [nth_error ints rf_r];
    [| |destruct i]; cbn; repeat split; try lia; try apply Z.divide_1_l; try exact I.
Qed.

Theorem safe_arith_refuted_without_gate :
  exists G r e v, env_in G r /\ gate G e = false /\ eval G r e = Some v /\ ceval G r e = None.
Proof.
  exists rf_G, rf_r, (ESub (EVar 0) (EVar 1)), (VInt (-1)).
  split; [exact rf_env_in|]. repeat split; vm_compute; reflexivity.
Qed.

(* same with a result that is only a boolean: the operands alone have no common C++ type *)
Theorem safe_arith_refuted_without_gate_cmp :
  exists G r e v, env_in G r /\ gate G e = false /\ own_bounds_ok (ABool None) = true /\
                  eval G r e = Some v /\ ceval G r e = None.
Proof.
  exists rf_G, rf_r, (ECmp CLt (EVar 0) (EVar 1)), (VBool true).
  split; [exact rf_env_in|]. repeat split; vm_compute; reflexivity.
Qed.

Print Assumptions safe_arith.
Print Assumptions safe_arith_refuted_without_gate.
