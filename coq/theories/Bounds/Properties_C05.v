From Coq Require Import ZArith List Bool.
Require Import EmbossV.Bounds.Model.
Lemma placeholder : True. Proof. exact I. Qed.
