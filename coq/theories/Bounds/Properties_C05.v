(* C05 — property theorems.  This file contains statements only; every proof is
   `exact <lemma>` so that a statement cannot be weakened silently. *)
From Coq Require Import ZArith List Bool.
Import ListNotations.
Require Import EmbossV.Bounds.Model EmbossV.Bounds.Gate EmbossV.Bounds.Exec EmbossV.Bounds.Corollaries.
Open Scope Z_scope.

(* For every expression tree, every leaf environment G and every concrete environment r whose
   integer leaves lie in G: the value lies in the inferred interval and congruence class. *)
Theorem bounds_sound : forall G r e a v,
  env_in G r -> bounds_of G e = Some a -> eval G r e = Some v -> in_ares a v.
Proof. exact bounds_sound_lem. Qed.
Print Assumptions bounds_sound.

Theorem integer_bounds_sound : forall G r e a x,
  env_in G r -> bounds_of G e = Some (AInt a) -> eval G r e = Some (VInt x) ->
  ext_le a.(lo) (Fin x) /\ ext_le (Fin x) a.(hi) /\
  match a.(md) with
  | None => x = a.(mv)
  | Some m => (x - a.(mv)) mod m = 0 \/ (m = 0 /\ x = a.(mv))
  end.
Proof. exact integer_bounds_sound_lem. Qed.
Print Assumptions integer_bounds_sound.

(* ir_util.constant_value is exact *)
Theorem constant_value_exact : forall G r e c v,
  env_in G r -> constant_value G e = Some c -> eval G r e = Some v -> v = c.
Proof. exact constant_value_exact_lem. Qed.
Print Assumptions constant_value_exact.

(* an expression the compiler treats as constant (is_constant_type) has exactly that value *)
Theorem constant_type_exact : forall G r e a v,
  env_in G r -> bounds_of G e = Some a -> ares_is_constant a = true -> eval G r e = Some v ->
  match a with
  | AInt i => v = VInt i.(mv)
  | ABool (Some b) => v = VBool b
  | AEnum (Some z) => v = VEnum z
  | _ => False
  end.
Proof. exact constant_type_exact_lem. Qed.
Print Assumptions constant_type_exact.

Theorem upper_bound_true : forall G r a u x,
  env_in G r -> eval G r (EUpper a) = Some (VInt u) -> eval G r a = Some (VInt x) -> x <= u.
Proof. exact upper_bound_true_lem. Qed.
Print Assumptions upper_bound_true.

Theorem lower_bound_true : forall G r a u x,
  env_in G r -> eval G r (ELower a) = Some (VInt u) -> eval G r a = Some (VInt x) -> u <= x.
Proof. exact lower_bound_true_lem. Qed.
Print Assumptions lower_bound_true.

(* leaf ranges of _set_integer_constraints_from_physical_type *)
Theorem leaf_uint_sound : forall w x, 0 <= w -> 0 <= x < 2 ^ w -> in_aval (leaf_aval KUInt (Some w)) x.
Proof. exact leaf_uint_sound_lem. Qed.
Theorem leaf_int_sound : forall w x,
  1 <= w -> - 2 ^ (w - 1) <= x < 2 ^ (w - 1) -> in_aval (leaf_aval KInt (Some w)) x.
Proof. exact leaf_int_sound_lem. Qed.
Theorem leaf_unknown_size_sound : forall k x, in_aval (leaf_aval k None) x.
Proof. exact leaf_unknown_size_sound_lem. Qed.

(* the 64-bit gate *)
Theorem gate_fits : forall G e n,
  gate G e = true -> rt_node G e n ->
  exists sg, Forall (clause_fits G sg) (n :: children n).
Proof. exact Gate.gate_fits. Qed.
Print Assumptions gate_fits.

Theorem gate_cpp_type : forall G e n,
  gate G e = true -> rt_node G e n ->
  exists sg, Forall (clause_fits G sg) (n :: children n) /\
             forall mn mx, fits sg mn mx = true ->
                           exists t, cpp_type_for_range mn mx = Some t /\
                                     cpp_type_lo t <= mn /\ mx <= cpp_type_hi t.
Proof. exact gate_cpp_type_lem. Qed.
Print Assumptions gate_cpp_type.

Theorem cpp_type_for_range_contains : forall mn mx t,
  cpp_type_for_range mn mx = Some t -> cpp_type_lo t <= mn /\ mx <= cpp_type_hi t.
Proof. exact Gate.cpp_type_for_range_contains. Qed.

(* The leaves the front end produces never trip the pass's own consistency assertion
   (_assert_integer_constraints): fields of a possible width have lo < hi, fields of an impossible
   width get the unbounded range since fix 90ef553 (before it a zero-width leaf fired the assertion:
   finding F18, reproduced by this development and then repaired). *)
Theorem leaf_consistent : forall k w, aval_consistent (leaf_aval k w) = true.
Proof. exact leaf_consistent_lem. Qed.
Print Assumptions leaf_consistent.

(* the hypotheses above are satisfiable by a non-trivial instance *)
Example example_nonvacuous :
  env_in ex_G ex_r /\
  bounds_of ex_G ex_e = Some (AInt (mk_aval (Fin 2) (Fin 1275) (Some 1) 0)) /\
  eval ex_G ex_r ex_e = Some (VInt 802) /\ gate ex_G ex_e = true /\ rt_node ex_G ex_e ex_e.
Proof. exact example_nonvacuous_lem. Qed.

(* ---------- tightness ---------- *)
Require Import EmbossV.Bounds.Tight.

(* For +, -, * over leaves with finite ranges, each leaf occurring once, both inferred bounds are
   attained by some environment (?: is refuted below; $max is tight_arith_max). *)
Theorem tight_arith : forall G e,
  arith e = true -> NoDup (vars e) -> (forall i, In i (vars e) -> finite_leaf G i) ->
  forall a, bounds_of G e = Some (AInt a) ->
  exists l h, a.(lo) = Fin l /\ a.(hi) = Fin h /\ attains G e l /\ attains G e h.
Proof. exact Tight.tight_arith. Qed.
Print Assumptions tight_arith.

(* The same with $max(...) of such expressions, nested arbitrarily: the inferred lower bound (the
   largest of the arguments' minima) and upper bound (the largest of their maxima) are attained. *)
Require Import EmbossV.Bounds.TightMax.
Theorem tight_arith_max : forall G e,
  arithm e = true -> NoDup (varsm e) -> (forall i, In i (varsm e) -> finite_leaf G i) ->
  forall a, bounds_of G e = Some (AInt a) ->
  exists l h, a.(lo) = Fin l /\ a.(hi) = Fin h /\ attainsm G e l /\ attainsm G e h.
Proof. exact TightMax.tight_arith_max. Qed.
Print Assumptions tight_arith_max.

(* Finding F7: "tight for expressions without repeated variables" is false for ?: *)
Theorem tight_choice_refuted :
  (exists a, bounds_of f7_G f7_e = Some (AInt a) /\ hi a = Fin 20) /\
  (forall r, env_in f7_G r -> eval f7_G r f7_e = Some (VInt 10)).
Proof. exact Tight.tight_choice_refuted. Qed.
