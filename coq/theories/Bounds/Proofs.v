(* C05 — soundness of every transfer function and of the whole analysis. *)
From Coq Require Import ZArith List Bool Lia ZifyBool Znumtheory.
Import ListNotations.
Require Import EmbossV.Bounds.Model EmbossV.Bounds.ProofsExt.
Open Scope Z_scope.

(* ---------- moduli as integers: "infinity" behaves as 0 in the divisibility order ---------- *)
Definition mz (m : modulus) : Z := match m with None => 0 | Some z => z end.

Lemma in_aval_iff a x :
  in_aval a x <-> ext_le a.(lo) (Fin x) /\ ext_le (Fin x) a.(hi) /\ (mz a.(md) | x - a.(mv)).
Proof.
  unfold in_aval. destruct (md a) as [m|]; simpl; [tauto|].
  split; intros (H1 & H2 & H3); repeat split; auto.
  - exists 0. lia.
  - apply Z.divide_0_l in H3. lia.
Qed.

Lemma gcdx_divides_l a b : (mz (gcdx a b) | mz a).
Proof.
  destruct a as [[|p|p]|], b as [[|q|q]|]; cbn [mz gcdx];
    try apply Z.divide_refl; try apply Z.divide_0_r; try apply Z.gcd_divide_l.
Qed.
Lemma gcdx_divides_r a b : (mz (gcdx a b) | mz b).
Proof.
  destruct a as [[|p|p]|], b as [[|q|q]|]; cbn [mz gcdx];
    try apply Z.divide_refl; try apply Z.divide_0_r; try apply Z.gcd_divide_r.
Qed.

Lemma divide_sub_mod g X u : (g | X - u) -> (g | X - u mod g).
Proof.
  intros [k Hk]. pose proof (Z_div_mod_eq_full u g) as E.
  exists (k + u / g). lia.
Qed.

Lemma norm_mv_sound (nm : modulus) X u :
  (mz nm | X - u) -> (mz nm | X - match nm with None => u | Some m => u mod m end).
Proof. destruct nm as [m|]; simpl; [apply divide_sub_mod|auto]. Qed.

(* ---------- constants ---------- *)
Lemma aval_const_sound z : in_aval (aval_const z) z.
Proof. unfold in_aval, aval_const; simpl; repeat split; lia. Qed.

Lemma in_aval_const_inv z x : in_aval (aval_const z) x -> x = z.
Proof. unfold in_aval, aval_const; simpl; tauto. Qed.

(* ---------- additive ---------- *)
Lemma aval_additive_sound sub l r a x y :
  in_aval l x -> in_aval r y -> aval_additive sub l r = Some a ->
  in_aval a (if sub then x - y else x + y).
Proof.
  rewrite !in_aval_iff. intros (Hl1 & Hl2 & Hl3) (Hr1 & Hr2 & Hr3) H.
  unfold aval_additive in H.
  destruct sub.
  - destruct (ext_sub (lo l) (hi r)) as [a1|] eqn:E1; [|discriminate].
    destruct (ext_sub (hi l) (lo r)) as [a2|] eqn:E2; [|discriminate].
    inversion H; subst a; clear H; simpl.
    repeat split.
    + eapply ext_sub_lower; eauto.
    + eapply ext_sub_upper; eauto.
    + apply norm_mv_sound.
      replace (x - y - (mv l - mv r)) with ((x - mv l) - (y - mv r)) by lia.
      apply Z.divide_sub_r.
      * eapply Z.divide_trans; [apply gcdx_divides_l|exact Hl3].
      * eapply Z.divide_trans; [apply gcdx_divides_r|exact Hr3].
  - destruct (ext_add (lo l) (lo r)) as [a1|] eqn:E1; [|discriminate].
    destruct (ext_add (hi l) (hi r)) as [a2|] eqn:E2; [|discriminate].
    inversion H; subst a; clear H; simpl.
    repeat split.
    + eapply ext_add_lower; eauto.
    + eapply ext_add_upper; eauto.
    + apply norm_mv_sound.
      replace (x + y - (mv l + mv r)) with ((x - mv l) + (y - mv r)) by lia.
      apply Z.divide_add_r.
      * eapply Z.divide_trans; [apply gcdx_divides_l|exact Hl3].
      * eapply Z.divide_trans; [apply gcdx_divides_r|exact Hr3].
Qed.

(* ---------- multiplicative: interval part ---------- *)
Lemma mul_interval_hi l1 h1 l2 h2 x y :
  ext_le l1 (Fin x) -> ext_le (Fin x) h1 -> ext_le l2 (Fin y) -> ext_le (Fin y) h2 ->
  ext_le (Fin (x * y))
         (ext_max2 (ext_max2 (ext_mul l1 l2) (ext_mul l1 h2)) (ext_max2 (ext_mul h1 l2) (ext_mul h1 h2))).
Proof.
  intros A B C D.
  (* first in x for the fixed finite y, then in y for each end of x *)
  pose proof (ext_mul_between_hi (Fin y) l1 h1 x A B) as H1.
  rewrite (ext_mul_comm (Fin y) (Fin x)), (ext_mul_comm (Fin y) l1), (ext_mul_comm (Fin y) h1) in H1.
  change (ext_mul (Fin x) (Fin y)) with (Fin (x * y)) in H1.
  eapply ext_le_trans; [exact H1|].
  apply ext_max2_mono; apply ext_mul_between_hi; assumption.
Qed.

Lemma mul_interval_lo l1 h1 l2 h2 x y :
  ext_le l1 (Fin x) -> ext_le (Fin x) h1 -> ext_le l2 (Fin y) -> ext_le (Fin y) h2 ->
  ext_le (ext_min2 (ext_min2 (ext_mul l1 l2) (ext_mul l1 h2)) (ext_min2 (ext_mul h1 l2) (ext_mul h1 h2)))
         (Fin (x * y)).
Proof.
  intros A B C D.
  pose proof (ext_mul_between_lo (Fin y) l1 h1 x A B) as H1.
  rewrite (ext_mul_comm (Fin y) (Fin x)), (ext_mul_comm (Fin y) l1), (ext_mul_comm (Fin y) h1) in H1.
  change (ext_mul (Fin x) (Fin y)) with (Fin (x * y)) in H1.
  eapply ext_le_trans; [|exact H1].
  apply ext_min2_mono; apply ext_mul_between_lo; assumption.
Qed.

Lemma extrema_max_ge l1 h1 l2 h2 m :
  ext_max_list [ext_mul h1 h2; ext_mul l1 h2; ext_mul h1 l2; ext_mul l1 l2] = Some m ->
  ext_le (ext_max2 (ext_max2 (ext_mul l1 l2) (ext_mul l1 h2)) (ext_max2 (ext_mul h1 l2) (ext_mul h1 h2))) m.
Proof.
  intros H.
  repeat apply ext_max2_lub; eapply ext_max_list_ge; eauto; simpl; auto.
Qed.
Lemma extrema_min_le l1 h1 l2 h2 m :
  ext_min_list [ext_mul h1 h2; ext_mul l1 h2; ext_mul h1 l2; ext_mul l1 l2] = Some m ->
  ext_le m (ext_min2 (ext_min2 (ext_mul l1 l2) (ext_mul l1 h2)) (ext_min2 (ext_mul h1 l2) (ext_mul h1 h2))).
Proof.
  intros H.
  repeat apply ext_min2_glb; eapply ext_min_list_le; eauto; simpl; auto.
Qed.

(* ---------- multiplicative: congruence part ---------- *)
Lemma mul_const_var c vm rv y :
  (vm | y - rv) -> (vm * Z.abs c | c * y - rv * c).
Proof.
  intros [k Hk].
  replace (c * y - rv * c) with (c * (y - rv)) by ring. rewrite Hk.
  destruct (Z.abs_eq_or_opp c) as [E|E]; rewrite E.
  - exists k. ring.
  - exists (- k). ring.
Qed.

(* doc/modular_congruence_multiplication_proof.tex *)
Lemma mul_var_var lm lmv rm rmv zl zr sh x y :
  (lm | x - lmv) -> (rm | y - rmv) ->
  (zl | lmv) -> (zr | rmv) ->
  lm = zl * (lm / zl) -> rm = zr * (rm / zr) ->
  (sh | lm / zl) -> (sh | rm / zr) ->
  (sh * (zl * zr) | x * y - lmv * rmv).
Proof.
  intros [a Ha] [b Hb] [l' Hl'] [r' Hr'] HL HR [p Hp] [q Hq].
  set (L := lm / zl) in *. set (R := rm / zr) in *.
  assert (Ex : x = lmv + a * lm) by lia.
  assert (Ey : y = rmv + b * rm) by lia.
  exists (l' * q * b + r' * p * a + p * q * sh * a * b).
  rewrite Ex, Ey.
  clearbody L R. subst lm rm L R lmv rmv. ring.
Qed.

Lemma gcdx_some_divides a b g : gcdx (Some a) (Some b) = Some g -> (g | a) /\ (g | b).
Proof.
  intros H. pose proof (gcdx_divides_l (Some a) (Some b)) as H1.
  pose proof (gcdx_divides_r (Some a) (Some b)) as H2.
  rewrite H in H1, H2. simpl in H1, H2. auto.
Qed.

Lemma aval_mul_sound l r a x y :
  in_aval l x -> in_aval r y -> aval_mul l r = Some a -> in_aval a (x * y).
Proof.
  intros Hl Hr H.
  pose proof Hl as Hl'. pose proof Hr as Hr'.
  rewrite in_aval_iff in Hl', Hr'. destruct Hl' as (Hl1 & Hl2 & _). destruct Hr' as (Hr1 & Hr2 & _).
  unfold aval_mul in H.
  destruct (ext_min_list _) as [mn|] eqn:Emn; [|discriminate].
  destruct (ext_max_list _) as [mx|] eqn:Emx; [|discriminate].
  assert (Blo : ext_le mn (Fin (x * y))).
  { eapply ext_le_trans; [apply extrema_min_le; exact Emn|apply mul_interval_lo; assumption]. }
  assert (Bhi : ext_le (Fin (x * y)) mx).
  { eapply ext_le_trans; [apply mul_interval_hi; eassumption|apply extrema_max_ge; exact Emx]. }
  unfold in_aval in Hl, Hr. destruct Hl as (_ & _ & Hlc). destruct Hr as (_ & _ & Hrc).
  destruct (md l) as [lm|] eqn:El; destruct (md r) as [rm|] eqn:Er.
  - (* neither side constant *)
    destruct (gcdx (Some lm) (Some (mv l))) as [zl|] eqn:Ezl; [|discriminate].
    destruct (gcdx (Some rm) (Some (mv r))) as [zr|] eqn:Ezr; [|discriminate].
    destruct ((lm mod zl =? 0) && (rm mod zr =? 0)) eqn:Echk; [|discriminate].
    destruct (gcdx (Some (lm / zl)) (Some (rm / zr))) as [sh|] eqn:Esh; [|discriminate].
    inversion H; subst a; clear H. unfold in_aval; simpl. repeat split; auto.
    apply divide_sub_mod.
    apply gcdx_some_divides in Ezl, Ezr, Esh.
    apply andb_prop in Echk. destruct Echk as [C1 C2].
    apply Z.eqb_eq in C1, C2.
    eapply mul_var_var; try eassumption; try tauto.
    + pose proof (Z_div_mod_eq_full lm zl). lia.
    + pose proof (Z_div_mod_eq_full rm zr). lia.
  - (* right constant *)
    destruct (mv r =? 0) eqn:Ez.
    + inversion H; subst a; clear H. unfold in_aval; simpl. repeat split; auto. nia.
    + inversion H; subst a; clear H. unfold in_aval; simpl. repeat split; auto.
      apply divide_sub_mod. subst y.
      replace (x * mv r) with (mv r * x) by ring.
      replace (mv l * mv r) with (mv l * mv r) by ring.
      apply mul_const_var; exact Hlc.
  - (* left constant *)
    destruct (mv l =? 0) eqn:Ez.
    + inversion H; subst a; clear H. unfold in_aval; simpl. repeat split; auto. nia.
    + inversion H; subst a; clear H. unfold in_aval; simpl. repeat split; auto.
      apply divide_sub_mod. subst x.
      apply mul_const_var; exact Hrc.
  - inversion H; subst a; clear H. unfold in_aval; simpl. repeat split; auto. subst; ring.
Qed.

(* ---------- shared modular value (choice, $max) ---------- *)
Lemma shared_sound_l lm lv rm rv m v x :
  shared_modular_value lm lv rm rv = Some (m, v) -> (mz lm | x - lv) -> (mz m | x - v).
Proof.
  unfold shared_modular_value. intros H Hx.
  destruct (gcdx (gcdx lm rm) (Some (Z.abs (lv - rv)))) as [g|] eqn:Eg.
  - destruct (lv mod g =? rv mod g); [|discriminate]. inversion H; subst m v; clear H. simpl.
    apply divide_sub_mod.
    pose proof (gcdx_divides_l (gcdx lm rm) (Some (Z.abs (lv - rv)))) as D1. rewrite Eg in D1. simpl in D1.
    eapply Z.divide_trans; [exact D1|]. eapply Z.divide_trans; [apply gcdx_divides_l|exact Hx].
  - destruct ((lv =? rv) && _) eqn:E; [|discriminate]. inversion H; subst m v; clear H. simpl.
    apply andb_prop in E. destruct E as [_ E]. destruct lm, rm; try discriminate. exact Hx.
Qed.

Lemma shared_sound_r lm lv rm rv m v x :
  shared_modular_value lm lv rm rv = Some (m, v) -> (mz rm | x - rv) -> (mz m | x - v).
Proof.
  unfold shared_modular_value. intros H Hx.
  destruct (gcdx (gcdx lm rm) (Some (Z.abs (lv - rv)))) as [g|] eqn:Eg.
  - destruct (lv mod g =? rv mod g); [|discriminate]. inversion H; subst m v; clear H. simpl.
    apply divide_sub_mod.
    pose proof (gcdx_divides_l (gcdx lm rm) (Some (Z.abs (lv - rv)))) as D1.
    pose proof (gcdx_divides_r (gcdx lm rm) (Some (Z.abs (lv - rv)))) as D2.
    rewrite Eg in D1, D2. simpl in D1, D2.
    replace (x - lv) with ((x - rv) - (lv - rv)) by lia.
    apply Z.divide_sub_r.
    + eapply Z.divide_trans; [exact D1|]. eapply Z.divide_trans; [apply gcdx_divides_r|exact Hx].
    + apply -> Z.divide_abs_r in D2. exact D2.
  - destruct ((lv =? rv) && _) eqn:E; [|discriminate]. inversion H; subst m v; clear H. simpl.
    apply andb_prop in E. destruct E as [E1 E]. destruct lm, rm; try discriminate.
    apply Z.eqb_eq in E1. subst. exact Hx.
Qed.

Lemma aval_choice_sound_l t f a x : in_aval t x -> aval_choice t f = Some a -> in_aval a x.
Proof.
  rewrite !in_aval_iff. intros (H1 & H2 & H3) H. unfold aval_choice in H.
  destruct (shared_modular_value _ _ _ _) as [[m v]|] eqn:E; [|discriminate].
  inversion H; subst a; clear H; cbn [lo hi md mv]. repeat split.
  - eapply ext_le_trans; [apply ext_le_min2_l|exact H1].
  - eapply ext_le_trans; [exact H2|apply ext_le_max2_l].
  - eapply shared_sound_l; eauto.
Qed.
Lemma aval_choice_sound_r t f a x : in_aval f x -> aval_choice t f = Some a -> in_aval a x.
Proof.
  rewrite !in_aval_iff. intros (H1 & H2 & H3) H. unfold aval_choice in H.
  destruct (shared_modular_value _ _ _ _) as [[m v]|] eqn:E; [|discriminate].
  inversion H; subst a; clear H; cbn [lo hi md mv]. repeat split.
  - eapply ext_le_trans; [apply ext_le_min2_r|exact H1].
  - eapply ext_le_trans; [exact H2|apply ext_le_max2_r].
  - eapply shared_sound_r; eauto.
Qed.

(* ---------- $max ---------- *)
Lemma shared_fold_sound rest : forall m v m' v' x,
  shared_fold m v rest = Some (m', v') ->
  ((mz m | x - v) \/ Exists (fun a => (mz a.(md) | x - a.(mv))) rest) ->
  (mz m' | x - v').
Proof.
  induction rest as [|a t IH]; intros m v m' v' x H Hx; simpl in H.
  - inversion H; subst. destruct Hx as [Hx|Hx]; [exact Hx|inversion Hx].
  - destruct (shared_modular_value m v (md a) (mv a)) as [[m1 v1]|] eqn:E; [|discriminate].
    eapply IH; [exact H|].
    destruct Hx as [Hx|Hx].
    + left. eapply shared_sound_l; eauto.
    + inversion Hx; subst.
      * left. eapply shared_sound_r; eauto.
      * right. assumption.
Qed.

Lemma zmax_fold_ge l : forall acc, acc <= fold_left Z.max l acc.
Proof. induction l as [|x t IH]; intros acc; simpl; [lia|]. specialize (IH (Z.max acc x)). lia. Qed.
Lemma zmax_fold_in l : forall acc x, In x l -> x <= fold_left Z.max l acc.
Proof.
  induction l as [|y t IH]; intros acc x Hin; [destruct Hin|]. simpl.
  destruct Hin as [->|Hin]; [pose proof (zmax_fold_ge t (Z.max acc x)); lia|apply IH; exact Hin].
Qed.
Lemma zmax_fold_is l : forall acc, fold_left Z.max l acc = acc \/ In (fold_left Z.max l acc) l.
Proof.
  induction l as [|y t IH]; intros acc; simpl; [left; reflexivity|].
  destruct (IH (Z.max acc y)) as [E|E].
  - rewrite E. destruct (Z.max_spec acc y) as [[_ ->]|[_ ->]]; auto.
  - right; right; exact E.
Qed.

Lemma zmax_list_ge l z x : zmax_list l = Some z -> In x l -> x <= z.
Proof.
  destruct l as [|y t]; simpl; [discriminate|]. intros [= <-] [->|Hin];
    [apply zmax_fold_ge|apply zmax_fold_in; exact Hin].
Qed.
Lemma zmax_list_in l z : zmax_list l = Some z -> In z l.
Proof.
  destruct l as [|y t]; simpl; [discriminate|]. intros [= <-].
  destruct (zmax_fold_is t y) as [E|E]; [left; symmetry; exact E|right; exact E].
Qed.

(* max of the lower bounds is a lower bound of the max; max of the upper bounds an upper bound *)
Lemma forall2_in_l {A B} (R : A -> B -> Prop) l1 l2 a :
  Forall2 R l1 l2 -> In a l1 -> exists b, In b l2 /\ R a b.
Proof.
  induction 1 as [|x y l1 l2 Hxy HF IH]; intros Hin; [destruct Hin|].
  destruct Hin as [->|Hin]; [exists y; split; [left; reflexivity|exact Hxy]|].
  destruct (IH Hin) as (b & Hb & Hab). exists b; split; [right; exact Hb|exact Hab].
Qed.
Lemma forall2_in_r {A B} (R : A -> B -> Prop) l1 l2 b :
  Forall2 R l1 l2 -> In b l2 -> exists a, In a l1 /\ R a b.
Proof.
  induction 1 as [|x y l1 l2 Hxy HF IH]; intros Hin; [destruct Hin|].
  destruct Hin as [->|Hin]; [exists x; split; [left; reflexivity|exact Hxy]|].
  destruct (IH Hin) as (a & Ha & Hab). exists a; split; [right; exact Ha|exact Hab].
Qed.

Lemma max_list_lower avs zs m z :
  Forall2 in_aval avs zs -> ext_max_list (map lo avs) = Some m -> zmax_list zs = Some z ->
  ext_le m (Fin z).
Proof.
  intros HF Hm Hz.
  assert (Hall : forall x, In x (map lo avs) -> ext_le x (Fin z)).
  { intros x Hx. apply in_map_iff in Hx. destruct Hx as (a & <- & Ha).
    destruct (forall2_in_l _ _ _ _ HF Ha) as (b & Hb & Hab).
    eapply ext_le_trans; [apply Hab|]. cbn [ext_le]. eapply zmax_list_ge; eauto. }
  destruct avs as [|a0 avs]; [discriminate|]. cbn [map ext_max_list] in Hm.
  inversion Hm; subst m; clear Hm.
  apply fold_max2_lub.
  - apply Hall. left. reflexivity.
  - intros x Hx. apply Hall. right. exact Hx.
Qed.

Lemma max_list_upper avs zs m z :
  Forall2 in_aval avs zs -> ext_max_list (map hi avs) = Some m -> zmax_list zs = Some z ->
  ext_le (Fin z) m.
Proof.
  intros HF Hm Hz.
  pose proof (zmax_list_in _ _ Hz) as Hin.
  destruct (forall2_in_r _ _ _ _ HF Hin) as (a & Ha & Hia).
  eapply ext_le_trans; [apply Hia|].
  eapply ext_max_list_ge; [exact Hm|]. apply in_map. exact Ha.
Qed.

Lemma aval_max_sound avs zs a z :
  Forall2 in_aval avs zs -> aval_max avs = Some a -> zmax_list zs = Some z -> in_aval a z.
Proof.
  intros HF H Hz. unfold aval_max in H.
  destruct avs as [|a0 rest] eqn:Eavs; [discriminate|]. rewrite <- Eavs in *.
  destruct (ext_max_list (map lo avs)) as [mn|] eqn:Emn; [|subst avs; discriminate].
  destruct (ext_max_list (map hi avs)) as [mx|] eqn:Emx; [|subst avs; discriminate].
  assert (Blo : ext_le mn (Fin z)) by (eapply max_list_lower; eauto).
  assert (Bhi : ext_le (Fin z) mx) by (eapply max_list_upper; eauto).
  replace (match avs with [] => None | _ :: _ => _ end) with
      (if ext_eqb mn mx
       then match mn with Fin z0 => Some (mk_aval mn mx None z0) | _ => None end
       else match shared_fold (md a0) (mv a0) rest with
            | Some (m, v) => Some (mk_aval mn mx m v) | None => None end) in H
    by (subst avs; rewrite ?Emn, ?Emx; reflexivity).
  clear Emn Emx.
  destruct (ext_eqb mn mx) eqn:Eeq.
  - apply ext_eqb_eq in Eeq. subst mx. destruct mn as [|z0|]; try discriminate.
    inversion H; subst a; clear H. unfold in_aval; simpl in *. repeat split; auto; lia.
  - destruct (shared_fold (md a0) (mv a0) rest) as [[m v]|] eqn:Esf; [|discriminate].
    inversion H; subst a; clear H. rewrite in_aval_iff; simpl. repeat split; auto.
    eapply shared_fold_sound; [exact Esf|].
    pose proof (zmax_list_in _ _ Hz) as Hin.
    subst avs. inversion HF; subst.
    destruct Hin as [<-|Hin].
    + left. apply in_aval_iff in H1. tauto.
    + right. clear - H3 Hin. induction H3 as [|b x0 t l' Hb HF IH]; [destruct Hin|].
      destruct Hin as [<-|Hin].
      * apply Exists_cons_hd. apply in_aval_iff in Hb. tauto.
      * apply Exists_cons_tl. apply IH; exact Hin.
Qed.

(* ---------- induction principle for the nested expression type ---------- *)
Section ExprInd.
  Variable P : expr -> Prop.
  Hypothesis HConst : forall z, P (EConst z).
  Hypothesis HBool : forall b, P (EBool b).
  Hypothesis HEnum : forall z, P (EEnum z).
  Hypothesis HVar : forall i, P (EVar i).
  Hypothesis HBVar : forall i, P (EBVar i).
  Hypothesis HEVar : forall i, P (EEVar i).
  Hypothesis HRef : forall e, P e -> P (ERef e).
  Hypothesis HCRef : forall e, P e -> P (ECRef e).
  Hypothesis HAdd : forall a b, P a -> P b -> P (EAdd a b).
  Hypothesis HSub : forall a b, P a -> P b -> P (ESub a b).
  Hypothesis HMul : forall a b, P a -> P b -> P (EMul a b).
  Hypothesis HCmp : forall op a b, P a -> P b -> P (ECmp op a b).
  Hypothesis HECmp : forall ne a b, P a -> P b -> P (EECmp ne a b).
  Hypothesis HBop : forall op a b, P a -> P b -> P (EBop op a b).
  Hypothesis HChoice : forall c t f, P c -> P t -> P f -> P (EChoice c t f).
  Hypothesis HMax : forall args, Forall P args -> P (EMax args).
  Hypothesis HUpper : forall a, P a -> P (EUpper a).
  Hypothesis HLower : forall a, P a -> P (ELower a).

  Fixpoint expr_ind2 (e : expr) : P e :=
    match e with
    | EConst z => HConst z | EBool b => HBool b | EEnum z => HEnum z
    | EVar i => HVar i | EBVar i => HBVar i | EEVar i => HEVar i
    | ERef e1 => HRef e1 (expr_ind2 e1) | ECRef e1 => HCRef e1 (expr_ind2 e1)
    | EAdd a b => HAdd a b (expr_ind2 a) (expr_ind2 b)
    | ESub a b => HSub a b (expr_ind2 a) (expr_ind2 b)
    | EMul a b => HMul a b (expr_ind2 a) (expr_ind2 b)
    | ECmp op a b => HCmp op a b (expr_ind2 a) (expr_ind2 b)
    | EECmp ne a b => HECmp ne a b (expr_ind2 a) (expr_ind2 b)
    | EBop op a b => HBop op a b (expr_ind2 a) (expr_ind2 b)
    | EChoice c t f => HChoice c t f (expr_ind2 c) (expr_ind2 t) (expr_ind2 f)
    | EMax args =>
        HMax args ((fix go (l : list expr) : Forall P l :=
                      match l with
                      | [] => Forall_nil P
                      | x :: t => Forall_cons x (expr_ind2 x) (go t)
                      end) args)
    | EUpper a => HUpper a (expr_ind2 a)
    | ELower a => HLower a (expr_ind2 a)
    end.
End ExprInd.
