(* C05 — tightness extended to $max: for +, -, * and $max over finite-range leaves each occurring
   once, both inferred bounds are attained.  The lower bound of $max(a1..an) is the max of the
   lows (every argument at its own minimum), the upper bound the max of the highs (every argument
   at its own maximum); the arguments share no variable, so the environments merge. *)
From Coq Require Import ZArith List Bool Lia ZifyBool.
Import ListNotations.
Require Import EmbossV.Bounds.Model EmbossV.Bounds.ProofsExt EmbossV.Bounds.Proofs EmbossV.Bounds.Sound
  EmbossV.Bounds.Tight.
Open Scope Z_scope.

Fixpoint arithm (e : expr) : bool :=
  match e with
  | EConst _ | EVar _ => true
  | EAdd a b | ESub a b | EMul a b => arithm a && arithm b
  | EMax args => match args with [] => false | _ :: _ => forallb arithm args end
  | _ => false
  end.

Fixpoint varsm (e : expr) : list nat :=
  match e with
  | EVar i => [i]
  | EAdd a b | ESub a b | EMul a b => varsm a ++ varsm b
  | EMax args => flat_map varsm args
  | _ => []
  end.

Definition attainsm (G : tenv) (e : expr) (z : Z) : Prop :=
  exists r, env_on (varsm e) G r /\ eval G r e = Some (VInt z).

(* on the old fragment the new definitions are the old ones *)
Lemma arith_arithm e : arith e = true -> arithm e = true /\ varsm e = vars e.
Proof.
  induction e; cbn [arith arithm varsm vars]; intros Ha; try discriminate; try (split; reflexivity);
    apply andb_prop in Ha; destruct Ha as [A B];
    destruct (IHe1 A) as [A1 V1]; destruct (IHe2 B) as [A2 V2]; rewrite A1, A2, V1, V2; split; reflexivity.
Qed.

(* ---------- evaluation of an argument list ---------- *)
Definition evalz (G : tenv) (r : env) (a : expr) : option Z :=
  match eval G r a with Some (VInt z) => Some z | _ => None end.

Lemma eval_max G r args :
  eval G r (EMax args) =
  match sequence (map (evalz G r) args) with
  | Some zs => option_map VInt (zmax_list zs)
  | None => None
  end.
Proof. reflexivity. Qed.

Lemma evalz_of G r e z : eval G r e = Some (VInt z) -> evalz G r e = Some z.
Proof. unfold evalz. intros ->. reflexivity. Qed.

Lemma evalz_agree_list G args :
  Forall (fun e => arithm e = true -> forall r1 r2, agree (varsm e) r1 r2 -> eval G r1 e = eval G r2 e) args ->
  forallb arithm args = true -> forall r1 r2, agree (flat_map varsm args) r1 r2 ->
  map (evalz G r1) args = map (evalz G r2) args.
Proof.
  induction 1 as [|e0 t He0 HF IH]; intros Ha r1 r2 Hag; cbn [map]; [reflexivity|].
  cbn [forallb] in Ha. apply andb_prop in Ha. destruct Ha as [A0 At].
  cbn [flat_map] in Hag. f_equal.
  - unfold evalz. rewrite (He0 A0 r1 r2); [reflexivity|].
    intros i Hi. apply Hag. apply in_or_app. left; exact Hi.
  - apply IH; [exact At|]. intros i Hi. apply Hag. apply in_or_app. right; exact Hi.
Qed.

(* eval depends only on the variables of the expression *)
Lemma eval_agree_m G e :
  arithm e = true -> forall r1 r2, agree (varsm e) r1 r2 -> eval G r1 e = eval G r2 e.
Proof.
  induction e using expr_ind2; cbn [arithm varsm]; intros Ha r1 r2 Hag; try discriminate.
  - reflexivity.
  - cbn [eval]. rewrite (Hag i (or_introl eq_refl)). reflexivity.
  - cbn [eval]. apply andb_prop in Ha. destruct Ha as [A B].
    rewrite (IHe1 A r1 r2), (IHe2 B r1 r2); [reflexivity| |]; intros i Hi; apply Hag; apply in_or_app; auto.
  - cbn [eval]. apply andb_prop in Ha. destruct Ha as [A B].
    rewrite (IHe1 A r1 r2), (IHe2 B r1 r2); [reflexivity| |]; intros i Hi; apply Hag; apply in_or_app; auto.
  - cbn [eval]. apply andb_prop in Ha. destruct Ha as [A B].
    rewrite (IHe1 A r1 r2), (IHe2 B r1 r2); [reflexivity| |]; intros i Hi; apply Hag; apply in_or_app; auto.
  - assert (Ha' : forallb arithm args = true) by (destruct args; [discriminate|exact Ha]).
    rewrite !eval_max. rewrite (evalz_agree_list G args H Ha' r1 r2 Hag). reflexivity.
Qed.

Lemma evalz_agree G args :
  forallb arithm args = true -> forall r1 r2, agree (flat_map varsm args) r1 r2 ->
  map (evalz G r1) args = map (evalz G r2) args.
Proof. apply evalz_agree_list. apply Forall_forall. intros e _. apply eval_agree_m. Qed.

(* ---------- two disjoint subexpressions attain their values together ---------- *)
Lemma attainsm_pair G e1 e2 x y :
  arithm e1 = true -> arithm e2 = true ->
  (forall i, In i (varsm e1) -> In i (varsm e2) -> False) ->
  attainsm G e1 x -> attainsm G e2 y ->
  exists r, env_on (varsm e1 ++ varsm e2) G r /\
            eval G r e1 = Some (VInt x) /\ eval G r e2 = Some (VInt y).
Proof.
  intros A1 A2 Hdis (ra & Ra & Va) (rb & Rb & Vb).
  exists (merge (varsm e1) ra rb). split; [apply merge_env_on; assumption|]. split.
  - rewrite (eval_agree_m G e1 A1 _ ra (merge_agree_l _ _ _)). exact Va.
  - rewrite (eval_agree_m G e2 A2 _ rb (merge_agree_r _ _ _ _ Hdis)). exact Vb.
Qed.

Lemma attainsm_add G e1 e2 x y :
  arithm e1 = true -> arithm e2 = true ->
  (forall i, In i (varsm e1) -> In i (varsm e2) -> False) ->
  attainsm G e1 x -> attainsm G e2 y -> attainsm G (EAdd e1 e2) (x + y).
Proof.
  intros A1 A2 Hdis H1 H2. destruct (attainsm_pair G e1 e2 x y A1 A2 Hdis H1 H2) as (r & R & V1 & V2).
  exists r. split; [exact R|]. cbn [eval]. rewrite V1, V2. reflexivity.
Qed.
Lemma attainsm_sub G e1 e2 x y :
  arithm e1 = true -> arithm e2 = true ->
  (forall i, In i (varsm e1) -> In i (varsm e2) -> False) ->
  attainsm G e1 x -> attainsm G e2 y -> attainsm G (ESub e1 e2) (x - y).
Proof.
  intros A1 A2 Hdis H1 H2. destruct (attainsm_pair G e1 e2 x y A1 A2 Hdis H1 H2) as (r & R & V1 & V2).
  exists r. split; [exact R|]. cbn [eval]. rewrite V1, V2. reflexivity.
Qed.
Lemma attainsm_mul G e1 e2 x y :
  arithm e1 = true -> arithm e2 = true ->
  (forall i, In i (varsm e1) -> In i (varsm e2) -> False) ->
  attainsm G e1 x -> attainsm G e2 y -> attainsm G (EMul e1 e2) (x * y).
Proof.
  intros A1 A2 Hdis H1 H2. destruct (attainsm_pair G e1 e2 x y A1 A2 Hdis H1 H2) as (r & R & V1 & V2).
  exists r. split; [exact R|]. cbn [eval]. rewrite V1, V2. reflexivity.
Qed.

(* ---------- max over finite bounds ---------- *)
Lemma fold_max_fin t : forall x, fold_left ext_max2 (map Fin t) (Fin x) = Fin (fold_left Z.max t x).
Proof.
  induction t as [|y t IH]; intros x; cbn [map fold_left]; [reflexivity|].
  cbn [ext_max2]. apply IH.
Qed.

Lemma ext_max_list_fin ls : ext_max_list (map Fin ls) = option_map Fin (zmax_list ls).
Proof.
  destruct ls as [|x t]; cbn [map ext_max_list zmax_list option_map]; [reflexivity|].
  rewrite fold_max_fin. reflexivity.
Qed.

(* whichever branch of aval_max is taken, lo is the max of the lows and hi the max of the highs *)
Lemma aval_max_lohi avs a :
  aval_max avs = Some a ->
  ext_max_list (map lo avs) = Some (lo a) /\ ext_max_list (map hi avs) = Some (hi a).
Proof.
  intros H. destruct avs as [|a0 rest]; [discriminate|]. unfold aval_max in H.
  destruct (ext_max_list (map lo (a0 :: rest))) as [mn|]; [|discriminate].
  destruct (ext_max_list (map hi (a0 :: rest))) as [mx|]; [|discriminate].
  destruct (ext_eqb mn mx).
  - destruct mn as [|z|]; try discriminate. inversion H; subst a. cbn [lo hi]. split; reflexivity.
  - destruct (shared_fold (md a0) (mv a0) rest) as [[m v]|]; [|discriminate].
    inversion H; subst a. cbn [lo hi]. split; reflexivity.
Qed.

(* ---------- the argument list of $max ---------- *)
Definition tightP (G : tenv) (e : expr) : Prop :=
  arithm e = true -> NoDup (varsm e) -> (forall i, In i (varsm e) -> finite_leaf G i) ->
  forall a, bounds_of G e = Some (AInt a) ->
  exists l h, a.(lo) = Fin l /\ a.(hi) = Fin h /\ attainsm G e l /\ attainsm G e h.

Lemma tight_list G args :
  Forall (tightP G) args ->
  forallb arithm args = true -> NoDup (flat_map varsm args) ->
  (forall i, In i (flat_map varsm args) -> finite_leaf G i) ->
  forall is avs, sequence (map (analyze G) args) = Some is -> sequence (map as_int is) = Some avs ->
  exists ls hs, map lo avs = map Fin ls /\ map hi avs = map Fin hs /\
    (exists r, env_on (flat_map varsm args) G r /\ sequence (map (evalz G r) args) = Some ls) /\
    (exists r, env_on (flat_map varsm args) G r /\ sequence (map (evalz G r) args) = Some hs).
Proof.
  induction 1 as [|e0 t He0 HF IH]; intros Ha Hnd Hfin is avs Es Ea.
  - cbn in Es. inversion Es; subst is. cbn in Ea. inversion Ea; subst avs.
    exists [], []. cbn [map flat_map sequence]. repeat split;
      exists (mk_env (fun _ => 0) (fun _ => false) (fun _ => 0)); (split; [intros j []|reflexivity]).
  - cbn [forallb] in Ha. apply andb_prop in Ha. destruct Ha as [A0 At].
    cbn [flat_map] in Hnd, Hfin |- *.
    pose proof (nodup_app_disjoint _ _ Hnd) as Hdis.
    cbn [map sequence] in Es.
    destruct (analyze G e0) as [i0|] eqn:E0; [|discriminate].
    destruct (sequence (map (analyze G) t)) as [is0|] eqn:Es0; [|discriminate].
    inversion Es; subst is; clear Es.
    cbn [map sequence] in Ea.
    destruct (as_int i0) as [a0|] eqn:Ai; [|discriminate].
    destruct (sequence (map as_int is0)) as [avs0|] eqn:Ea0; [|discriminate].
    inversion Ea; subst avs; clear Ea.
    apply as_int_inv in Ai.
    destruct (He0 A0 (nodup_app_l _ _ Hnd) (fun i Hi => Hfin i (in_or_app _ _ _ (or_introl Hi))) a0
                  (analyze_int_inv _ _ _ _ E0 Ai)) as (l0 & h0 & L0 & H0 & (ra & Ra & Va) & (rA & RA & VA)).
    destruct (IH At (nodup_app_r _ _ Hnd) (fun i Hi => Hfin i (in_or_app _ _ _ (or_intror Hi)))
                 is0 avs0 eq_refl Ea0) as (ls & hs & Ls & Hs & (rb & Rb & Vb) & (rB & RB & VB)).
    exists (l0 :: ls), (h0 :: hs). cbn [map]. rewrite L0, H0, Ls, Hs.
    split; [reflexivity|]. split; [reflexivity|]. split.
    + exists (merge (varsm e0) ra rb). split; [apply merge_env_on; assumption|].
      assert (V0 : evalz G (merge (varsm e0) ra rb) e0 = Some l0).
      { apply evalz_of. rewrite (eval_agree_m G e0 A0 _ ra (merge_agree_l _ _ _)). exact Va. }
      cbn [sequence]. rewrite V0, (evalz_agree G t At _ rb (merge_agree_r _ _ _ _ Hdis)), Vb. reflexivity.
    + exists (merge (varsm e0) rA rB). split; [apply merge_env_on; assumption|].
      assert (V0 : evalz G (merge (varsm e0) rA rB) e0 = Some h0).
      { apply evalz_of. rewrite (eval_agree_m G e0 A0 _ rA (merge_agree_l _ _ _)). exact VA. }
      cbn [sequence]. rewrite V0, (evalz_agree G t At _ rB (merge_agree_r _ _ _ _ Hdis)), VB. reflexivity.
Qed.

(* ---------- the theorem ---------- *)
Theorem tight_arith_max G e :
  arithm e = true -> NoDup (varsm e) -> (forall i, In i (varsm e) -> finite_leaf G i) ->
  forall a, bounds_of G e = Some (AInt a) ->
  exists l h, a.(lo) = Fin l /\ a.(hi) = Fin h /\ attainsm G e l /\ attainsm G e h.
Proof.
  change (tightP G e).
  induction e using expr_ind2; unfold tightP; cbn [arithm varsm]; intros Har Hnd Hfin a Hb; try discriminate.
  - (* EConst *)
    unfold bounds_of in Hb. cbn in Hb. inversion Hb; subst a. exists z, z. cbn.
    repeat split; exists (mk_env (fun _ => 0) (fun _ => false) (fun _ => 0));
      (split; [intros j []|reflexivity]).
  - (* EVar *)
    destruct (Hfin i (or_introl eq_refl)) as (l & h & HG & Hlh).
    unfold bounds_of in Hb. cbn [analyze] in Hb.
    destruct (check_int (G i)) as [rr|] eqn:Ec; [|discriminate]. apply check_int_inv in Ec. subst rr.
    cbn in Hb. inversion Hb; subst a. rewrite HG. cbn. exists l, h. repeat split.
    + exists (mk_env (fun _ => l) (fun _ => false) (fun _ => 0)). split; [|reflexivity].
      intros j [<-|[]]. rewrite HG. unfold in_aval; cbn. repeat split; try lia. apply Z.divide_1_l.
    + exists (mk_env (fun _ => h) (fun _ => false) (fun _ => 0)). split; [|reflexivity].
      intros j [<-|[]]. rewrite HG. unfold in_aval; cbn. repeat split; try lia. apply Z.divide_1_l.
  - (* EAdd *)
    apply andb_prop in Har. destruct Har as [A1 A2].
    pose proof (nodup_app_disjoint _ _ Hnd) as Hdis.
    unfold bounds_of in Hb. cbn [analyze] in Hb.
    destruct (analyze G e1) as [ia|] eqn:E1; [|discriminate].
    destruct (analyze G e2) as [ib|] eqn:E2; [|discriminate].
    destruct (as_int ia) as [x|] eqn:Ex; [|discriminate].
    destruct (as_int ib) as [y|] eqn:Ey; [|discriminate].
    destruct (aval_additive false x y) as [rr|] eqn:Er; [|discriminate].
    destruct (check_int rr) as [r2|] eqn:Ec; [|discriminate]. apply check_int_inv in Ec. subst r2.
    cbn in Hb. inversion Hb; subst a; clear Hb.
    apply as_int_inv in Ex, Ey.
    destruct (IHe1 A1 (nodup_app_l _ _ Hnd) (fun i Hi => Hfin i (in_or_app _ _ _ (or_introl Hi))) x
                   (analyze_int_inv _ _ _ _ E1 Ex)) as (l1 & h1 & L1 & H1 & Al1 & Ah1).
    destruct (IHe2 A2 (nodup_app_r _ _ Hnd) (fun i Hi => Hfin i (in_or_app _ _ _ (or_intror Hi))) y
                   (analyze_int_inv _ _ _ _ E2 Ey)) as (l2 & h2 & L2 & H2 & Al2 & Ah2).
    unfold aval_additive in Er. rewrite L1, L2, H1, H2 in Er. cbn in Er. inversion Er; subst rr; clear Er. cbn.
    exists (l1 + l2), (h1 + h2). repeat split; apply attainsm_add; assumption.
  - (* ESub *)
    apply andb_prop in Har. destruct Har as [A1 A2].
    pose proof (nodup_app_disjoint _ _ Hnd) as Hdis.
    unfold bounds_of in Hb. cbn [analyze] in Hb.
    destruct (analyze G e1) as [ia|] eqn:E1; [|discriminate].
    destruct (analyze G e2) as [ib|] eqn:E2; [|discriminate].
    destruct (as_int ia) as [x|] eqn:Ex; [|discriminate].
    destruct (as_int ib) as [y|] eqn:Ey; [|discriminate].
    destruct (aval_additive true x y) as [rr|] eqn:Er; [|discriminate].
    destruct (check_int rr) as [r2|] eqn:Ec; [|discriminate]. apply check_int_inv in Ec. subst r2.
    cbn in Hb. inversion Hb; subst a; clear Hb.
    apply as_int_inv in Ex, Ey.
    destruct (IHe1 A1 (nodup_app_l _ _ Hnd) (fun i Hi => Hfin i (in_or_app _ _ _ (or_introl Hi))) x
                   (analyze_int_inv _ _ _ _ E1 Ex)) as (l1 & h1 & L1 & H1 & Al1 & Ah1).
    destruct (IHe2 A2 (nodup_app_r _ _ Hnd) (fun i Hi => Hfin i (in_or_app _ _ _ (or_intror Hi))) y
                   (analyze_int_inv _ _ _ _ E2 Ey)) as (l2 & h2 & L2 & H2 & Al2 & Ah2).
    unfold aval_additive in Er. rewrite L1, L2, H1, H2 in Er. cbn in Er. inversion Er; subst rr; clear Er. cbn.
    exists (l1 + - h2), (h1 + - l2). repeat split.
    + replace (l1 + - h2) with (l1 - h2) by lia. apply attainsm_sub; assumption.
    + replace (h1 + - l2) with (h1 - l2) by lia. apply attainsm_sub; assumption.
  - (* EMul *)
    apply andb_prop in Har. destruct Har as [A1 A2].
    pose proof (nodup_app_disjoint _ _ Hnd) as Hdis.
    unfold bounds_of in Hb. cbn [analyze] in Hb.
    destruct (analyze G e1) as [ia|] eqn:E1; [|discriminate].
    destruct (analyze G e2) as [ib|] eqn:E2; [|discriminate].
    destruct (as_int ia) as [x|] eqn:Ex; [|discriminate].
    destruct (as_int ib) as [y|] eqn:Ey; [|discriminate].
    destruct (aval_mul x y) as [rr|] eqn:Er; [|discriminate].
    destruct (check_int rr) as [r2|] eqn:Ec; [|discriminate]. apply check_int_inv in Ec. subst r2.
    cbn in Hb. inversion Hb; subst a; clear Hb.
    apply as_int_inv in Ex, Ey.
    destruct (IHe1 A1 (nodup_app_l _ _ Hnd) (fun i Hi => Hfin i (in_or_app _ _ _ (or_introl Hi))) x
                   (analyze_int_inv _ _ _ _ E1 Ex)) as (l1 & h1 & L1 & H1 & Al1 & Ah1).
    destruct (IHe2 A2 (nodup_app_r _ _ Hnd) (fun i Hi => Hfin i (in_or_app _ _ _ (or_intror Hi))) y
                   (analyze_int_inv _ _ _ _ E2 Ey)) as (l2 & h2 & L2 & H2 & Al2 & Ah2).
    (* every product of two extremes is attained *)
    assert (Att : forall p, In p [Fin (h1 * h2); Fin (l1 * h2); Fin (h1 * l2); Fin (l1 * l2)] ->
                            exists z, p = Fin z /\ attainsm G (EMul e1 e2) z).
    { intros p Hp. cbn [In] in Hp.
      destruct Hp as [<-|[<-|[<-|[<-|[]]]]]; eexists; (split; [reflexivity|]);
        apply attainsm_mul; assumption. }
    unfold aval_mul in Er. rewrite L1, L2, H1, H2 in Er. cbn [ext_mul] in Er.
    destruct (ext_min_list _) as [mn|] eqn:Emn; [|discriminate].
    destruct (ext_max_list _) as [mx|] eqn:Emx; [|discriminate].
    destruct (Att mn (min_list_in _ _ Emn)) as (zl & -> & Al).
    destruct (Att mx (max_list_in _ _ Emx)) as (zh & -> & Ah).
    exists zl, zh.
    assert (Hlo : lo rr = Fin zl /\ hi rr = Fin zh).
    { destruct (md x), (md y); try (destruct (mv x =? 0)); try (destruct (mv y =? 0));
        repeat match type of Er with
               | context [match ?c with _ => _ end] => destruct c; try discriminate
               | context [if ?c then _ else _] => destruct c; try discriminate
               end; inversion Er; subst rr; cbn; auto. }
    destruct Hlo as [-> ->]. repeat split; assumption.
  - (* EMax *)
    assert (Ha' : forallb arithm args = true) by (destruct args; [discriminate|exact Har]).
    unfold bounds_of in Hb. cbn [analyze] in Hb.
    destruct (sequence (map (analyze G) args)) as [is|] eqn:Es; [|discriminate].
    destruct (sequence (map as_int is)) as [avs|] eqn:Ea; [|discriminate].
    destruct (aval_max avs) as [rr|] eqn:Er; [|discriminate].
    destruct (check_int rr) as [r2|] eqn:Ec; [|discriminate]. apply check_int_inv in Ec. subst r2.
    cbn in Hb. inversion Hb; subst a; clear Hb.
    destruct (tight_list G args H Ha' Hnd Hfin is avs Es Ea)
      as (ls & hs & Ls & Hs & (ra & Ra & Va) & (rA & RA & VA)).
    destruct (aval_max_lohi _ _ Er) as [Elo Ehi].
    rewrite Ls, ext_max_list_fin in Elo. rewrite Hs, ext_max_list_fin in Ehi.
    destruct (zmax_list ls) as [l|] eqn:Zl; [|discriminate].
    destruct (zmax_list hs) as [h|] eqn:Zh; [|discriminate].
    cbn [option_map] in Elo, Ehi.
    exists l, h. split; [congruence|]. split; [congruence|]. split.
    + exists ra. split; [exact Ra|]. rewrite eval_max, Va, Zl. reflexivity.
    + exists rA. split; [exact RA|]. rewrite eval_max, VA, Zh. reflexivity.
Qed.

(* the old theorem's fragment is covered *)
Corollary tight_arith_max_covers_arith G e :
  arith e = true -> NoDup (vars e) -> (forall i, In i (vars e) -> finite_leaf G i) ->
  forall a, bounds_of G e = Some (AInt a) ->
  exists l h, a.(lo) = Fin l /\ a.(hi) = Fin h /\ attainsm G e l /\ attainsm G e h.
Proof.
  intros Ha Hnd Hfin a Hb. destruct (arith_arithm e Ha) as [Hm Hv].
  apply tight_arith_max; [exact Hm|rewrite Hv; exact Hnd|rewrite Hv; exact Hfin|exact Hb].
Qed.

(* ---------- the hypotheses are satisfiable:  a, b : UInt:8,  $max(a + 1, b * 2)  in [1, 510] ---------- *)
Definition tm_G : tenv := fun _ => leaf_aval KUInt (Some 8).
Definition tm_e : expr := EMax [EAdd (EVar 0) (EConst 1); EMul (EVar 1) (EConst 2)].

Example tight_max_example :
  arithm tm_e = true /\ NoDup (varsm tm_e) /\ (forall i, In i (varsm tm_e) -> finite_leaf tm_G i) /\
  exists a, bounds_of tm_G tm_e = Some (AInt a) /\ lo a = Fin 1 /\ hi a = Fin 510 /\
            attainsm tm_G tm_e 1 /\ attainsm tm_G tm_e 510.
Proof.
  assert (Har : arithm tm_e = true) by reflexivity.
  assert (Hnd : NoDup (varsm tm_e)).
  { cbn. constructor; [intros [E|[]]; discriminate|]. constructor; [intros []|constructor]. }
  assert (Hfin : forall i, In i (varsm tm_e) -> finite_leaf tm_G i).
  { intros i _. exists 0, 255. split; [vm_compute; reflexivity|lia]. }
  split; [exact Har|]. split; [exact Hnd|]. split; [exact Hfin|].
  destruct (bounds_of tm_G tm_e) as [[a| |]|] eqn:Eb; try (vm_compute in Eb; discriminate).
  exists a. split; [reflexivity|].
  destruct (tight_arith_max tm_G tm_e Har Hnd Hfin a Eb) as (l & h & L & Hh & Al & Ah).
  vm_compute in Eb. inversion Eb; subst a. cbn [lo hi] in L, Hh |- *.
  inversion L; subst l. inversion Hh; subst h. repeat split; assumption.
Qed.

Print Assumptions tight_arith_max.
