(* C05 — tightness: for +, -, * over finite-range leaves each occurring once, both inferred
   bounds are attained; the same claim for ?: is refuted (finding F7). *)
From Coq Require Import ZArith List Bool Lia ZifyBool.
Import ListNotations.
Require Import EmbossV.Bounds.Model EmbossV.Bounds.ProofsExt EmbossV.Bounds.Proofs EmbossV.Bounds.Sound.
Open Scope Z_scope.

Fixpoint arith (e : expr) : bool :=
  match e with
  | EConst _ | EVar _ => true
  | EAdd a b | ESub a b | EMul a b => arith a && arith b
  | _ => false
  end.

Fixpoint vars (e : expr) : list nat :=
  match e with
  | EVar i => [i]
  | EAdd a b | ESub a b | EMul a b => vars a ++ vars b
  | _ => []
  end.

(* leaves as physical integer fields give them: a finite range, every integer in it allowed *)
Definition finite_leaf (G : tenv) (i : nat) : Prop :=
  exists l h, G i = mk_aval (Fin l) (Fin h) (Some 1) 0 /\ l <= h.

Definition env_on (vs : list nat) (G : tenv) (r : env) : Prop :=
  forall i, In i vs -> in_aval (G i) (r.(ints) i).

Definition agree (vs : list nat) (r1 r2 : env) : Prop := forall i, In i vs -> r1.(ints) i = r2.(ints) i.

Lemma eval_agree G e : arith e = true -> forall r1 r2, agree (vars e) r1 r2 -> eval G r1 e = eval G r2 e.
Proof.
  induction e; cbn [arith vars]; intros Ha r1 r2 Hag; try discriminate; cbn [eval].
  - reflexivity.
  - rewrite (Hag i (or_introl eq_refl)). reflexivity.
  - apply andb_prop in Ha. destruct Ha as [A B].
    rewrite (IHe1 A r1 r2), (IHe2 B r1 r2); [reflexivity| |]; intros i Hi; apply Hag; apply in_or_app; auto.
  - apply andb_prop in Ha. destruct Ha as [A B].
    rewrite (IHe1 A r1 r2), (IHe2 B r1 r2); [reflexivity| |]; intros i Hi; apply Hag; apply in_or_app; auto.
  - apply andb_prop in Ha. destruct Ha as [A B].
    rewrite (IHe1 A r1 r2), (IHe2 B r1 r2); [reflexivity| |]; intros i Hi; apply Hag; apply in_or_app; auto.
Qed.

(* merge two environments: r1 on vs1, r2 elsewhere *)
Definition merge (vs1 : list nat) (r1 r2 : env) : env :=
  mk_env (fun i => if in_dec Nat.eq_dec i vs1 then r1.(ints) i else r2.(ints) i) r1.(bools) r1.(enums).

Lemma merge_agree_l vs1 r1 r2 : agree vs1 (merge vs1 r1 r2) r1.
Proof. intros i Hi. cbn. destruct (in_dec Nat.eq_dec i vs1); [reflexivity|contradiction]. Qed.

Lemma merge_agree_r vs1 vs2 r1 r2 :
  (forall i, In i vs1 -> In i vs2 -> False) -> agree vs2 (merge vs1 r1 r2) r2.
Proof. intros Hd i Hi. cbn. destruct (in_dec Nat.eq_dec i vs1) as [H|H]; [exfalso; eauto|reflexivity]. Qed.

Lemma merge_env_on vs1 vs2 G r1 r2 :
  env_on vs1 G r1 -> env_on vs2 G r2 -> env_on (vs1 ++ vs2) G (merge vs1 r1 r2).
Proof.
  intros H1 H2 i Hi. cbn. destruct (in_dec Nat.eq_dec i vs1) as [H|H]; [apply H1; exact H|].
  apply in_app_or in Hi. destruct Hi as [Hi|Hi]; [contradiction|apply H2; exact Hi].
Qed.

Lemma nodup_app_disjoint (l1 l2 : list nat) : NoDup (l1 ++ l2) -> forall i, In i l1 -> In i l2 -> False.
Proof.
  induction l1 as [|x t IH]; cbn; intros H i H1 H2; [contradiction|].
  apply NoDup_cons_iff in H. destruct H as [Hx Ht]. destruct H1 as [->|H1].
  - apply Hx. apply in_or_app. right; exact H2.
  - eapply IH; eauto.
Qed.
Lemma nodup_app_l (l1 l2 : list nat) : NoDup (l1 ++ l2) -> NoDup l1.
Proof.
  induction l1 as [|x t IH]; cbn; intros H; [constructor|].
  apply NoDup_cons_iff in H. destruct H as [Hx Ht]. constructor; [|apply IH; exact Ht].
  intro Hin. apply Hx. apply in_or_app. left; exact Hin.
Qed.
Lemma nodup_app_r (l1 l2 : list nat) : NoDup (l1 ++ l2) -> NoDup l2.
Proof.
  induction l1 as [|x t IH]; cbn; intros H; [exact H|].
  apply NoDup_cons_iff in H. destruct H as [_ Ht]. apply IH; exact Ht.
Qed.

(* the bounds of an arithmetic expression over finite leaves are finite, and attained *)
Definition attains (G : tenv) (e : expr) (z : Z) : Prop :=
  exists r, env_on (vars e) G r /\ eval G r e = Some (VInt z).

Lemma fold_min2_in l : forall acc, fold_left ext_min2 l acc = acc \/ In (fold_left ext_min2 l acc) l.
Proof.
  induction l as [|x t IH]; intros acc; cbn; [left; reflexivity|].
  destruct (IH (ext_min2 acc x)) as [E|E].
  - rewrite E. destruct acc, x; cbn; auto.
    destruct (Z.min_spec z z0) as [[_ ->]|[_ ->]]; auto.
  - right; right; exact E.
Qed.
Lemma fold_max2_in l : forall acc, fold_left ext_max2 l acc = acc \/ In (fold_left ext_max2 l acc) l.
Proof.
  induction l as [|x t IH]; intros acc; cbn; [left; reflexivity|].
  destruct (IH (ext_max2 acc x)) as [E|E].
  - rewrite E. destruct acc, x; cbn; auto.
    destruct (Z.max_spec z z0) as [[_ ->]|[_ ->]]; auto.
  - right; right; exact E.
Qed.

Lemma min_list_in l m : ext_min_list l = Some m -> In m l.
Proof.
  destruct l as [|x t]; cbn; [discriminate|]. intros [= <-].
  destruct (fold_min2_in t x) as [E|E]; [left; symmetry; exact E|right; exact E].
Qed.
Lemma max_list_in l m : ext_max_list l = Some m -> In m l.
Proof.
  destruct l as [|x t]; cbn; [discriminate|]. intros [= <-].
  destruct (fold_max2_in t x) as [E|E]; [left; symmetry; exact E|right; exact E].
Qed.

Lemma analyze_int_inv G e i a : analyze G e = Some i -> ann i = AInt a -> bounds_of G e = Some (AInt a).
Proof. intros H1 H2. unfold bounds_of. rewrite H1. cbn. rewrite H2. reflexivity. Qed.

Theorem tight_arith G e :
  arith e = true -> NoDup (vars e) -> (forall i, In i (vars e) -> finite_leaf G i) ->
  forall a, bounds_of G e = Some (AInt a) ->
  exists l h, a.(lo) = Fin l /\ a.(hi) = Fin h /\ attains G e l /\ attains G e h.
Proof.
  induction e; cbn [arith vars]; intros Har Hnd Hfin a Hb; try discriminate.
  - (* EConst *)
    unfold bounds_of in Hb. cbn in Hb. inversion Hb; subst a. exists z, z. cbn.
    repeat split; exists (mk_env (fun _ => 0) (fun _ => false) (fun _ => 0));
      (split; [intros j []|reflexivity]).
  - (* EVar *)
    destruct (Hfin i (or_introl eq_refl)) as (l & h & HG & Hlh).
    unfold bounds_of in Hb. cbn [analyze] in Hb.
    destruct (check_int (G i)) as [rr|] eqn:Ec; [|discriminate]. apply check_int_inv in Ec. subst rr.
    cbn in Hb. inversion Hb; subst a. rewrite HG. cbn. exists l, h. repeat split.
    + exists (mk_env (fun _ => l) (fun _ => false) (fun _ => 0)). split; [|reflexivity].
      intros j [<-|[]]. rewrite HG. unfold in_aval; cbn. repeat split; try lia. apply Z.divide_1_l.
    + exists (mk_env (fun _ => h) (fun _ => false) (fun _ => 0)). split; [|reflexivity].
      intros j [<-|[]]. rewrite HG. unfold in_aval; cbn. repeat split; try lia. apply Z.divide_1_l.
  - (* EAdd *)
    apply andb_prop in Har. destruct Har as [A1 A2].
    pose proof (nodup_app_disjoint _ _ Hnd) as Hdis.
    unfold bounds_of in Hb. cbn [analyze] in Hb.
    destruct (analyze G e1) as [ia|] eqn:E1; [|discriminate].
    destruct (analyze G e2) as [ib|] eqn:E2; [|discriminate].
    destruct (as_int ia) as [x|] eqn:Ex; [|discriminate].
    destruct (as_int ib) as [y|] eqn:Ey; [|discriminate].
    destruct (aval_additive false x y) as [rr|] eqn:Er; [|discriminate].
    destruct (check_int rr) as [r2|] eqn:Ec; [|discriminate]. apply check_int_inv in Ec. subst r2.
    cbn in Hb. inversion Hb; subst a; clear Hb.
    apply as_int_inv in Ex, Ey.
    destruct (IHe1 A1 (nodup_app_l _ _ Hnd) (fun i Hi => Hfin i (in_or_app _ _ _ (or_introl Hi))) x
                   (analyze_int_inv _ _ _ _ E1 Ex)) as (l1 & h1 & L1 & H1 & (ra & Ra & Va) & (rA & RA & VA)).
    destruct (IHe2 A2 (nodup_app_r _ _ Hnd) (fun i Hi => Hfin i (in_or_app _ _ _ (or_intror Hi))) y
                   (analyze_int_inv _ _ _ _ E2 Ey)) as (l2 & h2 & L2 & H2 & (rb & Rb & Vb) & (rB & RB & VB)).
    unfold aval_additive in Er. rewrite L1, L2, H1, H2 in Er. cbn in Er. inversion Er; subst rr; clear Er. cbn.
    exists (l1 + l2), (h1 + h2). repeat split.
    + exists (merge (vars e1) ra rb). split; [apply merge_env_on; assumption|]. cbn [eval].
      rewrite (eval_agree G e1 A1 _ ra (merge_agree_l _ _ _)), (eval_agree G e2 A2 _ rb (merge_agree_r _ _ _ _ Hdis)).
      rewrite Va, Vb. reflexivity.
    + exists (merge (vars e1) rA rB). split; [apply merge_env_on; assumption|]. cbn [eval].
      rewrite (eval_agree G e1 A1 _ rA (merge_agree_l _ _ _)), (eval_agree G e2 A2 _ rB (merge_agree_r _ _ _ _ Hdis)).
      rewrite VA, VB. reflexivity.
  - (* ESub *)
    apply andb_prop in Har. destruct Har as [A1 A2].
    pose proof (nodup_app_disjoint _ _ Hnd) as Hdis.
    unfold bounds_of in Hb. cbn [analyze] in Hb.
    destruct (analyze G e1) as [ia|] eqn:E1; [|discriminate].
    destruct (analyze G e2) as [ib|] eqn:E2; [|discriminate].
    destruct (as_int ia) as [x|] eqn:Ex; [|discriminate].
    destruct (as_int ib) as [y|] eqn:Ey; [|discriminate].
    destruct (aval_additive true x y) as [rr|] eqn:Er; [|discriminate].
    destruct (check_int rr) as [r2|] eqn:Ec; [|discriminate]. apply check_int_inv in Ec. subst r2.
    cbn in Hb. inversion Hb; subst a; clear Hb.
    apply as_int_inv in Ex, Ey.
    destruct (IHe1 A1 (nodup_app_l _ _ Hnd) (fun i Hi => Hfin i (in_or_app _ _ _ (or_introl Hi))) x
                   (analyze_int_inv _ _ _ _ E1 Ex)) as (l1 & h1 & L1 & H1 & (ra & Ra & Va) & (rA & RA & VA)).
    destruct (IHe2 A2 (nodup_app_r _ _ Hnd) (fun i Hi => Hfin i (in_or_app _ _ _ (or_intror Hi))) y
                   (analyze_int_inv _ _ _ _ E2 Ey)) as (l2 & h2 & L2 & H2 & (rb & Rb & Vb) & (rB & RB & VB)).
    unfold aval_additive in Er. rewrite L1, L2, H1, H2 in Er. cbn in Er. inversion Er; subst rr; clear Er. cbn.
    exists (l1 + - h2), (h1 + - l2). repeat split.
    + exists (merge (vars e1) ra rB). split; [apply merge_env_on; assumption|]. cbn [eval].
      rewrite (eval_agree G e1 A1 _ ra (merge_agree_l _ _ _)), (eval_agree G e2 A2 _ rB (merge_agree_r _ _ _ _ Hdis)).
      rewrite Va, VB. replace (l1 + - h2) with (l1 - h2) by lia. reflexivity.
    + exists (merge (vars e1) rA rb). split; [apply merge_env_on; assumption|]. cbn [eval].
      rewrite (eval_agree G e1 A1 _ rA (merge_agree_l _ _ _)), (eval_agree G e2 A2 _ rb (merge_agree_r _ _ _ _ Hdis)).
      rewrite VA, Vb. replace (h1 + - l2) with (h1 - l2) by lia. reflexivity.
  - (* EMul *)
    apply andb_prop in Har. destruct Har as [A1 A2].
    pose proof (nodup_app_disjoint _ _ Hnd) as Hdis.
    unfold bounds_of in Hb. cbn [analyze] in Hb.
    destruct (analyze G e1) as [ia|] eqn:E1; [|discriminate].
    destruct (analyze G e2) as [ib|] eqn:E2; [|discriminate].
    destruct (as_int ia) as [x|] eqn:Ex; [|discriminate].
    destruct (as_int ib) as [y|] eqn:Ey; [|discriminate].
    destruct (aval_mul x y) as [rr|] eqn:Er; [|discriminate].
    destruct (check_int rr) as [r2|] eqn:Ec; [|discriminate]. apply check_int_inv in Ec. subst r2.
    cbn in Hb. inversion Hb; subst a; clear Hb.
    apply as_int_inv in Ex, Ey.
    destruct (IHe1 A1 (nodup_app_l _ _ Hnd) (fun i Hi => Hfin i (in_or_app _ _ _ (or_introl Hi))) x
                   (analyze_int_inv _ _ _ _ E1 Ex)) as (l1 & h1 & L1 & H1 & (ra & Ra & Va) & (rA & RA & VA)).
    destruct (IHe2 A2 (nodup_app_r _ _ Hnd) (fun i Hi => Hfin i (in_or_app _ _ _ (or_intror Hi))) y
                   (analyze_int_inv _ _ _ _ E2 Ey)) as (l2 & h2 & L2 & H2 & (rb & Rb & Vb) & (rB & RB & VB)).
    (* every product of two extremes is attained *)
    assert (Att : forall p, In p [Fin (h1 * h2); Fin (l1 * h2); Fin (h1 * l2); Fin (l1 * l2)] ->
                            exists z, p = Fin z /\ attains G (EMul e1 e2) z).
    { intros p Hp. cbn in Hp.
      destruct Hp as [<-|[<-|[<-|[<-|[]]]]]; eexists; (split; [reflexivity|]).
      - exists (merge (vars e1) rA rB). split; [apply merge_env_on; assumption|]. cbn [eval].
        rewrite (eval_agree G e1 A1 _ rA (merge_agree_l _ _ _)), (eval_agree G e2 A2 _ rB (merge_agree_r _ _ _ _ Hdis)).
        rewrite VA, VB. reflexivity.
      - exists (merge (vars e1) ra rB). split; [apply merge_env_on; assumption|]. cbn [eval].
        rewrite (eval_agree G e1 A1 _ ra (merge_agree_l _ _ _)), (eval_agree G e2 A2 _ rB (merge_agree_r _ _ _ _ Hdis)).
        rewrite Va, VB. reflexivity.
      - exists (merge (vars e1) rA rb). split; [apply merge_env_on; assumption|]. cbn [eval].
        rewrite (eval_agree G e1 A1 _ rA (merge_agree_l _ _ _)), (eval_agree G e2 A2 _ rb (merge_agree_r _ _ _ _ Hdis)).
        rewrite VA, Vb. reflexivity.
      - exists (merge (vars e1) ra rb). split; [apply merge_env_on; assumption|]. cbn [eval].
        rewrite (eval_agree G e1 A1 _ ra (merge_agree_l _ _ _)), (eval_agree G e2 A2 _ rb (merge_agree_r _ _ _ _ Hdis)).
        rewrite Va, Vb. reflexivity. }
    unfold aval_mul in Er. rewrite L1, L2, H1, H2 in Er. cbn [ext_mul] in Er.
    destruct (ext_min_list _) as [mn|] eqn:Emn; [|discriminate].
    destruct (ext_max_list _) as [mx|] eqn:Emx; [|discriminate].
    destruct (Att mn (min_list_in _ _ Emn)) as (zl & -> & Al).
    destruct (Att mx (max_list_in _ _ Emx)) as (zh & -> & Ah).
    exists zl, zh.
    assert (Hlo : lo rr = Fin zl /\ hi rr = Fin zh).
    { destruct (md x), (md y); try (destruct (mv x =? 0)); try (destruct (mv y =? 0));
        repeat match type of Er with
               | context [match ?c with _ => _ end] => destruct c; try discriminate
               | context [if ?c then _ else _] => destruct c; try discriminate
               end; inversion Er; subst rr; cbn; auto. }
    destruct Hlo as [-> ->]. repeat split; assumption.
Qed.

(* F7: for ?: the analogous claim is false — the condition may be a tautology the folder does not see.
   a : UInt:8,  a >= 0 ? 10 : 20  has inferred upper bound 20, never attained. *)
Definition f7_G : tenv := fun _ => leaf_aval KUInt (Some 8).
Definition f7_e : expr := EChoice (ECmp CGe (EVar 0) (EConst 0)) (EConst 10) (EConst 20).

Theorem tight_choice_refuted :
  (exists a, bounds_of f7_G f7_e = Some (AInt a) /\ hi a = Fin 20) /\
  (forall r, env_in f7_G r -> eval f7_G r f7_e = Some (VInt 10)).
Proof.
  split.
  - eexists. split; vm_compute; reflexivity.
  - intros r Hr. cbn [eval f7_e]. specialize (Hr 0%nat). unfold in_aval, f7_G in Hr. cbn in Hr.
    destruct Hr as (H0 & _). cbn [cmp_eval].
    destruct (0 <=? ints r 0) eqn:E; [reflexivity|lia].
Qed.
