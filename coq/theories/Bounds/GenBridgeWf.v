(* C05 — the preconditions of the generated equalities (harness/bounds_x.py, GenBridge.v) hold on everything the
   model's analysis feeds to a rule: moduli are positive and a modular value under a finite modulus is not negative
   (this is what keeps the asserts `a >= 0`, `b >= 0` of _greatest_common_divisor and the `%` by zero silent). *)
From Coq Require Import ZArith List Bool Lia ZifyBool.
Import ListNotations.
Require Import EmbossV.Bounds.Model EmbossV.Bounds.GenBridge EmbossV.Bounds.Proofs EmbossV.Bounds.Sound EmbossV.Bounds.Exec.
Open Scope Z_scope.

Lemma consistent_pos : forall a m, aval_consistent a = true -> md a = Some m -> 0 < m.
Proof.
  intros a m H E. unfold aval_consistent in H. rewrite E in H.
  repeat (apply andb_prop in H; destruct H as [H _]). apply Z.ltb_lt. exact H.
Qed.

Lemma wf_of_mod : forall a, aval_consistent a = true ->
  (forall m, md a = Some m -> 0 < m -> 0 <= mv a) -> aval_wf a.
Proof.
  intros a H K. unfold aval_wf. destruct (md a) as [m|] eqn:E; [|exact I].
  pose proof (consistent_pos a m H E). split; [assumption|apply (K m); auto].
Qed.

Lemma wf_md_nonneg : forall a, aval_wf a -> md_nonneg (md a).
Proof. intros a H. unfold aval_wf in H. destruct (md a); cbn; [lia|exact I]. Qed.

Lemma additive_wf : forall sub x y r, aval_additive sub x y = Some r -> aval_consistent r = true -> aval_wf r.
Proof.
  intros sub x y r H C. unfold aval_additive in H. dmatch H; inv_some;
    (apply wf_of_mod; [exact C|]); cbn [md mv]; intros m0 Em Hm; try discriminate; inversion Em; subst;
    apply Z.mod_pos_bound; exact Hm.
Qed.

Lemma shared_mv_nonneg : forall lm lv rm rv m v, shared_modular_value lm lv rm rv = Some (Some m, v) -> 0 < m -> 0 <= v.
Proof.
  intros lm lv rm rv m v H Hm. unfold shared_modular_value in H. dmatch H; inv_some.
  apply Z.mod_pos_bound. exact Hm.
Qed.

Lemma choice_wf : forall x y r, aval_choice x y = Some r -> aval_consistent r = true -> aval_wf r.
Proof.
  intros x y r H C. unfold aval_choice in H. dmatch H. inv_some.
  apply wf_of_mod; [exact C|]. cbn [md mv]. intros m0 Em Hm. subst. eapply shared_mv_nonneg; eauto.
Qed.

Lemma mul_wf : forall x y r, aval_mul x y = Some r -> aval_consistent r = true -> aval_wf r.
Proof.
  intros x y r H C. unfold aval_mul in H. dmatch H; inv_some;
    (apply wf_of_mod; [exact C|]); cbn [md mv]; intros m0 Em Hm; try discriminate; inversion Em; subst;
    apply Z.mod_pos_bound; exact Hm.
Qed.

Lemma shared_fold_wf : forall rest m v m' v', (forall k, m = Some k -> 0 < k -> 0 <= v) ->
  shared_fold m v rest = Some (Some m', v') -> 0 < m' -> 0 <= v'.
Proof.
  induction rest as [|a rest IH]; intros m v m' v' K H Hm; cbn [shared_fold] in H.
  - inv_some. eapply K; eauto.
  - destruct (shared_modular_value m v (md a) (mv a)) as [[m1 v1]|] eqn:E; [|discriminate].
    eapply IH; [|exact H|exact Hm]. intros k -> Hk. eapply shared_mv_nonneg; eauto.
Qed.

Lemma max_wf : forall args r, Forall aval_wf args -> aval_max args = Some r -> aval_consistent r = true -> aval_wf r.
Proof.
  intros args r Hall H C. unfold aval_max in H. destruct args as [|a0 rest]; [discriminate|].
  inversion Hall as [|? ? H0 Hrest]; subst.
  dmatch H; inv_some; (apply wf_of_mod; [exact C|]); cbn [md mv]; intros m0 E' Hm; try discriminate.
  subst. eapply shared_fold_wf; [|eassumption|exact Hm].
  intros k Ek Hk. unfold aval_wf in H0. rewrite Ek in H0. tauto.
Qed.

Lemma sequence_Forall : forall {A B} (P : B -> Prop) (f : A -> option B) (l : list A) (l' : list B),
  Forall (fun x => forall y, f x = Some y -> P y) l -> sequence (map f l) = Some l' -> Forall P l'.
Proof.
  induction l as [|x l IH]; intros l' HF H; cbn in H.
  - inv_some. constructor.
  - inversion HF as [|? ? Hx Hl]; subst. destruct (f x) as [y|] eqn:E; [|discriminate].
    destruct (sequence (map f l)) as [t|] eqn:E2; [|discriminate]. inv_some.
    constructor; [apply Hx; reflexivity|apply IH; [exact Hl|reflexivity]].
Qed.

Lemma check_int_consistent : forall a r, check_int a = Some r -> r = AInt a /\ aval_consistent a = true.
Proof. intros a r H. unfold check_int in H. destruct (aval_consistent a); [inv_some; auto|discriminate]. Qed.

Ltac wf_rule L :=
  match goal with
  | Hc : check_int ?r = Some ?rr, Hann : ?rr = AInt ?a |- aval_wf ?a =>
      apply check_int_consistent in Hc; destruct Hc as [Hc1 Hc2]; rewrite Hc1 in Hann; inversion Hann; subst;
      eapply L; eauto
  end.

(* every integer annotation the model's analysis produces satisfies the precondition of the generated equalities *)
Theorem analyze_wf : forall G, (forall i, aval_wf (G i)) ->
  forall e nfo a, analyze G e = Some nfo -> ann nfo = AInt a -> aval_wf a.
Proof.
  intros G HG. induction e using expr_ind2; intros nfo a0 HA Hann; cbn [analyze] in HA.
  all: try (inv_some; cbn in Hann; inversion Hann; subst; exact I).
  - (* EVar *) dmatch HA. inv_some. cbn in Hann. wf_rule HG.
  - (* ERef *) dmatch HA. inv_some. cbn in Hann. eauto.
  - (* ECRef *) dmatch HA; inv_some; cbn in Hann; try discriminate; inversion Hann; subst; eauto.
  - (* EAdd *) dmatch HA; inv_some; cbn in Hann; wf_rule additive_wf.
  - (* ESub *) dmatch HA; inv_some; cbn in Hann; wf_rule additive_wf.
  - (* EMul *) dmatch HA; inv_some; cbn in Hann; wf_rule mul_wf.
  - dmatch HA; inv_some; cbn in Hann; discriminate.
  - dmatch HA; inv_some; cbn in Hann; discriminate.
  - dmatch HA; inv_some; cbn in Hann; discriminate.
  - (* EChoice *) dmatch HA; inv_some; cbn in Hann; try discriminate; eauto; try (wf_rule choice_wf).
  - (* EMax *)
    destruct (sequence (map (analyze G) args)) as [is|] eqn:E1; [|discriminate].
    destruct (sequence (map as_int is)) as [avs|] eqn:E2; [|discriminate].
    destruct (aval_max avs) as [r|] eqn:E3; [|discriminate].
    destruct (check_int r) as [rr|] eqn:E4; [|discriminate].
    inv_some. cbn [ann] in Hann.
    assert (W1 : Forall (fun i => forall a, ann i = AInt a -> aval_wf a) is).
    { eapply (sequence_Forall _ (analyze G) args); [|exact E1].
      eapply Forall_impl; [|exact H]. cbn. intros e He y Hy a Ha. eapply He; eauto. }
    assert (W2 : Forall aval_wf avs).
    { eapply (sequence_Forall _ as_int is); [|exact E2].
      eapply Forall_impl; [|exact W1]. cbn. intros i Hi y Hy. apply Hi. apply as_int_inv. exact Hy. }
    apply check_int_consistent in E4. destruct E4 as [-> C]. inversion Hann; subst.
    eapply max_wf; eauto.
  - dmatch HA; inv_some; cbn in Hann; inversion Hann; subst; exact I.
  - dmatch HA; inv_some; cbn in Hann; inversion Hann; subst; exact I.
Qed.

Lemma leaf_wf : forall k s, aval_wf (leaf_aval k s).
Proof.
  intros k [w|]; unfold leaf_aval; [|cbn; lia].
  destruct (w <? 1); [cbn; lia|]. destruct k; cbn; lia.
Qed.

Lemma tenv_of_specs_wf : forall specs i, aval_wf (tenv_of_specs specs i).
Proof.
  intros specs i. unfold tenv_of_specs. destruct (nth_error specs i) as [[k s]|]; [apply leaf_wf|cbn; lia].
Qed.

(* operands of a rule, as the analysis hands them over *)
Lemma operand_wf : forall G e nfo a, (forall i, aval_wf (G i)) -> analyze G e = Some nfo -> as_int nfo = Some a -> aval_wf a.
Proof. intros G e nfo a HG HA Hi. eapply analyze_wf; eauto using as_int_inv. Qed.

Lemma operands_wf : forall G args is avs, (forall i, aval_wf (G i)) ->
  sequence (map (analyze G) args) = Some is -> sequence (map as_int is) = Some avs -> Forall aval_wf avs.
Proof.
  intros G args is avs HG E1 E2.
  assert (W1 : Forall (fun i => forall a, ann i = AInt a -> aval_wf a) is).
  { eapply (sequence_Forall _ (analyze G) args); [|exact E1].
    apply Forall_forall. intros e _ y Hy a Ha. eapply analyze_wf; eauto. }
  eapply (sequence_Forall _ as_int is); [|exact E2].
  eapply Forall_impl; [|exact W1]. cbn. intros i Hi y Hy. apply Hi. apply as_int_inv. exact Hy.
Qed.

Lemma Forall_wf_md_nonneg : forall l, Forall aval_wf l -> Forall (fun a => md_nonneg (md a)) l.
Proof. intros l H. eapply Forall_impl; [|exact H]. intros a Ha. apply wf_md_nonneg. exact Ha. Qed.
