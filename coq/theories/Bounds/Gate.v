(* C05 — the 64-bit gate: an accepted run-time operation fits one 64-bit C++ type
   together with all of its integer operands, and _cpp_integer_type_for_range
   then returns a type that contains the whole range. *)
From Coq Require Import ZArith List Bool Lia ZifyBool.
Import ListNotations.
Require Import EmbossV.Bounds.Model.
Open Scope Z_scope.

Definition runtime_fn (G : tenv) (e : expr) : bool :=
  match bounds_of G e with
  | Some r => is_function e && negb (ares_is_constant r)
  | None => false
  end.

Definition class_conflict (G : tenv) (e : expr) (r : ares) : bool :=
  let cls := clause_class r ::
             map (fun a => match bounds_of G a with Some ra => clause_class ra | None => 0 end) (children e) in
  existsb (Z.eqb 1) cls && existsb (Z.eqb 2) cls.

Lemma gate_unfold G e :
  gate G e =
  match bounds_of G e with
  | None => false
  | Some r =>
      (if is_function e && negb (ares_is_constant r) then forallb (gate G) (children e) else true)
      && own_bounds_ok r
      && (if is_function e && negb (ares_is_constant r) then negb (class_conflict G e r) else true)
  end.
Proof.
  destruct e; cbn [gate]; destruct (bounds_of G _) as [r|]; try reflexivity;
    cbn [is_function children forallb andb];
    destruct (negb (ares_is_constant r)); cbn [andb]; rewrite ?andb_true_r, ?andb_assoc; try reflexivity.
Qed.

(* n is a run-time operation node of e: reachable from e through non-constant function nodes *)
Inductive rt_node (G : tenv) : expr -> expr -> Prop :=
| rt_here e : runtime_fn G e = true -> rt_node G e e
| rt_child e c n : runtime_fn G e = true -> In c (children e) -> rt_node G c n -> rt_node G e n.

Lemma gate_rt_node G e n : gate G e = true -> rt_node G e n -> gate G n = true.
Proof.
  intros Hg Hn. induction Hn as [e Hr|e c n Hr Hin Hn IH]; [exact Hg|].
  apply IH. rewrite gate_unfold in Hg. unfold runtime_fn in Hr.
  destruct (bounds_of G e) as [r|]; [|discriminate]. rewrite Hr in Hg.
  apply andb_prop in Hg. destruct Hg as [Hg _]. apply andb_prop in Hg. destruct Hg as [Hg _].
  rewrite forallb_forall in Hg. apply Hg. exact Hin.
Qed.

Definition fits (sg : bool) (l h : Z) : bool := if sg then fits_i64 l h else fits_u64 l h.

(* clause c (an operation or one of its operands) is representable in the 64-bit type of signedness sg *)
Definition clause_fits (G : tenv) (sg : bool) (c : expr) : Prop :=
  match bounds_of G c with
  | Some (AInt a) =>
      match a.(lo), a.(hi) with
      | Fin l, Fin h => fits sg l h = true
      | _, _ => False
      end
  | Some _ => True
  | None => False
  end.

Lemma own_ok_class r :
  own_bounds_ok r = true ->
  match r with
  | AInt a => exists l h, lo a = Fin l /\ hi a = Fin h /\
                          (clause_class r = 0 -> fits_i64 l h = true /\ fits_u64 l h = true) /\
                          (clause_class r = 1 -> fits_u64 l h = true) /\
                          (clause_class r = 2 -> fits_i64 l h = true) /\
                          (clause_class r = 0 \/ clause_class r = 1 \/ clause_class r = 2)
  | _ => clause_class r = 0
  end.
Proof.
  destruct r as [a| |]; cbn [own_bounds_ok clause_class]; try reflexivity.
  destruct (lo a) as [|l|]; try discriminate. destruct (hi a) as [|h|]; try discriminate.
  intros H. exists l, h. repeat split; try reflexivity;
    destruct (fits_i64 l h) eqn:E1; destruct (fits_u64 l h) eqn:E2; cbn in *;
      try discriminate; try reflexivity; try (intros; discriminate); try lia; auto.
Qed.

Lemma existsb_false_all {A} (f : A -> bool) l : existsb f l = false -> forall x, In x l -> f x = false.
Proof.
  induction l as [|y t IH]; intros H x Hin; [destruct Hin|]. cbn in H.
  apply orb_false_elim in H. destruct H as [H1 H2]. destruct Hin as [->|Hin]; auto.
Qed.

Theorem gate_fits G e n :
  gate G e = true -> rt_node G e n ->
  exists sg, Forall (clause_fits G sg) (n :: children n).
Proof.
  intros Hg Hn.
  assert (Hrt : runtime_fn G n = true) by (clear Hg; induction Hn; assumption).
  pose proof (gate_rt_node _ _ _ Hg Hn) as Hgn. clear Hg Hn e.
  rewrite gate_unfold in Hgn. unfold runtime_fn in Hrt.
  destruct (bounds_of G n) as [r|] eqn:Er; [|discriminate]. rewrite Hrt in Hgn.
  apply andb_prop in Hgn. destruct Hgn as [Hgn Hcc].
  apply andb_prop in Hgn. destruct Hgn as [Hargs Hown].
  apply negb_true_iff in Hcc. unfold class_conflict in Hcc.
  set (cls := clause_class r :: map (fun a => match bounds_of G a with Some ra => clause_class ra | None => 0 end) (children n)) in *.
  (* every child passed the gate itself, hence has finite 64-bit bounds *)
  assert (Hch : forall c, In c (children n) ->
                          exists rc, bounds_of G c = Some rc /\ own_bounds_ok rc = true).
  { intros c Hc. rewrite forallb_forall in Hargs. specialize (Hargs c Hc).
    rewrite gate_unfold in Hargs. destruct (bounds_of G c) as [rc|]; [|discriminate].
    exists rc. split; [reflexivity|].
    apply andb_prop in Hargs. destruct Hargs as [Hargs _]. apply andb_prop in Hargs. tauto. }
  (* choose the signedness: unsigned iff some clause needs it *)
  destruct (existsb (Z.eqb 1) cls) eqn:E1.
  - (* some clause needs unsigned; then none needs signed *)
    cbn [andb] in Hcc. exists false.
    pose proof (existsb_false_all _ _ Hcc) as No2.
    constructor.
    + unfold clause_fits. rewrite Er. pose proof (own_ok_class r Hown) as K.
      destruct r as [a| |]; auto. destruct K as (l & h & -> & -> & K0 & K1 & K2 & K3).
      assert (N2 : (2 =? clause_class (AInt a)) = false) by (apply No2; left; reflexivity).
      cbn [fits]. destruct K3 as [K|[K|K]]; [apply K0 in K; tauto|apply K1; exact K|rewrite K in N2; discriminate].
    + apply Forall_forall. intros c Hc. destruct (Hch c Hc) as (rc & Erc & Hok).
      unfold clause_fits. rewrite Erc. pose proof (own_ok_class rc Hok) as K.
      destruct rc as [a| |]; auto. destruct K as (l & h & -> & -> & K0 & K1 & K2 & K3).
      assert (N2 : (2 =? clause_class (AInt a)) = false).
      { apply No2. right. apply in_map_iff. exists c. rewrite Erc. split; [reflexivity|exact Hc]. }
      cbn [fits]. destruct K3 as [K|[K|K]]; [apply K0 in K; tauto|apply K1; exact K|rewrite K in N2; discriminate].
  - (* no clause needs unsigned: all fit the signed type *)
    exists true.
    pose proof (existsb_false_all _ _ E1) as No1.
    constructor.
    + unfold clause_fits. rewrite Er. pose proof (own_ok_class r Hown) as K.
      destruct r as [a| |]; auto. destruct K as (l & h & -> & -> & K0 & K1 & K2 & K3).
      assert (N1 : (1 =? clause_class (AInt a)) = false) by (apply No1; left; reflexivity).
      cbn [fits]. destruct K3 as [K|[K|K]]; [apply K0 in K; tauto|rewrite K in N1; discriminate|apply K2; exact K].
    + apply Forall_forall. intros c Hc. destruct (Hch c Hc) as (rc & Erc & Hok).
      unfold clause_fits. rewrite Erc. pose proof (own_ok_class rc Hok) as K.
      destruct rc as [a| |]; auto. destruct K as (l & h & -> & -> & K0 & K1 & K2 & K3).
      assert (N1 : (1 =? clause_class (AInt a)) = false).
      { apply No1. right. apply in_map_iff. exists c. rewrite Erc. split; [reflexivity|exact Hc]. }
      cbn [fits]. destruct K3 as [K|[K|K]]; [apply K0 in K; tauto|rewrite K in N1; discriminate|apply K2; exact K].
Qed.

(* _cpp_integer_type_for_range is total on 64-bit ranges and returns a type containing the range *)
Definition cpp_type_lo (t : bool * Z) : Z := if fst t then - 2 ^ (snd t - 1) else 0.
Definition cpp_type_hi (t : bool * Z) : Z := if fst t then 2 ^ (snd t - 1) - 1 else 2 ^ snd t - 1.

Theorem cpp_type_for_range_total mn mx sg :
  fits sg mn mx = true ->
  exists t, cpp_type_for_range mn mx = Some t /\ cpp_type_lo t <= mn /\ mx <= cpp_type_hi t /\
            (snd t = 32 \/ snd t = 64).
Proof.
  unfold fits, fits_i64, fits_u64, cpp_type_for_range. intros H.
  assert (P31 : 2 ^ 31 = 2147483648) by reflexivity.
  assert (P32 : 2 ^ 32 = 4294967296) by reflexivity.
  assert (P63 : 2 ^ 63 = 9223372036854775808) by reflexivity.
  assert (P64 : 2 ^ 64 = 18446744073709551616) by reflexivity.
  destruct ((- 2 ^ 31 <=? mn) && (mx <=? 2 ^ 31 - 1)) eqn:A.
  { exists (true, 32). cbn. split; [reflexivity|]. change (2 ^ (32 - 1)) with (2 ^ 31). lia. }
  destruct ((0 <=? mn) && (mx <=? 2 ^ 32 - 1)) eqn:B.
  { exists (false, 32). cbn. split; [reflexivity|]. lia. }
  destruct ((- 2 ^ 63 <=? mn) && (mx <=? 2 ^ 63 - 1)) eqn:C.
  { exists (true, 64). cbn. split; [reflexivity|]. change (2 ^ (64 - 1)) with (2 ^ 63). lia. }
  destruct ((0 <=? mn) && (mx <=? 2 ^ 64 - 1)) eqn:D.
  { exists (false, 64). cbn. split; [reflexivity|]. lia. }
  exfalso. destruct sg; lia.
Qed.

Theorem cpp_type_for_range_contains mn mx t :
  cpp_type_for_range mn mx = Some t -> cpp_type_lo t <= mn /\ mx <= cpp_type_hi t.
Proof.
  unfold cpp_type_for_range.
  assert (P31 : 2 ^ 31 = 2147483648) by reflexivity.
  assert (P32 : 2 ^ 32 = 4294967296) by reflexivity.
  assert (P63 : 2 ^ 63 = 9223372036854775808) by reflexivity.
  assert (P64 : 2 ^ 64 = 18446744073709551616) by reflexivity.
  destruct ((- 2 ^ 31 <=? mn) && (mx <=? 2 ^ 31 - 1)) eqn:A.
  { intros [= <-]. cbn. change (2 ^ (32 - 1)) with (2 ^ 31). lia. }
  destruct ((0 <=? mn) && (mx <=? 2 ^ 32 - 1)) eqn:B.
  { intros [= <-]. cbn. lia. }
  destruct ((- 2 ^ 63 <=? mn) && (mx <=? 2 ^ 63 - 1)) eqn:C.
  { intros [= <-]. cbn. change (2 ^ (64 - 1)) with (2 ^ 63). lia. }
  destruct ((0 <=? mn) && (mx <=? 2 ^ 64 - 1)) eqn:D.
  { intros [= <-]. cbn. lia. }
  discriminate.
Qed.
