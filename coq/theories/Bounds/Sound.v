(* C05 — the analysis is sound on every expression tree and every environment. *)
From Coq Require Import ZArith List Bool Lia ZifyBool.
Import ListNotations.
Require Import EmbossV.Bounds.Model EmbossV.Bounds.ProofsExt EmbossV.Bounds.Proofs.
Open Scope Z_scope.

Definition sound_at (G : tenv) (r : env) (e : expr) : Prop :=
  forall i v, analyze G e = Some i -> eval G r e = Some v ->
              in_ares i.(ann) v /\ (forall c, i.(cv) = Some c -> c = v).

Lemma check_int_inv a r : check_int a = Some r -> r = AInt a.
Proof. unfold check_int. destruct (aval_consistent a); congruence. Qed.

Lemma as_int_inv i a : as_int i = Some a -> ann i = AInt a.
Proof. unfold as_int. destruct (ann i); congruence. Qed.

Lemma cv_int_inv i z : cv_int i = Some z -> cv i = Some (VInt z).
Proof. unfold cv_int. destruct (cv i) as [[| |]|]; congruence. Qed.
Lemma cv_bool_inv i b : cv_bool i = Some b -> cv i = Some (VBool b).
Proof. unfold cv_bool. destruct (cv i) as [[| |]|]; congruence. Qed.
Lemma cv_enum_inv i z : cv_enum i = Some z -> cv i = Some (VEnum z).
Proof. unfold cv_enum. destruct (cv i) as [[| |]|]; congruence. Qed.

Lemma in_ares_int_inv a v : in_ares (AInt a) v -> exists x, v = VInt x /\ in_aval a x.
Proof. destruct v; simpl; intros H; try contradiction. eauto. Qed.
Lemma in_ares_bool_inv o v : in_ares (ABool o) v -> exists b, v = VBool b /\ (forall b', o = Some b' -> b' = b).
Proof.
  destruct v as [|b|]; simpl; destruct o; intros H; try contradiction;
    exists b; split; auto; congruence.
Qed.
Lemma in_ares_enum_inv o v : in_ares (AEnum o) v -> exists z, v = VEnum z /\ (forall z', o = Some z' -> z' = z).
Proof.
  destruct v as [| |z]; simpl; destruct o; intros H; try contradiction;
    exists z; split; auto; congruence.
Qed.

Ltac inv_some :=
  repeat match goal with
         | H : Some _ = Some _ |- _ => inversion H; subst; clear H
         | H : None = Some _ |- _ => discriminate H
         end.

Ltac dmatch H :=
  repeat match type of H with
         | context [match ?x with _ => _ end] =>
             let E := fresh "E" in destruct x eqn:E; try discriminate H
         end.

Theorem analyze_sound G r : env_in G r -> forall e, sound_at G r e.
Proof.
  intros Henv. induction e using expr_ind2; unfold sound_at; intros nfo v HA HE;
    cbn [analyze eval] in HA, HE.
  - (* EConst *) inv_some. cbn. split; [apply aval_const_sound|intros c [= <-]; reflexivity].
  - (* EBool *) inv_some. cbn. split; [reflexivity|intros c [= <-]; reflexivity].
  - (* EEnum *) inv_some. cbn. split; [reflexivity|intros c [= <-]; reflexivity].
  - (* EVar *)
    destruct (check_int (G i)) as [rr|] eqn:E; [|discriminate]. inv_some.
    apply check_int_inv in E. subst rr. cbn. split; [apply Henv|intros c H; discriminate].
  - (* EBVar *) inv_some. cbn. split; [exact I|intros c H; discriminate].
  - (* EEVar *) inv_some. cbn. split; [exact I|intros c H; discriminate].
  - (* ERef *)
    destruct (analyze G e) as [i1|] eqn:E1; [|discriminate]. inv_some. cbn.
    destruct (IHe i1 v E1 HE) as [H1 _]. split; [exact H1|intros c H; discriminate].
  - (* ECRef *)
    destruct (analyze G e) as [i1|] eqn:E1; [|discriminate].
    destruct (IHe i1 v E1 HE) as [H1 _].
    destruct (ann i1) as [a|[b|]|[z|]] eqn:Ea; try discriminate.
    + destruct (md a) eqn:Em; [discriminate|]. inv_some. cbn. split; [exact H1|].
      intros c [= <-]. apply in_ares_int_inv in H1. destruct H1 as (x & -> & Hx).
      unfold in_aval in Hx. rewrite Em in Hx. f_equal. symmetry. tauto.
    + inv_some. cbn. split; [exact H1|]. intros c [= <-].
      apply in_ares_bool_inv in H1. destruct H1 as (b' & -> & Hb). f_equal. apply Hb. reflexivity.
    + inv_some. cbn. split; [exact H1|]. intros c [= <-].
      apply in_ares_enum_inv in H1. destruct H1 as (z' & -> & Hz). f_equal. apply Hz. reflexivity.
  - (* EAdd *)
    destruct (analyze G e1) as [ia|] eqn:E1; [|discriminate].
    destruct (analyze G e2) as [ib|] eqn:E2; [|discriminate].
    destruct (as_int ia) as [x|] eqn:Ex; [|discriminate].
    destruct (as_int ib) as [y|] eqn:Ey; [|discriminate].
    destruct (aval_additive false x y) as [rr|] eqn:Er; [|discriminate].
    destruct (check_int rr) as [r2|] eqn:Ec; [|discriminate]. inv_some.
    apply check_int_inv in Ec. subst r2.
    destruct (eval G r e1) as [[p| |]|] eqn:V1; try discriminate.
    destruct (eval G r e2) as [[q| |]|] eqn:V2; try discriminate. inv_some.
    destruct (IHe1 ia _ E1 V1) as [A1 C1].
    destruct (IHe2 ib _ E2 V2) as [A2 C2].
    apply as_int_inv in Ex, Ey. rewrite Ex in A1. rewrite Ey in A2. cbn in A1, A2.
    cbn. split.
    + exact (aval_additive_sound false x y rr p q A1 A2 Er).
    + intros c Hc. destruct (cv_int ia) as [p'|] eqn:P; [|discriminate].
      destruct (cv_int ib) as [q'|] eqn:Q; [|discriminate]. inv_some.
      apply cv_int_inv in P, Q. specialize (C1 _ P). specialize (C2 _ Q). congruence.
  - (* ESub *)
    destruct (analyze G e1) as [ia|] eqn:E1; [|discriminate].
    destruct (analyze G e2) as [ib|] eqn:E2; [|discriminate].
    destruct (as_int ia) as [x|] eqn:Ex; [|discriminate].
    destruct (as_int ib) as [y|] eqn:Ey; [|discriminate].
    destruct (aval_additive true x y) as [rr|] eqn:Er; [|discriminate].
    destruct (check_int rr) as [r2|] eqn:Ec; [|discriminate]. inv_some.
    apply check_int_inv in Ec. subst r2.
    destruct (eval G r e1) as [[p| |]|] eqn:V1; try discriminate.
    destruct (eval G r e2) as [[q| |]|] eqn:V2; try discriminate. inv_some.
    destruct (IHe1 ia _ E1 V1) as [A1 C1].
    destruct (IHe2 ib _ E2 V2) as [A2 C2].
    apply as_int_inv in Ex, Ey. rewrite Ex in A1. rewrite Ey in A2. cbn in A1, A2.
    cbn. split.
    + exact (aval_additive_sound true x y rr p q A1 A2 Er).
    + intros c Hc. destruct (cv_int ia) as [p'|] eqn:P; [|discriminate].
      destruct (cv_int ib) as [q'|] eqn:Q; [|discriminate]. inv_some.
      apply cv_int_inv in P, Q. specialize (C1 _ P). specialize (C2 _ Q). congruence.
  - (* EMul *)
    destruct (analyze G e1) as [ia|] eqn:E1; [|discriminate].
    destruct (analyze G e2) as [ib|] eqn:E2; [|discriminate].
    destruct (as_int ia) as [x|] eqn:Ex; [|discriminate].
    destruct (as_int ib) as [y|] eqn:Ey; [|discriminate].
    destruct (aval_mul x y) as [rr|] eqn:Er; [|discriminate].
    destruct (check_int rr) as [r2|] eqn:Ec; [|discriminate]. inv_some.
    apply check_int_inv in Ec. subst r2.
    destruct (eval G r e1) as [[p| |]|] eqn:V1; try discriminate.
    destruct (eval G r e2) as [[q| |]|] eqn:V2; try discriminate. inv_some.
    destruct (IHe1 ia _ E1 V1) as [A1 C1].
    destruct (IHe2 ib _ E2 V2) as [A2 C2].
    apply as_int_inv in Ex, Ey. rewrite Ex in A1. rewrite Ey in A2. cbn in A1, A2.
    cbn. split.
    + exact (aval_mul_sound x y rr p q A1 A2 Er).
    + intros c Hc. destruct (cv_int ia) as [p'|] eqn:P; [|discriminate].
      destruct (cv_int ib) as [q'|] eqn:Q; [|discriminate]. inv_some.
      apply cv_int_inv in P, Q. specialize (C1 _ P). specialize (C2 _ Q). congruence.
  - (* ECmp *)
    destruct (analyze G e1) as [ia|] eqn:E1; [|discriminate].
    destruct (analyze G e2) as [ib|] eqn:E2; [|discriminate].
    destruct (as_int ia) as [x|] eqn:Ex; [|discriminate].
    destruct (as_int ib) as [y|] eqn:Ey; [|discriminate]. inv_some.
    destruct (eval G r e1) as [[p| |]|] eqn:V1; try discriminate.
    destruct (eval G r e2) as [[q| |]|] eqn:V2; try discriminate. inv_some.
    destruct (IHe1 ia _ E1 V1) as [A1 C1].
    destruct (IHe2 ib _ E2 V2) as [A2 C2].
    assert (K : forall b, match cv_int ia, cv_int ib with
                          | Some p', Some q' => Some (cmp_eval op p' q') | _, _ => None end = Some b ->
                          b = cmp_eval op p q).
    { intros b Hb. destruct (cv_int ia) as [p'|] eqn:P; [|discriminate].
      destruct (cv_int ib) as [q'|] eqn:Q; [|discriminate]. inv_some.
      apply cv_int_inv in P, Q. specialize (C1 _ P). specialize (C2 _ Q). congruence. }
    cbn. split.
    + destruct (match cv_int ia, cv_int ib with Some p', Some q' => Some (cmp_eval op p' q') | _, _ => None end)
        as [b|] eqn:Eb; cbn; [apply K; reflexivity|exact I].
    + intros c Hc.
      destruct (match cv_int ia, cv_int ib with Some p', Some q' => Some (cmp_eval op p' q') | _, _ => None end)
        as [b|] eqn:Eb; cbn in Hc; [|discriminate]. inv_some. f_equal. apply K. reflexivity.
  - (* EECmp *)
    destruct (analyze G e1) as [ia|] eqn:E1; [|discriminate].
    destruct (analyze G e2) as [ib|] eqn:E2; [|discriminate].
    destruct (ann ia) as [|?|oa] eqn:Aa; try discriminate.
    destruct (ann ib) as [|?|ob] eqn:Ab; try discriminate. inv_some.
    destruct (eval G r e1) as [[|?|p]|] eqn:V1; try discriminate.
    destruct (eval G r e2) as [[|?|q]|] eqn:V2; try discriminate. inv_some.
    destruct (IHe1 ia _ E1 V1) as [A1 C1].
    destruct (IHe2 ib _ E2 V2) as [A2 C2].
    set (res := if ne then negb (p =? q) else (p =? q)).
    assert (K : forall b, match cv_enum ia, cv_enum ib with
                          | Some p', Some q' => Some (if ne then negb (p' =? q') else (p' =? q')) | _, _ => None end = Some b ->
                          b = res).
    { intros b Hb. destruct (cv_enum ia) as [p'|] eqn:P; [|discriminate].
      destruct (cv_enum ib) as [q'|] eqn:Q; [|discriminate]. inv_some.
      apply cv_enum_inv in P, Q. specialize (C1 _ P). specialize (C2 _ Q).
      inversion C1; inversion C2; subst. reflexivity. }
    cbn. split.
    + destruct (match cv_enum ia, cv_enum ib with
                | Some p', Some q' => Some (if ne then negb (p' =? q') else (p' =? q')) | _, _ => None end)
        as [b|] eqn:Eb; cbn; [apply K; reflexivity|exact I].
    + intros c Hc.
      destruct (match cv_enum ia, cv_enum ib with
                | Some p', Some q' => Some (if ne then negb (p' =? q') else (p' =? q')) | _, _ => None end)
        as [b|] eqn:Eb; cbn in Hc; [|discriminate]. inv_some. f_equal. apply K. reflexivity.
  - (* EBop *)
    destruct (analyze G e1) as [ia|] eqn:E1; [|discriminate].
    destruct (analyze G e2) as [ib|] eqn:E2; [|discriminate].
    destruct (ann ia) as [|oa|] eqn:Aa; try discriminate.
    destruct (ann ib) as [|ob|] eqn:Ab; try discriminate. inv_some.
    destruct (eval G r e1) as [[|p|]|] eqn:V1; try discriminate.
    destruct (eval G r e2) as [[|q|]|] eqn:V2; try discriminate. inv_some.
    destruct (IHe1 ia _ E1 V1) as [A1 C1].
    destruct (IHe2 ib _ E2 V2) as [A2 C2].
    assert (P1 : forall p', cv_bool ia = Some p' -> p' = p).
    { intros p' P. apply cv_bool_inv in P. specialize (C1 _ P). congruence. }
    assert (Q1 : forall q', cv_bool ib = Some q' -> q' = q).
    { intros q' Q. apply cv_bool_inv in Q. specialize (C2 _ Q). congruence. }
    cbn. split.
    + destruct (cv_bool ia) as [p'|]; destruct (cv_bool ib) as [q'|]; cbn; try exact I.
      rewrite (P1 _ eq_refl), (Q1 _ eq_refl). reflexivity.
    + intros c Hc. destruct op; cbn in Hc.
      * destruct (cv_bool ia) as [p'|]; destruct (cv_bool ib) as [q'|]; cbn in Hc;
          try (specialize (P1 _ eq_refl)); try (specialize (Q1 _ eq_refl)); subst;
          repeat match goal with H : context [if ?b then _ else _] |- _ => destruct b end;
          cbn in Hc; inv_some; f_equal; try reflexivity; try (destruct p; reflexivity); try (destruct q; reflexivity).
      * destruct (cv_bool ia) as [p'|]; destruct (cv_bool ib) as [q'|]; cbn in Hc;
          try (specialize (P1 _ eq_refl)); try (specialize (Q1 _ eq_refl)); subst;
          repeat match goal with H : context [if ?b then _ else _] |- _ => destruct b end;
          cbn in Hc; inv_some; f_equal; try reflexivity; try (destruct p; reflexivity); try (destruct q; reflexivity).
      * destruct (cv_bool ia) as [p'|]; destruct (cv_bool ib) as [q'|]; cbn in Hc; try discriminate.
        rewrite (P1 _ eq_refl), (Q1 _ eq_refl) in Hc. inv_some. reflexivity.
      * destruct (cv_bool ia) as [p'|]; destruct (cv_bool ib) as [q'|]; cbn in Hc; try discriminate.
        rewrite (P1 _ eq_refl), (Q1 _ eq_refl) in Hc. inv_some. reflexivity.
  - (* EChoice *)
    destruct (analyze G e1) as [ic|] eqn:E1; [|discriminate].
    destruct (analyze G e2) as [it|] eqn:E2; [|discriminate].
    destruct (analyze G e3) as [i_f|] eqn:E3; [|discriminate].
    destruct (ann ic) as [|cb|] eqn:Ac; try discriminate.
    destruct (eval G r e1) as [[|c0|]|] eqn:V1; try discriminate.
    destruct (IHe1 ic _ E1 V1) as [A1 C1]. rewrite Ac in A1.
    assert (CV : forall c, match cv_bool ic with
                           | Some b => if b then cv it else cv i_f | None => None end = Some c -> c = v).
    { intros c Hc. destruct (cv_bool ic) as [b|] eqn:B; [|discriminate].
      apply cv_bool_inv in B. specialize (C1 _ B). inversion C1; subst b.
      destruct c0.
      - destruct (IHe2 it v E2 HE) as [_ C]. apply C. exact Hc.
      - destruct (IHe3 i_f v E3 HE) as [_ C]. apply C. exact Hc. }
    destruct cb as [b|].
    + (* condition constant in the annotation *)
      inv_some. cbn in A1. subst b. cbn [ann cv]. split; [|exact CV].
      destruct c0.
      * destruct (IHe2 it v E2 HE) as [A _]. exact A.
      * destruct (IHe3 i_f v E3 HE) as [A _]. exact A.
    + destruct (ann it) as [x|ot|ot] eqn:At; destruct (ann i_f) as [y|of|of] eqn:Af; try discriminate.
      * destruct (aval_choice x y) as [rr|] eqn:Er; [|discriminate].
        destruct (check_int rr) as [r2|] eqn:Ec; [|discriminate]. inv_some.
        apply check_int_inv in Ec. subst r2. cbn [ann cv]. split; [|exact CV].
        destruct c0.
        -- destruct (IHe2 it v E2 HE) as [A _]. rewrite At in A.
           apply in_ares_int_inv in A. destruct A as (z & -> & Hz). cbn.
           eapply aval_choice_sound_l; eauto.
        -- destruct (IHe3 i_f v E3 HE) as [A _]. rewrite Af in A.
           apply in_ares_int_inv in A. destruct A as (z & -> & Hz). cbn.
           eapply aval_choice_sound_r; eauto.
      * inv_some. cbn [ann cv]. split; [|exact CV].
        destruct c0.
        -- destruct (IHe2 it v E2 HE) as [A _]. rewrite At in A.
           apply in_ares_bool_inv in A. destruct A as (z & -> & _). exact I.
        -- destruct (IHe3 i_f v E3 HE) as [A _]. rewrite Af in A.
           apply in_ares_bool_inv in A. destruct A as (z & -> & _). exact I.
      * inv_some. cbn [ann cv]. split; [|exact CV].
        destruct c0.
        -- destruct (IHe2 it v E2 HE) as [A _]. rewrite At in A.
           apply in_ares_enum_inv in A. destruct A as (z & -> & _). exact I.
        -- destruct (IHe3 i_f v E3 HE) as [A _]. rewrite Af in A.
           apply in_ares_enum_inv in A. destruct A as (z & -> & _). exact I.
  - (* EMax *)
    destruct (sequence (map (analyze G) args)) as [is|] eqn:Es; [|discriminate].
    destruct (sequence (map as_int is)) as [avs|] eqn:Ea; [|discriminate].
    destruct (aval_max avs) as [rr|] eqn:Er; [|discriminate].
    destruct (check_int rr) as [r2|] eqn:Ec; [|discriminate]. inv_some.
    apply check_int_inv in Ec. subst r2.
    destruct (sequence (map (fun a => match eval G r a with Some (VInt z) => Some z | _ => None end) args))
      as [zs|] eqn:Ez; [|discriminate].
    destruct (zmax_list zs) as [z|] eqn:Em; [|discriminate]. cbn in HE. inv_some.
    (* pointwise facts *)
    assert (PW : Forall2 in_aval avs zs /\
                 (forall cs, sequence (map cv_int is) = Some cs -> cs = zs)).
    { clear Er Em. revert is avs zs Es Ea Ez.
      induction H as [|e0 args0 He0 HF IH]; intros is avs zs Es Ea Ez.
      - cbn in Es, Ez. inv_some. cbn in Ea. inv_some. split; [constructor|].
        intros cs Hc. cbn in Hc. inv_some. reflexivity.
      - cbn [map sequence] in Es, Ez.
        destruct (analyze G e0) as [i0|] eqn:A0; [|discriminate].
        destruct (sequence (map (analyze G) args0)) as [is0|] eqn:Es0; [|discriminate]. inv_some.
        destruct (eval G r e0) as [[z0| |]|] eqn:V0; try discriminate.
        destruct (sequence (map (fun a => match eval G r a with Some (VInt z) => Some z | _ => None end) args0))
          as [zs0|] eqn:Ez0; [|discriminate]. inv_some.
        cbn [map sequence] in Ea.
        destruct (as_int i0) as [a0|] eqn:Ai; [|discriminate].
        destruct (sequence (map as_int is0)) as [avs0|] eqn:Ea0; [|discriminate]. inv_some.
        destruct (He0 i0 _ A0 V0) as [A C].
        apply as_int_inv in Ai. rewrite Ai in A. cbn in A.
        destruct (IH is0 avs0 zs0 eq_refl Ea0 eq_refl) as [F CS].
        split; [constructor; assumption|].
        intros cs Hc. cbn [map sequence] in Hc.
        destruct (cv_int i0) as [c0|] eqn:C0; [|discriminate].
        destruct (sequence (map cv_int is0)) as [cs0|] eqn:Cs0; [|discriminate]. inv_some.
        apply cv_int_inv in C0. specialize (C _ C0). inversion C; subst.
        f_equal. apply CS. reflexivity. }
    destruct PW as [F CS]. cbn [ann cv]. split.
    + cbn. eapply aval_max_sound; eauto.
    + intros c Hc. destruct (sequence (map cv_int is)) as [cs|] eqn:Ecs; [|discriminate].
      rewrite (CS _ eq_refl) in Hc. rewrite Em in Hc. cbn in Hc. inv_some. reflexivity.
  - (* EUpper *)
    destruct (analyze G e) as [ia|] eqn:E1; [|discriminate].
    destruct (as_int ia) as [x|] eqn:Ex; [|discriminate].
    destruct (hi x) as [|z|] eqn:Eh; try discriminate.
    inv_some.
    unfold bounds_of in HE. rewrite E1 in HE. cbn in HE.
    apply as_int_inv in Ex. rewrite Ex in HE. rewrite Eh in HE. inv_some.
    cbn. split; [apply aval_const_sound|intros c [= <-]; reflexivity].
  - (* ELower *)
    destruct (analyze G e) as [ia|] eqn:E1; [|discriminate].
    destruct (as_int ia) as [x|] eqn:Ex; [|discriminate].
    destruct (lo x) as [|z|] eqn:Eh; try discriminate.
    inv_some.
    unfold bounds_of in HE. rewrite E1 in HE. cbn in HE.
    apply as_int_inv in Ex. rewrite Ex in HE. rewrite Eh in HE. inv_some.
    cbn. split; [apply aval_const_sound|intros c [= <-]; reflexivity].
Qed.
