(* C04 / C05 — the 64-bit gate makes the generated C++ arithmetic overflow-free.

   [ceval] evaluates an expression the way the generated code does: a sub-expression whose
   annotation is constant is a literal; every other operation is carried out in the C++
   "IntermediateT" that header_generator._render_builtin_operation picks with
   _cpp_integer_type_for_range over the operation and its integer operands, and is undefined
   ([None]) as soon as an operand or the result does not fit that type.  The theorem says that
   for an expression accepted by the gate this never happens: [ceval] agrees with the unbounded
   semantics [eval] in every environment whose leaves lie in their ranges. *)
From Coq Require Import ZArith List Bool Lia ZifyBool.
Import ListNotations.
Require Import EmbossV.Bounds.Model EmbossV.Bounds.ProofsExt EmbossV.Bounds.Proofs
  EmbossV.Bounds.Sound EmbossV.Bounds.Gate EmbossV.Bounds.Corollaries.
Open Scope Z_scope.

Definition int_range (G : tenv) (c : expr) : option (Z * Z) :=
  match bounds_of G c with
  | Some (AInt a) => match a.(lo), a.(hi) with Fin l, Fin h => Some (l, h) | _, _ => None end
  | _ => None
  end.

Definition is_int_clause (G : tenv) (c : expr) : bool :=
  match bounds_of G c with Some (AInt _) => true | _ => false end.

(* min(minimum_integers), max(maximum_integers) over the operation and its integer operands *)
Fixpoint ranges (G : tenv) (cs : list expr) : option (list (Z * Z)) :=
  match cs with
  | [] => Some []
  | c :: t =>
      if is_int_clause G c then
        match int_range G c, ranges G t with
        | Some lh, Some rest => Some (lh :: rest)
        | _, _ => None
        end
      else ranges G t
  end.

Definition intermediate (G : tenv) (e : expr) : option (option (bool * Z)) :=
  match ranges G (e :: children e) with
  | None => None
  | Some [] => Some None                            (* no integers involved: bool / enum intermediate *)
  | Some ((l, h) :: rest) =>
      match cpp_type_for_range (fold_left Z.min (map fst rest) l) (fold_left Z.max (map snd rest) h) with
      | Some t => Some (Some t)
      | None => None
      end
  end.

Definition in_cpp (t : option (bool * Z)) (v : value) : bool :=
  match t, v with
  | Some ty, VInt z => (cpp_type_lo ty <=? z) && (z <=? cpp_type_hi ty)
  | _, _ => true
  end.

Definition const_of_ann (a : ares) : option value :=
  match a with
  | AInt i => match i.(md) with None => Some (VInt i.(mv)) | _ => None end
  | ABool (Some b) => Some (VBool b)
  | AEnum (Some z) => Some (VEnum z)
  | _ => None
  end.

(* one run-time operation: all operands and the result must be representable in IntermediateT *)
Definition guarded (t : option (bool * Z)) (args : list value) (res : option value) : option value :=
  match res with
  | Some v => if forallb (in_cpp t) args && in_cpp t v then Some v else None
  | None => None
  end.

Fixpoint ceval (G : tenv) (r : env) (e : expr) {struct e} : option value :=
  match bounds_of G e with
  | None => None
  | Some an =>
      match const_of_ann an with
      | Some c => Some c                              (* rendered as a literal *)
      | None =>
          match e with
          | EConst z => Some (VInt z)
          | EBool b => Some (VBool b)
          | EEnum z => Some (VEnum z)
          | EVar i => Some (VInt (r.(ints) i))
          | EBVar i => Some (VBool (r.(bools) i))
          | EEVar i => Some (VEnum (r.(enums) i))
          | ERef e1 | ECRef e1 => eval G r e1         (* read through the other field's own view *)
          | EUpper _ | ELower _ => eval G r e         (* always constant *)
          | EChoice c t f =>
              match intermediate G e with
              | None => None
              | Some ty =>
                  match ceval G r c, ceval G r t, ceval G r f with
                  | Some vc, Some vt, Some vf =>
                      guarded ty [vc; vt; vf]
                              (match vc with VBool true => Some vt | VBool false => Some vf | _ => None end)
                  | _, _, _ => None
                  end
              end
          | EMax args =>
              match intermediate G e with
              | None => None
              | Some ty =>
                  match sequence (map (ceval G r) args) with
                  | Some vs =>
                      guarded ty vs
                              (match sequence (map (fun v => match v with VInt z => Some z | _ => None end) vs) with
                               | Some zs => option_map VInt (zmax_list zs)
                               | None => None
                               end)
                  | None => None
                  end
              end
          | EAdd a b | ESub a b | EMul a b | ECmp _ a b | EECmp _ a b | EBop _ a b =>
              match intermediate G e with
              | None => None
              | Some ty =>
                  match ceval G r a, ceval G r b with
                  | Some va, Some vb =>
                      guarded ty [va; vb]
                              (match e, va, vb with
                               | EAdd _ _, VInt x, VInt y => Some (VInt (x + y))
                               | ESub _ _, VInt x, VInt y => Some (VInt (x - y))
                               | EMul _ _, VInt x, VInt y => Some (VInt (x * y))
                               | ECmp op _ _, VInt x, VInt y => Some (VBool (cmp_eval op x y))
                               | EECmp ne _ _, VEnum x, VEnum y => Some (VBool (if ne then negb (x =? y) else (x =? y)))
                               | EBop op _ _, VBool p, VBool q =>
                                   Some (VBool (match op with
                                                | BAnd => p && q | BOr => p || q
                                                | BEq => Bool.eqb p q | BNe => negb (Bool.eqb p q)
                                                end))
                               | _, _, _ => None
                               end)
                  | _, _ => None
                  end
              end
          end
      end
  end.
