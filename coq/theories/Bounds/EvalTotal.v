(* C05 — an expression the analysis accepts evaluates (no stuck case), to a value of the kind its
   annotation says. *)
From Coq Require Import ZArith List Bool Lia ZifyBool.
Import ListNotations.
Require Import EmbossV.Bounds.Model EmbossV.Bounds.ProofsExt EmbossV.Bounds.Proofs EmbossV.Bounds.Sound.
Open Scope Z_scope.

Definition kind_ok (a : ares) (v : value) : Prop :=
  match a, v with
  | AInt _, VInt _ | ABool _, VBool _ | AEnum _, VEnum _ => True
  | _, _ => False
  end.

Lemma in_ares_kind a v : in_ares a v -> kind_ok a v.
Proof. destruct a as [|[|]|[|]], v; cbn; auto. Qed.

Lemma sequence_some_all {A B} (f : A -> option B) l :
  (forall x, In x l -> exists y, f x = Some y) -> exists ys, sequence (map f l) = Some ys.
Proof.
  induction l as [|x t IH]; intros H; [exists []; reflexivity|].
  destruct (H x (or_introl eq_refl)) as [y Hy]. destruct IH as [ys Hys]; [intros z Hz; apply H; right; exact Hz|].
  exists (y :: ys). cbn. rewrite Hy, Hys. reflexivity.
Qed.

Lemma sequence_in {A B} (f : A -> option B) l ys x :
  sequence (map f l) = Some ys -> In x l -> exists y, f x = Some y /\ In y ys.
Proof.
  revert ys. induction l as [|a t IH]; intros ys H Hin; [destruct Hin|].
  cbn in H. destruct (f a) as [y|] eqn:Ea; [|discriminate].
  destruct (sequence (map f t)) as [ys0|] eqn:Es; [|discriminate]. inversion H; subst ys; clear H.
  destruct Hin as [->|Hin]; [exists y; split; [exact Ea|left; reflexivity]|].
  destruct (IH ys0 eq_refl Hin) as (y' & H1 & H2). exists y'. split; [exact H1|right; exact H2].
Qed.

Theorem eval_total G r : env_in G r -> forall e i, analyze G e = Some i ->
  exists v, eval G r e = Some v /\ kind_ok i.(ann) v.
Proof.
  intros Henv.
  assert (K : forall e i v, analyze G e = Some i -> eval G r e = Some v -> kind_ok (ann i) v).
  { intros e i v HA HE. apply in_ares_kind. exact (proj1 (analyze_sound G r Henv e i v HA HE)). }
  induction e using expr_ind2; intros nfo HA; cbn [analyze] in HA.
  - inversion HA; subst. eexists; split; [reflexivity|exact I].
  - inversion HA; subst. eexists; split; [reflexivity|exact I].
  - inversion HA; subst. eexists; split; [reflexivity|exact I].
  - destruct (check_int (G i)) as [rr|] eqn:E; [|discriminate]. apply check_int_inv in E. subst rr.
    inversion HA; subst. eexists; split; [reflexivity|exact I].
  - inversion HA; subst. eexists; split; [reflexivity|exact I].
  - inversion HA; subst. eexists; split; [reflexivity|exact I].
  - destruct (analyze G e) as [i1|] eqn:E1; [|discriminate]. inversion HA; subst; clear HA.
    destruct (IHe i1 eq_refl) as (v & Hv & Hk). exists v. split; [exact Hv|exact Hk].
  - destruct (analyze G e) as [i1|] eqn:E1; [|discriminate].
    destruct (IHe i1 eq_refl) as (v & Hv & Hk). exists v. split; [exact Hv|].
    destruct (ann i1) as [a|[b|]|[z|]] eqn:Ea; try discriminate.
    + destruct (md a); [discriminate|]. inversion HA; subst. cbn. exact Hk.
    + inversion HA; subst. cbn. exact Hk.
    + inversion HA; subst. cbn. exact Hk.
  - (* EAdd *)
    destruct (analyze G e1) as [ia|] eqn:E1; [|discriminate].
    destruct (analyze G e2) as [ib|] eqn:E2; [|discriminate].
    destruct (as_int ia) as [x|] eqn:Ex; [|discriminate].
    destruct (as_int ib) as [y|] eqn:Ey; [|discriminate].
    destruct (aval_additive false x y) as [rr|]; [|discriminate].
    destruct (check_int rr) as [r2|] eqn:Ec; [|discriminate]. apply check_int_inv in Ec. subst r2.
    inversion HA; subst; clear HA.
    destruct (IHe1 ia eq_refl) as (v1 & V1 & K1). destruct (IHe2 ib eq_refl) as (v2 & V2 & K2).
    apply as_int_inv in Ex, Ey. rewrite Ex in K1. rewrite Ey in K2.
    destruct v1; try contradiction. destruct v2; try contradiction.
    eexists. cbn [eval]. rewrite V1, V2. split; [reflexivity|exact I].
  - (* ESub *)
    destruct (analyze G e1) as [ia|] eqn:E1; [|discriminate].
    destruct (analyze G e2) as [ib|] eqn:E2; [|discriminate].
    destruct (as_int ia) as [x|] eqn:Ex; [|discriminate].
    destruct (as_int ib) as [y|] eqn:Ey; [|discriminate].
    destruct (aval_additive true x y) as [rr|]; [|discriminate].
    destruct (check_int rr) as [r2|] eqn:Ec; [|discriminate]. apply check_int_inv in Ec. subst r2.
    inversion HA; subst; clear HA.
    destruct (IHe1 ia eq_refl) as (v1 & V1 & K1). destruct (IHe2 ib eq_refl) as (v2 & V2 & K2).
    apply as_int_inv in Ex, Ey. rewrite Ex in K1. rewrite Ey in K2.
    destruct v1; try contradiction. destruct v2; try contradiction.
    eexists. cbn [eval]. rewrite V1, V2. split; [reflexivity|exact I].
  - (* EMul *)
    destruct (analyze G e1) as [ia|] eqn:E1; [|discriminate].
    destruct (analyze G e2) as [ib|] eqn:E2; [|discriminate].
    destruct (as_int ia) as [x|] eqn:Ex; [|discriminate].
    destruct (as_int ib) as [y|] eqn:Ey; [|discriminate].
    destruct (aval_mul x y) as [rr|]; [|discriminate].
    destruct (check_int rr) as [r2|] eqn:Ec; [|discriminate]. apply check_int_inv in Ec. subst r2.
    inversion HA; subst; clear HA.
    destruct (IHe1 ia eq_refl) as (v1 & V1 & K1). destruct (IHe2 ib eq_refl) as (v2 & V2 & K2).
    apply as_int_inv in Ex, Ey. rewrite Ex in K1. rewrite Ey in K2.
    destruct v1; try contradiction. destruct v2; try contradiction.
    eexists. cbn [eval]. rewrite V1, V2. split; [reflexivity|exact I].
  - (* ECmp *)
    destruct (analyze G e1) as [ia|] eqn:E1; [|discriminate].
    destruct (analyze G e2) as [ib|] eqn:E2; [|discriminate].
    destruct (as_int ia) as [x|] eqn:Ex; [|discriminate].
    destruct (as_int ib) as [y|] eqn:Ey; [|discriminate].
    inversion HA; subst; clear HA.
    destruct (IHe1 ia eq_refl) as (v1 & V1 & K1). destruct (IHe2 ib eq_refl) as (v2 & V2 & K2).
    apply as_int_inv in Ex, Ey. rewrite Ex in K1. rewrite Ey in K2.
    destruct v1; try contradiction. destruct v2; try contradiction.
    eexists. cbn [eval]. rewrite V1, V2. split; [reflexivity|exact I].
  - (* EECmp *)
    destruct (analyze G e1) as [ia|] eqn:E1; [|discriminate].
    destruct (analyze G e2) as [ib|] eqn:E2; [|discriminate].
    destruct (ann ia) as [| |oa] eqn:Aa; try discriminate.
    destruct (ann ib) as [| |ob] eqn:Ab; try discriminate.
    inversion HA; subst; clear HA.
    destruct (IHe1 ia eq_refl) as (v1 & V1 & K1). destruct (IHe2 ib eq_refl) as (v2 & V2 & K2).
    rewrite Aa in K1. rewrite Ab in K2.
    destruct v1; try contradiction. destruct v2; try contradiction.
    eexists. cbn [eval]. rewrite V1, V2. split; [reflexivity|exact I].
  - (* EBop *)
    destruct (analyze G e1) as [ia|] eqn:E1; [|discriminate].
    destruct (analyze G e2) as [ib|] eqn:E2; [|discriminate].
    destruct (ann ia) as [|oa|] eqn:Aa; try discriminate.
    destruct (ann ib) as [|ob|] eqn:Ab; try discriminate.
    inversion HA; subst; clear HA.
    destruct (IHe1 ia eq_refl) as (v1 & V1 & K1). destruct (IHe2 ib eq_refl) as (v2 & V2 & K2).
    rewrite Aa in K1. rewrite Ab in K2.
    destruct v1; try contradiction. destruct v2; try contradiction.
    eexists. cbn [eval]. rewrite V1, V2. split; [reflexivity|exact I].
  - (* EChoice *)
    destruct (analyze G e1) as [ic|] eqn:E1; [|discriminate].
    destruct (analyze G e2) as [it|] eqn:E2; [|discriminate].
    destruct (analyze G e3) as [i_f|] eqn:E3; [|discriminate].
    destruct (IHe1 ic eq_refl) as (vc & Vc & Kc).
    destruct (IHe2 it eq_refl) as (vt & Vt & Kt).
    destruct (IHe3 i_f eq_refl) as (vf & Vf & Kf).
    destruct (ann ic) as [|cb|] eqn:Ac; try discriminate.
    destruct vc as [|c0|]; try contradiction.
    assert (HE : eval G r (EChoice e1 e2 e3) = Some (if c0 then vt else vf)).
    { cbn [eval]. rewrite Vc. destruct c0; assumption. }
    exists (if c0 then vt else vf). split; [exact HE|].
    apply (K (EChoice e1 e2 e3) nfo); [|exact HE].
    cbn [analyze]. rewrite E1, E2, E3, Ac. exact HA.
  - (* EMax *)
    destruct (sequence (map (analyze G) args)) as [is|] eqn:Es; [|discriminate].
    destruct (sequence (map as_int is)) as [avs|] eqn:Ea; [|discriminate].
    destruct (aval_max avs) as [rr|] eqn:Er; [|discriminate].
    destruct (check_int rr) as [r2|] eqn:Ec; [|discriminate]. apply check_int_inv in Ec. subst r2.
    inversion HA; subst; clear HA.
    assert (Hz : exists zs, sequence (map (fun a => match eval G r a with Some (VInt z) => Some z | _ => None end) args) = Some zs
                            /\ length zs = length args).
    { clear Er. revert is avs Es Ea. induction H as [|e0 t He0 Ht IH]; intros is avs Es Ea.
      - exists []. split; reflexivity.
      - cbn [map sequence] in Es.
        destruct (analyze G e0) as [i0|] eqn:A0; [|discriminate].
        destruct (sequence (map (analyze G) t)) as [is0|] eqn:Es0; [|discriminate].
        inversion Es; subst is; clear Es. cbn [map sequence] in Ea.
        destruct (as_int i0) as [a0|] eqn:Ai; [|discriminate].
        destruct (sequence (map as_int is0)) as [avs0|] eqn:Ea0; [|discriminate].
        destruct (He0 i0 eq_refl) as (v0 & V0 & K0). apply as_int_inv in Ai. rewrite Ai in K0.
        destruct v0 as [z0| |]; try contradiction.
        destruct (IH is0 avs0 eq_refl Ea0) as (zs & Hzs & Hl).
        exists (z0 :: zs). cbn [map sequence]. rewrite V0, Hzs. split; [reflexivity|cbn; lia]. }
    destruct Hz as (zs & Hzs & Hl).
    destruct args as [|a0 rest].
    + cbn in Es. inversion Es; subst. cbn in Ea. inversion Ea; subst. cbn in Er. discriminate.
    + destruct zs as [|z0 zs]; [cbn in Hl; lia|].
      eexists. cbn [eval]. rewrite Hzs. cbn. split; [reflexivity|exact I].
  - (* EUpper *)
    destruct (analyze G e) as [ia|] eqn:E1; [|discriminate].
    destruct (as_int ia) as [x|] eqn:Ex; [|discriminate].
    destruct (hi x) as [|z|] eqn:Eh; try discriminate.
    inversion HA; subst; clear HA.
    eexists. cbn [eval]. unfold bounds_of. rewrite E1. cbn. apply as_int_inv in Ex. rewrite Ex, Eh.
    split; [reflexivity|exact I].
  - (* ELower *)
    destruct (analyze G e) as [ia|] eqn:E1; [|discriminate].
    destruct (as_int ia) as [x|] eqn:Ex; [|discriminate].
    destruct (lo x) as [|z|] eqn:Eh; try discriminate.
    inversion HA; subst; clear HA.
    eexists. cbn [eval]. unfold bounds_of. rewrite E1. cbn. apply as_int_inv in Ex. rewrite Ex, Eh.
    split; [reflexivity|exact I].
Qed.
