(* C05 — Gallina mirror of compiler/front_end/expression_bounds.py,
   ir_util.constant_value and the 64-bit gate of constraints.py.

   Only definitions live here (the model must still evaluate when a proof
   breaks).  [None] results stand for "an assert of the pass would fire / the
   expression is outside the modelled fragment". *)
From Coq Require Import ZArith List Bool.
Import ListNotations.
Open Scope Z_scope.

(* ---------- extended integers: ints, "infinity", "-infinity" ---------- *)
Inductive ext := NegInf | Fin (z : Z) | PosInf.

Definition ext_is_inf (a : ext) : bool :=
  match a with Fin _ => false | _ => true end.

(* _add *)
Definition ext_add (a b : ext) : option ext :=
  match a, b with
  | Fin x, Fin y => Some (Fin (x + y))
  | PosInf, NegInf | NegInf, PosInf => None
  | PosInf, _ | _, PosInf => Some PosInf
  | NegInf, _ | _, NegInf => Some NegInf
  end.

(* _sub *)
Definition ext_neg (b : ext) : ext :=
  match b with PosInf => NegInf | NegInf => PosInf | Fin y => Fin (- y) end.
Definition ext_sub (a b : ext) : option ext := ext_add a (ext_neg b).

(* _sign *)
Definition ext_sign (a : ext) : Z :=
  match a with PosInf => 1 | NegInf => -1 | Fin z => Z.sgn z end.

(* _mul *)
Definition ext_mul (a b : ext) : ext :=
  match a, b with
  | Fin x, Fin y => Fin (x * y)
  | _, _ =>
      let s := ext_sign a * ext_sign b in
      if 0 <? s then PosInf else if s <? 0 then NegInf else Fin 0
  end.

(* _max / _min over a non-empty python list *)
Definition ext_max2 (a b : ext) : ext :=
  match a, b with
  | PosInf, _ | _, PosInf => PosInf
  | NegInf, x | x, NegInf => x
  | Fin x, Fin y => Fin (Z.max x y)
  end.
Definition ext_min2 (a b : ext) : ext :=
  match a, b with
  | NegInf, _ | _, NegInf => NegInf
  | PosInf, x | x, PosInf => x
  | Fin x, Fin y => Fin (Z.min x y)
  end.
Definition ext_max_list (l : list ext) : option ext :=
  match l with [] => None | x :: t => Some (fold_left ext_max2 t x) end.
Definition ext_min_list (l : list ext) : option ext :=
  match l with [] => None | x :: t => Some (fold_left ext_min2 t x) end.

Definition ext_eqb (a b : ext) : bool :=
  match a, b with
  | NegInf, NegInf | PosInf, PosInf => true
  | Fin x, Fin y => x =? y
  | _, _ => false
  end.

(* ---------- moduli: [None] is the string "infinity" ---------- *)
Definition modulus := option Z.

(* _greatest_common_divisor *)
Definition gcdx (a b : modulus) : modulus :=
  match a, b with
  | Some 0, Some 0 => None
  | Some 0, _ => b
  | _, Some 0 => a
  | None, _ => b
  | _, None => a
  | Some x, Some y => Some (Z.gcd x y)
  end.

Record aval := mk_aval { lo : ext; hi : ext; md : modulus; mv : Z }.

Definition aval_const (z : Z) : aval := mk_aval (Fin z) (Fin z) None z.

(* _shared_modular_value; None = one of its asserts fires *)
Definition shared_modular_value (lm : modulus) (lv : Z) (rm : modulus) (rv : Z)
  : option (modulus * Z) :=
  let common := gcdx lm rm in
  let new := gcdx common (Some (Z.abs (lv - rv))) in
  match new with
  | None =>
      if (lv =? rv) && (match lm, rm with None, None => true | _, _ => false end)
      then Some (None, lv) else None
  | Some m =>
      if (lv mod m =? rv mod m) then Some (Some m, lv mod m) else None
  end.

(* _compute_constraints_of_additive_operator *)
Definition aval_additive (sub : bool) (l r : aval) : option aval :=
  let umv := if sub then l.(mv) - r.(mv) else l.(mv) + r.(mv) in
  let nm := gcdx l.(md) r.(md) in
  let nmv := match nm with None => umv | Some m => umv mod m end in
  let f := if sub then ext_sub else ext_add in
  let rmax := if sub then r.(lo) else r.(hi) in
  let rmin := if sub then r.(hi) else r.(lo) in
  match f l.(lo) rmin, f l.(hi) rmax with
  | Some a, Some b => Some (mk_aval a b nm nmv)
  | _, _ => None
  end.

(* _compute_constraints_of_multiplicative_operator *)
Definition aval_mul (l r : aval) : option aval :=
  let extrema := [ext_mul l.(hi) r.(hi); ext_mul l.(lo) r.(hi);
                  ext_mul l.(hi) r.(lo); ext_mul l.(lo) r.(lo)] in
  match ext_min_list extrema, ext_max_list extrema with
  | Some mn, Some mx =>
      match l.(md), r.(md) with
      | None, None => Some (mk_aval mn mx None (l.(mv) * r.(mv)))
      | None, Some vm =>
          if l.(mv) =? 0 then Some (mk_aval mn mx None 0)
          else let nm := vm * Z.abs l.(mv) in
               Some (mk_aval mn mx (Some nm) ((r.(mv) * l.(mv)) mod nm))
      | Some vm, None =>
          if r.(mv) =? 0 then Some (mk_aval mn mx None 0)
          else let nm := vm * Z.abs r.(mv) in
               Some (mk_aval mn mx (Some nm) ((l.(mv) * r.(mv)) mod nm))
      | Some lm, Some rm =>
          match gcdx (Some lm) (Some l.(mv)), gcdx (Some rm) (Some r.(mv)) with
          | Some zl, Some zr =>
              if (lm mod zl =? 0) && (rm mod zr =? 0) then
                match gcdx (Some (lm / zl)) (Some (rm / zr)) with
                | Some sh =>
                    let fm := sh * (zl * zr) in
                    Some (mk_aval mn mx (Some fm) ((l.(mv) * r.(mv)) mod fm))
                | None => None
                end
              else None
          | _, _ => None
          end
      end
  | _, _ => None
  end.

(* integer part of _compute_constraints_of_choice_operator (condition not constant) *)
Definition aval_choice (t f : aval) : option aval :=
  match shared_modular_value t.(md) t.(mv) f.(md) f.(mv) with
  | Some (m, v) => Some (mk_aval (ext_min2 t.(lo) f.(lo)) (ext_max2 t.(hi) f.(hi)) m v)
  | None => None
  end.

(* _compute_constraints_of_maximum_function *)
Fixpoint shared_fold (m : modulus) (v : Z) (rest : list aval) : option (modulus * Z) :=
  match rest with
  | [] => Some (m, v)
  | a :: t =>
      match shared_modular_value m v a.(md) a.(mv) with
      | Some (m', v') => shared_fold m' v' t
      | None => None
      end
  end.

Definition aval_max (args : list aval) : option aval :=
  match args with
  | [] => None
  | a0 :: rest =>
      match ext_max_list (map lo args), ext_max_list (map hi args) with
      | Some mn, Some mx =>
          if ext_eqb mn mx then
            match mn with
            | Fin z => Some (mk_aval mn mx None z)
            | _ => None   (* modular_value would be the string "infinity" *)
            end
          else
            match shared_fold a0.(md) a0.(mv) rest with
            | Some (m, v) => Some (mk_aval mn mx m v)
            | None => None
            end
      | _, _ => None
      end
  end.

(* _assert_integer_constraints *)
Definition aval_consistent (a : aval) : bool :=
  match a.(md) with
  | None => ext_eqb a.(lo) (Fin a.(mv)) && ext_eqb a.(hi) (Fin a.(mv))
  | Some m =>
      (0 <? m)
      && (match a.(lo) with Fin l => l mod m =? a.(mv) | PosInf => false | NegInf => true end)
      && (match a.(hi) with Fin h => h mod m =? a.(mv) | NegInf => false | PosInf => true end)
      && negb (ext_eqb a.(lo) a.(hi))
      && (match a.(lo), a.(hi) with Fin l, Fin h => l <=? h | _, _ => true end)
  end.

(* ---------- expressions ---------- *)
Inductive cmpop := CEq | CNe | CLt | CLe | CGt | CGe.
Inductive boolop := BAnd | BOr | BEq | BNe.

Inductive expr :=
| EConst (z : Z)                       (* numeric constant *)
| EBool (b : bool)                     (* boolean constant *)
| EEnum (z : Z)                        (* constant reference to an enum value *)
| EVar (i : nat)                       (* reference to a physical integer field / parameter *)
| EBVar (i : nat)                      (* reference to a physical boolean (Flag) field *)
| EEVar (i : nat)                      (* reference to a physical enum field / parameter *)
| ERef (e : expr)                      (* reference to a virtual field (or $present(f)): type copied from e *)
| ECRef (e : expr)                     (* constant_reference to a virtual field of another structure *)
| EAdd (a b : expr) | ESub (a b : expr) | EMul (a b : expr)
| ECmp (op : cmpop) (a b : expr)       (* comparison of two integers *)
| EECmp (ne : bool) (a b : expr)       (* == / != of two enum values *)
| EBop (op : boolop) (a b : expr)      (* && || and ==/!= of two booleans *)
| EChoice (c t f : expr)
| EMax (args : list expr)
| EUpper (a : expr) | ELower (a : expr).

Inductive value := VInt (z : Z) | VBool (b : bool) | VEnum (z : Z).

Inductive ares :=
| AInt (a : aval)
| ABool (v : option bool)
| AEnum (v : option Z).

(* is_constant_type *)
Definition ares_is_constant (r : ares) : bool :=
  match r with
  | AInt a => match a.(md) with None => true | _ => false end
  | ABool (Some _) | AEnum (Some _) => true
  | _ => false
  end.

Definition cmp_eval (op : cmpop) (x y : Z) : bool :=
  match op with
  | CEq => x =? y | CNe => negb (x =? y)
  | CLt => x <? y | CLe => x <=? y | CGt => y <? x | CGe => y <=? x
  end.

(* three-valued And / Or of ir_util._constant_value_of_function *)
Definition and3 (a b : option bool) : option bool :=
  match a, b with
  | Some false, _ | _, Some false => Some false
  | Some true, Some true => Some true
  | _, _ => None
  end.
Definition or3 (a b : option bool) : option bool :=
  match a, b with
  | Some true, _ | _, Some true => Some true
  | Some false, Some false => Some false
  | _, _ => None
  end.

(* Leaf environment: abstract value of each integer leaf. *)
Definition tenv := nat -> aval.

(* Result of analysing one expression: its type annotation (the pass) and its
   ir_util.constant_value.  The two are computed together because
   constant_value of a constant_reference reads the annotation and the
   annotation of a comparison calls constant_value. *)
Record info := mk_info { ann : ares; cv : option value }.

Definition as_int (i : info) : option aval := match i.(ann) with AInt a => Some a | _ => None end.
Definition cv_int (i : info) : option Z := match i.(cv) with Some (VInt z) => Some z | _ => None end.
Definition cv_bool (i : info) : option bool := match i.(cv) with Some (VBool b) => Some b | _ => None end.
Definition cv_enum (i : info) : option Z := match i.(cv) with Some (VEnum z) => Some z | _ => None end.

Definition check_int (a : aval) : option ares :=
  if aval_consistent a then Some (AInt a) else None.

Fixpoint sequence {A} (l : list (option A)) : option (list A) :=
  match l with
  | [] => Some []
  | None :: _ => None
  | Some x :: t => match sequence t with Some t' => Some (x :: t') | None => None end
  end.

Definition zmax_list (l : list Z) : option Z :=
  match l with [] => None | x :: t => Some (fold_left Z.max t x) end.

Fixpoint analyze (G : tenv) (e : expr) {struct e} : option info :=
  match e with
  | EConst z => Some (mk_info (AInt (aval_const z)) (Some (VInt z)))
  | EBool b => Some (mk_info (ABool (Some b)) (Some (VBool b)))
  | EEnum z => Some (mk_info (AEnum (Some z)) (Some (VEnum z)))
  | EVar i =>
      match check_int (G i) with
      | Some r => Some (mk_info r None)
      | None => None
      end
  | EBVar _ => Some (mk_info (ABool None) None)
  | EEVar _ => Some (mk_info (AEnum None) None)
  | ERef e1 =>
      match analyze G e1 with
      | Some i => Some (mk_info i.(ann) None)
      | None => None
      end
  | ECRef e1 =>
      match analyze G e1 with
      | Some i =>
          match i.(ann) with
          | AInt a => match a.(md) with None => Some (mk_info i.(ann) (Some (VInt a.(mv)))) | _ => None end
          | ABool (Some b) => Some (mk_info i.(ann) (Some (VBool b)))
          | AEnum (Some z) => Some (mk_info i.(ann) (Some (VEnum z)))
          | _ => None
          end
      | None => None
      end
  | EAdd a b | ESub a b =>
      let sub := match e with ESub _ _ => true | _ => false end in
      match analyze G a, analyze G b with
      | Some ia, Some ib =>
          match as_int ia, as_int ib with
          | Some x, Some y =>
              match aval_additive sub x y with
              | Some r =>
                  match check_int r with
                  | Some rr =>
                      Some (mk_info rr
                              match cv_int ia, cv_int ib with
                              | Some p, Some q => Some (VInt (if sub then p - q else p + q))
                              | _, _ => None
                              end)
                  | None => None
                  end
              | None => None
              end
          | _, _ => None
          end
      | _, _ => None
      end
  | EMul a b =>
      match analyze G a, analyze G b with
      | Some ia, Some ib =>
          match as_int ia, as_int ib with
          | Some x, Some y =>
              match aval_mul x y with
              | Some r =>
                  match check_int r with
                  | Some rr =>
                      Some (mk_info rr
                              match cv_int ia, cv_int ib with
                              | Some p, Some q => Some (VInt (p * q))
                              | _, _ => None
                              end)
                  | None => None
                  end
              | None => None
              end
          | _, _ => None
          end
      | _, _ => None
      end
  | ECmp op a b =>
      match analyze G a, analyze G b with
      | Some ia, Some ib =>
          match as_int ia, as_int ib with
          | Some _, Some _ =>
              let c := match cv_int ia, cv_int ib with
                       | Some p, Some q => Some (cmp_eval op p q)
                       | _, _ => None
                       end in
              Some (mk_info (ABool c) (option_map VBool c))
          | _, _ => None
          end
      | _, _ => None
      end
  | EECmp ne a b =>
      match analyze G a, analyze G b with
      | Some ia, Some ib =>
          match ia.(ann), ib.(ann) with
          | AEnum _, AEnum _ =>
              let c := match cv_enum ia, cv_enum ib with
                       | Some p, Some q => Some (if ne then negb (p =? q) else (p =? q))
                       | _, _ => None
                       end in
              Some (mk_info (ABool c) (option_map VBool c))
          | _, _ => None
          end
      | _, _ => None
      end
  | EBop op a b =>
      match analyze G a, analyze G b with
      | Some ia, Some ib =>
          match ia.(ann), ib.(ann) with
          | ABool _, ABool _ =>
              (* annotation: constant only if *all* args are constant; constant_value: three-valued *)
              let both := match cv_bool ia, cv_bool ib with
                          | Some p, Some q =>
                              Some (match op with
                                    | BAnd => p && q | BOr => p || q
                                    | BEq => Bool.eqb p q | BNe => negb (Bool.eqb p q)
                                    end)
                          | _, _ => None
                          end in
              let c3 := match op with
                        | BAnd => and3 (cv_bool ia) (cv_bool ib)
                        | BOr => or3 (cv_bool ia) (cv_bool ib)
                        | _ => both
                        end in
              Some (mk_info (ABool both) (option_map VBool c3))
          | _, _ => None
          end
      | _, _ => None
      end
  | EChoice c t f =>
      match analyze G c, analyze G t, analyze G f with
      | Some ic, Some it, Some i_f =>
          match ic.(ann) with
          | ABool cb =>
              let cval := match cv_bool ic with
                          | Some b => if b then it.(cv) else i_f.(cv)
                          | None => None
                          end in
              match cb with
              | Some b => Some (mk_info (if b then it.(ann) else i_f.(ann)) cval)
              | None =>
                  match it.(ann), i_f.(ann) with
                  | AInt x, AInt y =>
                      match aval_choice x y with
                      | Some r => match check_int r with
                                  | Some rr => Some (mk_info rr cval)
                                  | None => None
                                  end
                      | None => None
                      end
                  | ABool _, ABool _ => Some (mk_info (ABool None) cval)
                  | AEnum _, AEnum _ => Some (mk_info (AEnum None) cval)
                  | _, _ => None
                  end
              end
          | _ => None
          end
      | _, _, _ => None
      end
  | EMax args =>
      match sequence (map (analyze G) args) with
      | Some is =>
          match sequence (map as_int is) with
          | Some avs =>
              match aval_max avs with
              | Some r =>
                  match check_int r with
                  | Some rr =>
                      Some (mk_info rr
                              match sequence (map cv_int is) with
                              | Some zs => option_map VInt (zmax_list zs)
                              | None => None
                              end)
                  | None => None
                  end
              | None => None
              end
          | None => None
          end
      | None => None
      end
  | EUpper a | ELower a =>
      let up := match e with EUpper _ => true | _ => false end in
      match analyze G a with
      | Some ia =>
          match as_int ia with
          | Some x =>
              match (if up then x.(hi) else x.(lo)) with
              | Fin z =>
                  (* ir_util.constant_value of a bound function is the bound stored in its type
                     (since fix 5ad5b76; before, it raised KeyError for a constant argument) *)
                  Some (mk_info (AInt (aval_const z)) (Some (VInt z)))
              | _ => None
              end
          | None => None
          end
      | None => None
      end
  end.

Definition bounds_of (G : tenv) (e : expr) : option ares := option_map ann (analyze G e).
Definition constant_value (G : tenv) (e : expr) : option value :=
  match analyze G e with Some i => i.(cv) | None => None end.

(* ---------- concrete semantics over unbounded Z ---------- *)
Record env := mk_env { ints : nat -> Z; bools : nat -> bool; enums : nat -> Z }.

Definition ext_val (d : Z) (x : ext) : Z := match x with Fin z => z | _ => d end.

Fixpoint eval (G : tenv) (r : env) (e : expr) {struct e} : option value :=
  match e with
  | EConst z => Some (VInt z)
  | EBool b => Some (VBool b)
  | EEnum z => Some (VEnum z)
  | EVar i => Some (VInt (r.(ints) i))
  | EBVar i => Some (VBool (r.(bools) i))
  | EEVar i => Some (VEnum (r.(enums) i))
  | ERef e1 | ECRef e1 => eval G r e1
  | EAdd a b =>
      match eval G r a, eval G r b with
      | Some (VInt x), Some (VInt y) => Some (VInt (x + y)) | _, _ => None end
  | ESub a b =>
      match eval G r a, eval G r b with
      | Some (VInt x), Some (VInt y) => Some (VInt (x - y)) | _, _ => None end
  | EMul a b =>
      match eval G r a, eval G r b with
      | Some (VInt x), Some (VInt y) => Some (VInt (x * y)) | _, _ => None end
  | ECmp op a b =>
      match eval G r a, eval G r b with
      | Some (VInt x), Some (VInt y) => Some (VBool (cmp_eval op x y)) | _, _ => None end
  | EECmp ne a b =>
      match eval G r a, eval G r b with
      | Some (VEnum x), Some (VEnum y) => Some (VBool (if ne then negb (x =? y) else (x =? y)))
      | _, _ => None end
  | EBop op a b =>
      match eval G r a, eval G r b with
      | Some (VBool p), Some (VBool q) =>
          Some (VBool (match op with
                       | BAnd => p && q | BOr => p || q
                       | BEq => Bool.eqb p q | BNe => negb (Bool.eqb p q)
                       end))
      | _, _ => None end
  | EChoice c t f =>
      match eval G r c with
      | Some (VBool true) => eval G r t
      | Some (VBool false) => eval G r f
      | _ => None
      end
  | EMax args =>
      match sequence (map (fun a => match eval G r a with Some (VInt z) => Some z | _ => None end) args) with
      | Some zs => option_map VInt (zmax_list zs)
      | None => None
      end
  | EUpper a =>
      (* $upper_bound(a) is by definition the compiler's inferred bound *)
      match bounds_of G a with
      | Some (AInt x) => match x.(hi) with Fin z => Some (VInt z) | _ => None end
      | _ => None
      end
  | ELower a =>
      match bounds_of G a with
      | Some (AInt x) => match x.(lo) with Fin z => Some (VInt z) | _ => None end
      | _ => None
      end
  end.

(* ---------- membership ---------- *)
Definition ext_le (a b : ext) : Prop :=
  match a, b with
  | NegInf, _ | _, PosInf => True
  | Fin x, Fin y => x <= y
  | _, _ => False
  end.

Definition in_aval (a : aval) (x : Z) : Prop :=
  ext_le a.(lo) (Fin x) /\ ext_le (Fin x) a.(hi) /\
  match a.(md) with
  | None => x = a.(mv)
  | Some m => (m | x - a.(mv))
  end.

Definition in_ares (r : ares) (v : value) : Prop :=
  match r, v with
  | AInt a, VInt x => in_aval a x
  | ABool None, VBool _ => True
  | ABool (Some b), VBool b' => b = b'
  | AEnum None, VEnum _ => True
  | AEnum (Some z), VEnum z' => z = z'
  | _, _ => False
  end.

Definition env_in (G : tenv) (r : env) : Prop := forall i, in_aval (G i) (r.(ints) i).

(* ---------- leaf ranges: _set_integer_constraints_from_physical_type ---------- *)
Inductive ikind := KUInt | KInt | KBcd.

Definition leaf_aval (k : ikind) (size : option Z) : aval :=
  match size with
  | None => mk_aval NegInf PosInf (Some 1) 0
  | Some w =>
      if w <? 1 then mk_aval NegInf PosInf (Some 1) 0   (* not a possible width: reported later (fix 90ef553) *)
      else
      match k with
      | KUInt => mk_aval (Fin 0) (Fin (2 ^ w - 1)) (Some 1) 0
      | KInt => mk_aval (Fin (- 2 ^ (w - 1))) (Fin (2 ^ (w - 1) - 1)) (Some 1) 0
      | KBcd => mk_aval (Fin 0) (Fin (10 ^ (w / 4) * 2 ^ (w mod 4) - 1)) (Some 1) 0
      end
  end.

(* ---------- the 64-bit gate of constraints.py ---------- *)
Definition fits_u64 (l h : Z) : bool := (0 <=? l) && (h <=? 2 ^ 64 - 1).
Definition fits_i64 (l h : Z) : bool := (- 2 ^ 63 <=? l) && (h <=? 2 ^ 63 - 1).

Definition children (e : expr) : list expr :=
  match e with
  | EAdd a b | ESub a b | EMul a b | ECmp _ a b | EECmp _ a b | EBop _ a b => [a; b]
  | EChoice c t f => [c; t; f]
  | EMax args => args
  | EUpper a | ELower a => [a]
  | _ => []
  end.

Definition is_function (e : expr) : bool :=
  match e with
  | EAdd _ _ | ESub _ _ | EMul _ _ | ECmp _ _ _ | EECmp _ _ _ | EBop _ _ _
  | EChoice _ _ _ | EMax _ | EUpper _ | ELower _ => true
  | _ => false
  end.

(* _integer_bounds_errors: true = no error *)
Definition own_bounds_ok (r : ares) : bool :=
  match r with
  | AInt a =>
      match a.(lo), a.(hi) with
      | Fin l, Fin h => fits_u64 l h || fits_i64 l h
      | _, _ => false
      end
  | _ => true
  end.

(* classification of a clause: 0 fits both, 1 = needs unsigned, 2 = needs signed *)
Definition clause_class (r : ares) : Z :=
  match r with
  | AInt a =>
      match a.(lo), a.(hi) with
      | Fin l, Fin h =>
          if negb (fits_i64 l h) then 1 else if negb (fits_u64 l h) then 2 else 0
      | _, _ => 0
      end
  | _ => 0
  end.

Fixpoint gate (G : tenv) (e : expr) {struct e} : bool :=
  match bounds_of G e with
  | None => false
  | Some r =>
      let runtime_fn := is_function e && negb (ares_is_constant r) in
      let args_ok :=
        if runtime_fn then
          match e with
          | EAdd a b | ESub a b | EMul a b | ECmp _ a b | EECmp _ a b | EBop _ a b => gate G a && gate G b
          | EChoice c t f => gate G c && gate G t && gate G f
          | EMax args => forallb (gate G) args
          | EUpper a | ELower a => gate G a
          | _ => true
          end
        else true in
      args_ok && own_bounds_ok r &&
      (if runtime_fn then
         let cls := clause_class r ::
                    map (fun a => match bounds_of G a with Some ra => clause_class ra | None => 0 end)
                        (children e) in
         negb (existsb (Z.eqb 1) cls && existsb (Z.eqb 2) cls)
       else true)
  end.

(* header_generator._cpp_integer_type_for_range: Some (signed?, bits) *)
Definition cpp_type_for_range (mn mx : Z) : option (bool * Z) :=
  if (- 2 ^ 31 <=? mn) && (mx <=? 2 ^ 31 - 1) then Some (true, 32)
  else if (0 <=? mn) && (mx <=? 2 ^ 32 - 1) then Some (false, 32)
  else if (- 2 ^ 63 <=? mn) && (mx <=? 2 ^ 63 - 1) then Some (true, 64)
  else if (0 <=? mn) && (mx <=? 2 ^ 64 - 1) then Some (false, 64)
  else None.
