#!/bin/bash
# DEVELOPER TOOL (not part of ./check): seeded-mutation self-test of the C08 tie between the Gallina generator
# model LR/Gen.v and /repo/compiler/front_end/lr1.py.
#
# Applies four one-line mutations of lr1.py, one at a time, in a scratch git worktree of the Emboss repository and
# runs `EMBOSS_REPO=<worktree> ./check C08 --tier quick` against each; every mutant must be reported with at least
# one VIOLATION line (exit status != 0).  /repo itself is never touched; the worktree is removed at the end and
# evidence/C08.json (which must come from runs against the unchanged tree) is restored.
#
# usage: tools/lr_mutants.sh [mutant-number ...]        env: VERIF_DIR (default: the directory above this script),
#        EMBOSS_SRC (default /repo), LR_MUTANTS_WT (default /tmp/builder-lrgen2/wt), LR_MUTANTS_TIER (default quick)
set -u
V=${VERIF_DIR:-$(cd "$(dirname "$0")/.." && pwd)}
SRC=${EMBOSS_SRC:-/repo}
WT=${LR_MUTANTS_WT:-/tmp/builder-lrgen2/wt}
TIER=${LR_MUTANTS_TIER:-quick}
LOGD=$(dirname "$WT")/lr_mutants_logs
F=compiler/front_end/lr1.py
mkdir -p "$(dirname "$WT")" "$LOGD"

cleanup() {
  [ -f "$LOGD/evidence_backup_C08.json" ] && cp "$LOGD/evidence_backup_C08.json" "$V/evidence/C08.json"
  git -C "$SRC" worktree remove --force "$WT" >/dev/null 2>&1
  git -C "$SRC" worktree prune >/dev/null 2>&1
}
trap cleanup EXIT
git -C "$SRC" worktree remove --force "$WT" >/dev/null 2>&1
git -C "$SRC" worktree add --detach "$WT" >/dev/null 2>&1 || { echo "cannot create worktree $WT of $SRC"; exit 2; }
cp "$V/evidence/C08.json" "$LOGD/evidence_backup_C08.json" 2>/dev/null

# name | text to find (exactly one occurrence) | replacement
NAMES=(
  "FIRST without epsilon propagation (_first stops after the first symbol)"
  "closure look-ahead FIRST(beta[0:1] t) instead of FIRST(beta t)"
  "goto without closure copy (_parallel_goto assigns the cached closure instead of uniting a copy)"
  "Accept overwrites a Reduce on \$ silently (assert removed)"
)
OLD=(
  "if None not in self.firsts[symbol]:"
  "item.production.rhs[item.dot + 1 :] + (item.terminal,)"
  "results[next_symbol].update(closure)"
  "assert action[i].get(END_OF_INPUT, new_action) == new_action"
)
NEW=(
  "if None not in self.firsts[symbol] or True:"
  "item.production.rhs[item.dot + 1 : item.dot + 2] + (item.terminal,)"
  "results[next_symbol] = closure"
  "pass"
)

WHICH=("$@"); [ ${#WHICH[@]} -eq 0 ] && WHICH=(1 2 3 4)
printf "%-3s %-98s %-4s %-5s %s\n" "#" "mutation of lr1.py" "exit" "#VIOL" "first violation keys" > "$LOGD/table.txt"
FAIL=0
for n in "${WHICH[@]}"; do
  k=$((n - 1))
  git -C "$WT" checkout -q -- "$F"
  OLD_S="${OLD[$k]}" NEW_S="${NEW[$k]}" /venv/bin/python - "$WT/$F" <<'EOF' || { echo "mutant $n does not apply"; FAIL=1; continue; }
import os, sys
p = sys.argv[1]
s = open(p).read()
old, new = os.environ["OLD_S"], os.environ["NEW_S"]
if s.count(old) != 1:
    sys.exit("expected exactly one occurrence of %r, found %d" % (old, s.count(old)))
open(p, "w").write(s.replace(old, new))
EOF
  (cd "$V" && EMBOSS_REPO="$WT" timeout 3000 ./check C08 --tier "$TIER" > "$LOGD/mutant_$n.log" 2>&1)
  rc=$?
  nv=$(grep -c '^VIOLATION' "$LOGD/mutant_$n.log")
  keys=$(grep '^VIOLATION' "$LOGD/mutant_$n.log" | grep -o 'replay=[^ ]*' | cut -d= -f2 | /venv/bin/python -c '
import json, sys
out = []
for p in sys.stdin.read().split():
    try:
        d = json.load(open(p))
        out.append("%s x%s" % (d.get("key"), d.get("occurrences", 1)))
    except (OSError, ValueError):
        out.append("?")
print(", ".join(out[:6]))')
  grep '^VIOLATION' "$LOGD/mutant_$n.log" | grep -o 'replay=[^ ]*' | cut -d= -f2 | xargs -r rm -f     # replays of mutants are not findings
  printf "%-3s %-98s %-4s %-5s %s\n" "$n" "${NAMES[$k]}" "$rc" "$nv" "$keys" >> "$LOGD/table.txt"
  [ "$nv" -ge 1 ] && [ "$rc" -ne 0 ] || FAIL=1
  git -C "$WT" checkout -q -- "$F"
done
cat "$LOGD/table.txt"
echo "logs: $LOGD/mutant_<n>.log"
[ $FAIL -eq 0 ] && echo "all mutants reported" || echo "SOME MUTANT WAS NOT REPORTED"
exit $FAIL
