#!/usr/bin/env python3
"""usage: seed_prompt.py <ID> <letter>  -- prints the prompt for a seeding sub-agent (property text + mechanisms to avoid)."""
import json, sys, glob, os
pid, x = sys.argv[1], sys.argv[2]
prop = None
for l in open('/verif/properties.jsonl'):
    p = json.loads(l)
    if p['id'] == pid: prop = p
avoid = []
for d in sorted(glob.glob('/verif/seeded/%s_*' % pid)):
    try:
        m = json.load(open(d + '/meta.json'))
        avoid.append('- ' + ' '.join(str(m.get('what_it_breaks', '')).split())[:260])
    except Exception: pass
W = '/tmp/seed/%s' % pid
print(f"""You are helping to validate a verification effort for the open-source project google/emboss (a Python compiler for a binary-structure DSL with a C++ header-only runtime). Your job is to play the role of a developer who makes a REALISTIC but WRONG change to the project.

Your own scratch git worktree of the project is at {W} (detached HEAD, clean). Work ONLY inside {W}; do not read or touch /repo or /verif or any other directory's copy of the project. 

The semantic property you must break (this is everything you are given about it):

{json.dumps(prop, indent=1)}

TASK. Produce ONE change to the project's own source (compiler/, runtime/, or shipped data files; not tests) that
  (1) breaks the property above,
  (2) still 'compiles' (Python imports, embossc works on the testdata, generated headers still compile for ordinary modules),
  (3) still passes the project's existing test suite, and
  (4) needs something SPECIFIC to manifest: an unusual input, a boundary value, a multi-step sequence of operations, a particular feature combination, or two cooperating sites that each look fine alone. NOT something that ordinary use or any golden file would expose at once. It should look like a plausible refactoring / optimisation / clean-up / bug-fix gone subtly wrong, something a reviewer could wave through.
  
Previous seeded changes for this property used the following mechanisms; stay AWAY from them (different function or different failure mechanism, ideally a different file):
{chr(10).join(avoid) if avoid else '- (none)'}

DELIVERABLES, all in {W}/seed_{x}/ (an untracked directory in the worktree):
  patch.diff   -- `git diff` of your change against the clean HEAD; must apply with `git apply seed_{x}/patch.diff` from {W}. Source files only (no tests, no seed_{x}/ content).
  demo.sh      -- `bash seed_{x}/demo.sh <repo root>` exits 0 on the unchanged tree and NON-ZERO on the tree with the patch applied, printing what differs. It may use python, embossc and g++ (see below); it must finish in < 10 minutes and write its scratch files under a `mktemp -d` directory that it removes. Any helper files (.emb, .cc, .py) it needs live beside it in seed_{x}/.
  meta.json    -- keys: "property" ("{pid}"), "what_it_breaks" (precise description: file, function, what changed, the observable consequence), "needs_to_manifest" (the specific circumstances), "files_touched", "demonstration" (how demo.sh shows it), "commands_run" (list of the commands you ran with their outcomes), "tests_passed" (number).
When you finish, leave the worktree CLEAN apart from seed_{x}/ (run `git checkout -- .` so the patch is NOT applied; remove build products and __pycache__ you created outside seed_{x}/).

HOW TO RUN THINGS (sandbox without network):
  * Python: /venv/bin/python with PYTHONPATH={W}. Fix PYTHONHASHSEED=0 unless hash order is your point.
  * Test suite: `cd {W} && PYTHONPATH={W} timeout 2400 /venv/bin/python -m pytest -q -p no:cacheprovider --timeout=900 --continue-on-collection-errors 2>&1 | tail -3`. Run it ONCE on the clean tree first to get the baseline line (expect 1069 passed, possibly with a few pre-existing failures/errors that are unrelated); with your patch the result must be the same. The golden-file tests compare generated headers for testdata/*.emb with testdata/golden_cpp; your change must not alter those unless you also regenerate them in a way a developer plausibly would (prefer not to).
  * Compiler: `cd {W} && PYTHONPATH={W} /venv/bin/python embossc --import-dir <dir> --output-path <out> <file relative to dir>` writes <out>/<file>.h. FILE must be relative to an import dir or nothing is produced.
  * C++: `g++ -std=c++17 -I{W} -I<out> demo.cc -o demo` (runtime headers are in {W}/runtime/cpp). clang++ with -fsanitize=address,undefined is also available.
  * Every shell command prints a `WARNING conda...` line first; ignore it. Wrap long commands in `timeout`. Never wait on stdin. NEVER use `git stash` (the stash is shared between all worktrees of the repository and other agents work in sibling worktrees): to switch between clean and patched tree use `git diff > seed_x/patch.diff; git checkout -- .` and `git apply`.
Verify all four requirements yourself (demo on clean tree: exit 0; demo with patch: non-zero; test suite with patch: same result as baseline) and record that in meta.json. Your final message should be a 5-line summary: file(s) changed, mechanism, what is needed to manifest, demo result clean/patched, test result.""")
