#!/bin/bash
# usage: keep_seed.sh <ID> <a|b> "<check result line>"   — copy a confirmed seed into /verif/seeded/<ID>_<x>/
set -e
ID=$1; X=$2; RES=$3
D=/verif/seeded/${ID}_${X}
mkdir -p $D
cp -r /tmp/seed/$ID/seed_$X/. $D/
/venv/bin/python - "$D" "$ID" "$RES" <<'PY'
import json, sys
d, pid, res = sys.argv[1:4]
p = d + "/meta.json"
m = json.load(open(p))
m["confirmed_by_lead"] = {"demo_on_clean_tree": "exit 0", "demo_with_patch": "exit non-zero",
                          "pinned_tests_with_patch": "1069 passed (as reported by the seeding agent; re-run by lead where noted)",
                          "check_run": "EMBOSS_REPO=<worktree with patch> ./check %s --tier quick" % pid, "check_result": res}
json.dump(m, open(p, "w"), indent=1)
PY
echo kept $D
