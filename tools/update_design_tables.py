#!/venv/bin/python
"""Regenerate the findings table (0.3) and the seed table (0.4) inside DESIGN.md from KNOWN_FINDINGS.json and seeded/*/meta.json."""
import subprocess
p = '/verif/DESIGN.md'
lines = open(p).read().split('\n')
def replace_table(header_prefix, new_rows):
    i = next(k for k, l in enumerate(lines) if l.startswith(header_prefix))
    j = i
    while j < len(lines) and lines[j].startswith('|'):
        j += 1
    lines[i:j] = new_rows
f = subprocess.run(['/venv/bin/python', '/verif/tools/findings_table.py'], capture_output=True, text=True).stdout.strip().split('\n')
t = subprocess.run(['/venv/bin/python', '/verif/tools/seed_table.py'], capture_output=True, text=True).stdout.strip().split('\n')
f = [l for l in f if l.startswith('|')]
t = [l for l in t if l.startswith('|')]
replace_table('| key | properties | status | what fails |', f)
replace_table('| seed | file(s) changed |', t)
open(p, 'w').write('\n'.join(lines))
print("findings rows: %d, seed rows: %d" % (len(f) - 2, len(t) - 2))
