#!/bin/bash
# usage: tools/soak.sh "<seeds>" <ids...> — runs every listed check at every seed on the current tree; prints one line per run.
SEEDS=$1; shift
cd "$(dirname "$0")/.."
./check setup > soak_setup.log 2>&1
for s in $SEEDS; do
  for id in "$@"; do
    t0=$(date +%s)
    VERIF_SEED=$s timeout 3000 ./check $id > soak_${id}_$s.log 2>&1
    rc=$?
    echo "seed=$s $id rc=$rc $(( $(date +%s) - t0 ))s viol=$(grep -c '^VIOLATION' soak_${id}_$s.log) $(grep -E 'quick:' soak_${id}_$s.log | tail -1 | cut -c1-90)"
    if [ $rc -ne 0 ]; then grep -E '^detail|^VIOLATION' soak_${id}_$s.log | head -4; fi
  done
done
