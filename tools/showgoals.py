#!/venv/bin/python
"""usage: showgoals.py FILE.v LINE [N]  — print the goals open just before line LINE (a failing Qed or tactic)."""
import subprocess, sys, os
f, line = sys.argv[1], int(sys.argv[2])
n = int(sys.argv[3]) if len(sys.argv) > 3 else 60
src = open(f).read().split("\n")
head = src[: line - 1]
tmp = "/tmp/showgoals_%d.v" % os.getpid()
open(tmp, "w").write("\n".join(head) + "\nShow.\nAbort.\n")
p = subprocess.run(["timeout", "300", "coqc", "-Q", "/verif/coq/theories", "EmbossV", tmp], capture_output=True, text=True)
out = (p.stdout + p.stderr).split("\n")
print("\n".join(out[:n]))
for ext in (".v", ".vo", ".vok", ".vos", ".glob"):
    try: os.remove(tmp[:-2] + ext)
    except OSError: pass
