#!/venv/bin/python
"""Merge builders' proposed known-finding entries (harness/known_proposed/*.json: a JSON list of
{"key","properties","what","repro", optional "where"}) into KNOWN_FINDINGS.json (status known).
Run by the lead only; never at check time."""
import glob, json
p = '/verif/KNOWN_FINDINGS.json'
d = json.load(open(p))
have = {f['key']: f for f in d['findings']}
n = 0
for fn in sorted(glob.glob('/verif/harness/known_proposed/*.json')):
    for e in json.load(open(fn)):
        if e['key'] in have:
            f = have[e['key']]
            for pr in e.get('properties', []):
                if pr not in f['properties']:
                    f['properties'].append(pr); n += 1
            continue
        ent = {"key": e['key'], "properties": e['properties'], "status": "known", "what": e['what'], "repro": e.get('repro', '')}
        if e.get('where'):
            ent['where'] = e['where']
        d['findings'].append(ent); have[e['key']] = ent; n += 1
json.dump(d, open(p, 'w'), indent=1); open(p, 'a').write("\n")
print("merged", n, "changes;", len(d['findings']), "entries")
