#!/venv/bin/python
"""Print the markdown table of seeded changes (from /verif/seeded/*/meta.json) for DESIGN.md section 0.4."""
import glob, json, os
rows = []
for d in sorted(glob.glob('/verif/seeded/*')):
    m = json.load(open(os.path.join(d, 'meta.json')))
    c = m.get('confirmed_by_lead', {})
    files = ", ".join(sorted({l.split(" b/")[-1].strip() for l in open(os.path.join(d, 'patch.diff')) if l.startswith('diff --git')}))
    what = (m.get('what_it_breaks') or '').replace('\n', ' ').replace('|', '/')
    if len(what) > 230:
        what = what[:227] + '...'
    res = (c.get('check_result') or '').replace('|', '/')
    rows.append("| %s | `%s` | %s | %s |" % (os.path.basename(d), files, what, res))
print("| seed | file(s) changed | what it breaks | result of the registered check |")
print("|---|---|---|---|")
print("\n".join(rows))
