#!/venv/bin/python
"""Markdown table of KNOWN_FINDINGS.json for DESIGN.md section 0.3."""
import json
d = json.load(open('/verif/KNOWN_FINDINGS.json'))
print("| key | properties | status | what fails |")
print("|---|---|---|---|")
for f in sorted(d['findings'], key=lambda f: (f['status'] != 'fixed', f['properties'][0], f['key'])):
    what = f['what'].replace('|', '/').replace('\n', ' ')
    if what.startswith('fixed: '):
        what = what.split(' ', 3)[3] if len(what.split(' ', 3)) > 3 else what
    st = f['status'] + (" " + f.get('commit', '') if f['status'] == 'fixed' else "")
    print("| `%s` | %s | %s | %s |" % (f['key'], " ".join(f['properties']), st, what[:400]))
