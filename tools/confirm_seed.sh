#!/bin/bash
# usage: [VERIF_DIR=/tmp/lead/vsnap] confirm_seed.sh <ID> <letter> [CHECK_ID]
# confirms a seed in /tmp/seed/<ID> (demo clean/patched, pinned tests with the patch) and runs ./check against it
ID=$1; X=$2; CK=${3:-$1}
W=/tmp/seed/$ID; V=${VERIF_DIR:-/verif}
mkdir -p /tmp/lead
unset PYTHONDONTWRITEBYTECODE; export PYTHONPYCACHEPREFIX=$V/build/pycache
cd $W && git checkout -q -- .
timeout 1200 bash seed_$X/demo.sh $W >/tmp/lead/demo_clean_$ID.log 2>&1; echo "demo clean exit: $?"
git apply seed_$X/patch.diff || { echo "patch does not apply"; exit 2; }
timeout 1200 bash seed_$X/demo.sh $W >/tmp/lead/demo_patched_$ID.log 2>&1; echo "demo patched exit: $?"
if [ -z "$SKIP_TESTS" ]; then (cd $W && PYTHONPATH=$W timeout 2400 /venv/bin/python -m pytest -q -p no:cacheprovider --timeout=900 --continue-on-collection-errors 2>&1 | tail -1); fi
cp $V/evidence/$CK.json /tmp/lead/evidence_backup_$CK.json 2>/dev/null
cd $V && EMBOSS_REPO=$W timeout 3000 ./check $CK > /tmp/lead/check_${ID}_$X.log 2>&1; echo "check exit: $?"
cp /tmp/lead/evidence_backup_$CK.json $V/evidence/$CK.json 2>/dev/null   # evidence must come from runs against /repo
grep -E "VIOLATION|KNOWN-FINDING|detail|$CK quick" /tmp/lead/check_${ID}_$X.log | cut -c1-400 | head -20
git -C $W checkout -q -- .
