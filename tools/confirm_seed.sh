#!/bin/bash
# usage: confirm_seed.sh <ID> <a|b> [CHECK_ID]  — confirms a seed in /tmp/seed/<ID> and runs ./check against it
ID=$1; X=$2; CK=${3:-$1}
W=/tmp/seed/$ID
unset PYTHONDONTWRITEBYTECODE; export PYTHONPYCACHEPREFIX=/verif/build/pycache
cd $W && git checkout -q -- . 
timeout 900 bash seed_$X/demo.sh $W >/tmp/lead/demo_clean_$ID.log 2>&1; echo "demo clean exit: $?"
git apply seed_$X/patch.diff || { echo "patch does not apply"; exit 2; }
timeout 900 bash seed_$X/demo.sh $W >/tmp/lead/demo_patched_$ID.log 2>&1; echo "demo patched exit: $?"
(cd $W && PYTHONPATH=$W timeout 2400 /venv/bin/python -m pytest -q -p no:cacheprovider --timeout=900 --continue-on-collection-errors 2>&1 | tail -1)
cd /verif && EMBOSS_REPO=$W timeout 2400 ./check $CK 2>&1 | grep -E "VIOLATION|KNOWN-FINDING|detail|$CK quick" | cut -c1-300
git -C $W checkout -q -- .
